----------------------------- MODULE RangerIndDev -----------------------------
(***************************************************************************)
(* The repaired numeric iterator of Ranger.tla (Overflow = FALSE) over the *)
(* FULL range of a 64-bit int, with the yielded sequence abstracted to its *)
(* length n and the flag ok ("every value yielded so far was Lo + its      *)
(* index").  IndInv is an INDUCTIVE invariant: Apalache discharges         *)
(*    Init => IndInv          (--init=Init    --inv=IndInv --length=0)     *)
(*    IndInv /\ Next => IndInv' (--init=IndInv --inv=IndInv --length=1)    *)
(* for ALL a, b in [-2^63, 2^63 - 1] at once -- what TLC checks on         *)
(* Ranger.tla for all W-bit integers (W = 4, 5).  IndInv contains: no      *)
(* intermediate value leaves the 64-bit range (so the unbounded integers   *)
(* of this module are the machine's wrapped ones), the values yielded are  *)
(* Lo, Lo + 1, ... in order, and when the iterator is exhausted their      *)
(* number is exactly that of the declared interval.                        *)
(***************************************************************************)
EXTENDS Integers

Min == -9223372036854775808
Max == 9223372036854775807

VARIABLES
  \* @type: Str;
  kind,
  \* @type: Int;
  a,
  \* @type: Int;
  b,
  \* @type: Int;
  pos,
  \* @type: Int;
  end,
  \* @type: Bool;
  done,
  \* @type: Int;
  n,
  \* @type: Bool;
  ok

InInt(x) == Min <= x /\ x <= Max

\* the declared interval
Lo == IF kind = "range" THEN a ELSE IF kind = "between" THEN a + 1 ELSE 0
Hi == IF kind = "range" THEN b ELSE IF kind = "between" THEN b - 1 ELSE a - 1
Count == IF Hi >= Lo THEN Hi - Lo + 1 ELSE 0

Init ==
  /\ kind \in {"range", "between", "until"}
  /\ a \in Int /\ InInt(a)
  /\ b \in Int /\ InInt(b)
  /\ n = 0 /\ ok = TRUE
  /\ \/ kind = "range"   /\ pos = a /\ end = b /\ done = (a > b)
     \/ kind = "between" /\ FALSE /\ pos = 0 /\ end = 0 /\ done = TRUE
     \/ kind = "between" /\ pos = a + 1 /\ end = b - 1 /\ done = (a + 1 > b - 1)
     \/ kind = "until"   /\ a = Min /\ pos = 0 /\ end = 0 /\ done = TRUE
     \/ kind = "until"   /\ a # Min /\ pos = 0 /\ end = a - 1 /\ done = (0 > a - 1)

\* one call of Next(): yields pos
Next ==
  /\ ~done
  /\ ok' = (ok /\ pos = Lo + n)
  /\ n' = n + 1
  /\ IF pos = end THEN done' = TRUE /\ pos' = pos ELSE done' = FALSE /\ pos' = pos + 1
  /\ UNCHANGED <<kind, a, b, end>>

IndInv ==
  /\ kind \in {"range", "between", "until"}
  /\ a \in Int /\ InInt(a) /\ b \in Int /\ InInt(b)
  /\ pos \in Int /\ end \in Int /\ n \in Int /\ done \in BOOLEAN /\ ok \in BOOLEAN
  /\ ok
  /\ n >= 0
  /\ InInt(pos) /\ InInt(end)                                  \* nothing ever left the 64-bit range
  /\ ~done => (pos = Lo + n /\ pos <= end /\ end = Hi)
  /\ done => n = Count
=============================================================================
