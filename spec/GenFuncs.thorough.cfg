CONSTANTS
  MaxParams = 3
  MaxLinks = 2
SPECIFICATION Spec
INVARIANTS ChainTheorem EmitCase
CHECK_DEADLOCK FALSE
