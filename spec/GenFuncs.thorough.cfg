CONSTANTS
  MaxParams = 3
  MaxLinks = 2
SPECIFICATION Spec
INVARIANTS ChainTheorem RecTheorem EmitCase
CHECK_DEADLOCK FALSE
