CONSTANTS
  K = 3
  Vocabulary = "small"
SPECIFICATION Spec
INVARIANT Emit
CHECK_DEADLOCK FALSE
