CONSTANTS
  Family = "member"
SPECIFICATION Spec
INVARIANT Emit
CHECK_DEADLOCK FALSE
