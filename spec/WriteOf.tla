------------------------------ MODULE WriteOf ------------------------------
(***************************************************************************)
(* Layer B machine of compiler.write (compiler.go): how the value of an    *)
(* output tag becomes text.  The Go function is one type switch whose      *)
(* cases OVERLAP (a value can be a fmt.Stringer and an HTMLer and have an   *)
(* Interface() method at once; a nil pointer satisfies every interface its *)
(* type implements), so the order of the cases is the behaviour.  The      *)
(* machine transcribes the switch case by case (Impl); next to it stands   *)
(* the declarative reading the properties C01 / C02 give of it (Decl):     *)
(*   - a nil pointer prints nothing, whatever its type implements;         *)
(*   - a value that wraps another (Interface()) prints as what it wraps;   *)
(*   - a string (and a boolean) is data: escaped;                          *)
(*   - template.HTML and the result of HTML() are trusted: verbatim, and   *)
(*     trusted wins over a String() method of the same value;              *)
(*   - numbers print as Go prints them, a Stringer as its String();        *)
(*   - a list prints as the concatenation of its elements, in order;       *)
(*   - anything else (maps, plain structs, defined string types without    *)
(*     methods, nil) prints nothing.                                       *)
(* Decl is written as a RANKING of the classes a value belongs to, not as  *)
(* an ordered chain, so that Agree compares two differently shaped         *)
(* definitions.  Deviation switch Order:                                   *)
(*   "code"          the switch as it stands                               *)
(*   "stringerFirst" the fmt.Stringer case moved above HTMLer              *)
(*   "nilMethods"    without the nil-pointer guard at the top (methods of  *)
(*                   a nil receiver would be called: here, printed)        *)
(*   "ifaceLate"     the Interface() case moved below string / HTML /      *)
(*                   HTMLer / Stringer                                     *)
(* TLC refutes Agree for each of them.                                     *)
(*                                                                         *)
(* A value is a record; its field k:                                       *)
(*   "nil"      the untyped nil (only inside lists / as a wrapped value)   *)
(*   "str"      string  p<&          "bool"  true                          *)
(*   "html"     template.HTML <b>    "int" 42, "float" 1.5, "uint8" 7      *)
(*   "time"     time.Time (default format)   "ptrtime" *time.Time (nil?)   *)
(*   "defstr"   a defined string type without methods                      *)
(*   "other"    a map                                                      *)
(*   "obj"      a struct value / pointer / nil pointer whose type has the  *)
(*              methods in `meths` (subset of Interface, HTML, String);    *)
(*              `inner` is what Interface() returns                        *)
(*   "strs"     []string of two strings      "anys" []interface{} of xs    *)
(* Output = sequence of pieces [k |-> "esc" | "raw", s |-> characters].    *)
(***************************************************************************)
EXTENDS Integers, Sequences, TLC, Json, FiniteSets

CONSTANTS MaxLen, Order, EmitCases

Esc(s) == <<[k |-> "esc", s |-> s]>>
Raw(s) == <<[k |-> "raw", s |-> s]>>

StrText   == <<"p", "LT", "AMP", "q">>
HtmlText  == <<"LT", "b", "GT">>
ObjHtml   == <<"LT", "i", "GT", "h">>        \* what HTML() returns
ObjString == <<"s", "LT", "t">>              \* what String() returns (written as it is)
TimeText  == <<"M","a","r","c","h"," ","0","5",","," ","2","0","2","4"," ","1","0",":","3","0",":","0","0"," ","+","0","0","0","0">>

Meths == SUBSET {"Interface", "HTML", "String"}
Modes == {"val", "ptr", "nilptr"}
NoInner == [k |-> "nil"]
Obj(ms, mode, inner) == [k |-> "obj", meths |-> ms, mode |-> mode, inner |-> inner]

Scalars == { [k |-> "str"], [k |-> "bool"], [k |-> "html"], [k |-> "int"], [k |-> "float"], [k |-> "uint8"], [k |-> "time"],
             [k |-> "ptrtime", isnil |-> FALSE], [k |-> "ptrtime", isnil |-> TRUE], [k |-> "defstr"], [k |-> "other"], [k |-> "strs"] }
\* what an Interface() method may hand back: nothing, data, trusted text, another object (value and nil pointer)
Inners == { NoInner, [k |-> "str"], [k |-> "html"], Obj({"String"}, "val", NoInner), Obj({"HTML", "String"}, "nilptr", NoInner), [k |-> "int"] }
Objs == { Obj(ms, mode, inner) : ms \in Meths, mode \in Modes, inner \in Inners }
Objs1 == { o \in Objs : "Interface" \in o.meths \/ o.inner = NoInner }        \* (inner only matters with Interface())
Flat0 == Scalars \cup Objs1
\* elements of lists: everything flat, the untyped nil, and one nested list
Elems == Flat0 \cup { NoInner, [k |-> "anys", xs |-> <<[k |-> "str"], [k |-> "html"]>>] }
Lists == { [k |-> "anys", xs |-> xs] : xs \in UNION { [1..n -> Elems] : n \in 0..MaxLen } }
Values == Flat0 \cup Lists

VARIABLE v
vars == <<v>>
Init == v \in Values
Spec == Init /\ [][UNCHANGED v]_vars

RECURSIVE Impl(_), Decl(_), ImplSeq(_), DeclSeq(_)

IsNilPtr(x) == (x.k = "obj" /\ x.mode = "nilptr") \/ (x.k = "ptrtime" /\ x.isnil)
Has(x, m) == x.k = "obj" /\ m \in x.meths
IsNum(x) == x.k \in {"int", "float", "uint8"}
NumText(x) == CASE x.k = "int" -> <<"4", "2">> [] x.k = "float" -> <<"1", ".", "5">> [] x.k = "uint8" -> <<"7">>

\* ---- the code: func (c *compiler) write(bb, i), case by case, in the order of the source
ImplSeq(xs) == IF xs = <<>> THEN <<>> ELSE Impl(Head(xs)) \o ImplSeq(Tail(xs))
Impl(x) ==
  IF Order # "nilMethods" /\ IsNilPtr(x) THEN <<>>                               \* rv.Kind() == reflect.Ptr && rv.IsNil()
  ELSE IF x.k = "time" THEN Raw(TimeText)                                          \* case time.Time
  ELSE IF x.k = "ptrtime" THEN (IF x.isnil THEN <<>> ELSE Raw(TimeText))           \* case *time.Time
  ELSE IF Order # "ifaceLate" /\ Has(x, "Interface") THEN Impl(x.inner)            \* case interfaceable
  ELSE IF x.k \in {"str", "bool"} THEN Esc(IF x.k = "str" THEN StrText ELSE <<"t", "r", "u", "e">>)   \* case string, ast.Printable, bool
  ELSE IF x.k = "html" THEN Raw(HtmlText)                                          \* case template.HTML
  ELSE IF Order = "stringerFirst" /\ Has(x, "String") THEN Raw(ObjString)
  ELSE IF Has(x, "HTML") THEN Raw(ObjHtml)                                         \* case HTMLer
  ELSE IF IsNum(x) THEN Raw(NumText(x))                                            \* case uint, ..., float64
  ELSE IF Has(x, "String") THEN Raw(ObjString)                                     \* case fmt.Stringer
  ELSE IF Order = "ifaceLate" /\ Has(x, "Interface") THEN Impl(x.inner)
  ELSE IF x.k = "strs" THEN Esc(StrText) \o Esc(<<"z">>)                           \* case []string: write of each (a string)
  ELSE IF x.k = "anys" THEN ImplSeq(x.xs)                                          \* case []interface{}
  ELSE <<>>                                                                        \* no case

\* ---- the statement: the classes a value belongs to, and which of them decides
Classes(x) ==
  (IF IsNilPtr(x) THEN {"nilptr"} ELSE {}) \cup
  (IF x.k \in {"time", "ptrtime"} THEN {"time"} ELSE {}) \cup
  (IF Has(x, "Interface") THEN {"wrapper"} ELSE {}) \cup
  (IF x.k \in {"str", "bool", "strs"} THEN {"data"} ELSE {}) \cup
  (IF x.k = "html" \/ Has(x, "HTML") THEN {"trusted"} ELSE {}) \cup
  (IF IsNum(x) THEN {"number"} ELSE {}) \cup
  (IF Has(x, "String") THEN {"stringer"} ELSE {}) \cup
  (IF x.k = "anys" THEN {"list"} ELSE {})
Rank(c) == CASE c = "nilptr" -> 1 [] c = "time" -> 2 [] c = "wrapper" -> 3 [] c = "data" -> 4 [] c = "trusted" -> 5
             [] c = "number" -> 6 [] c = "stringer" -> 7 [] c = "list" -> 8
Deciding(x) == CHOOSE c \in Classes(x) : \A d \in Classes(x) : Rank(c) <= Rank(d)
DeclSeq(xs) == IF xs = <<>> THEN <<>> ELSE Decl(Head(xs)) \o DeclSeq(Tail(xs))
Decl(x) ==
  IF Classes(x) = {} THEN <<>>
  ELSE LET c == Deciding(x) IN
       CASE c = "nilptr"   -> <<>>
         [] c = "time"     -> Raw(TimeText)
         [] c = "wrapper"  -> Decl(x.inner)
         [] c = "data"     -> (IF x.k = "str" THEN Esc(StrText) ELSE IF x.k = "bool" THEN Esc(<<"t", "r", "u", "e">>) ELSE Esc(StrText) \o Esc(<<"z">>))
         [] c = "trusted"  -> Raw(IF x.k = "html" THEN HtmlText ELSE ObjHtml)
         [] c = "number"   -> Raw(NumText(x))
         [] c = "stringer" -> Raw(ObjString)
         [] c = "list"     -> DeclSeq(x.xs)

Agree == Impl(v) = Decl(v)
\* what C01 says of it: text that stems from a string is an escaped piece, trusted text is never escaped
RECURSIVE DataLeaves(_), SeqLeaves(_)
SeqLeaves(xs) == IF xs = <<>> THEN 0 ELSE DataLeaves(Head(xs)) + SeqLeaves(Tail(xs))
DataLeaves(x) == IF IsNilPtr(x) THEN 0 ELSE IF Has(x, "Interface") THEN DataLeaves(x.inner)
                 ELSE IF x.k = "str" THEN 1 ELSE IF x.k = "strs" THEN 1 ELSE IF x.k = "anys" THEN SeqLeaves(x.xs) ELSE 0
EscCount(ps) == Cardinality({i \in 1..Len(ps) : ps[i].k = "esc" /\ ps[i].s = StrText})
DataEscaped == EscCount(Impl(v)) = DataLeaves(v) /\ \A i \in 1..Len(Impl(v)) : Impl(v)[i].s = StrText => Impl(v)[i].k = "esc"

Emit == ~EmitCases \/ PrintT("CASE " \o ToJson([gen |-> "WriteOf", v |-> v, pieces |-> Impl(v)]))
=============================================================================
