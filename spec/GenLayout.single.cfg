CONSTANTS
  Mode = "single"
SPECIFICATION Spec
INVARIANTS SameTokens Defined EmitCase
CHECK_DEADLOCK FALSE
