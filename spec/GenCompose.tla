----------------------------- MODULE GenCompose -----------------------------
(***************************************************************************)
(* Generator machine for C17: the same body rendered through every         *)
(* composition mechanism -- partial (plain, with data, nested, with one    *)
(* and two levels of layout, under an html / javascript content type with  *)
(* .js / .html / no extension), contentFor + contentOf (with data, used    *)
(* twice, undefined name with and without a default block, redefined),     *)
(* block helpers with the caller's and with their own context -- and       *)
(* INLINE, written directly in the equivalent scope.                       *)
(* Theorem (InlineTheorem): where the composition adds no escaping and no  *)
(* layout, composed and inlined program mean the same; the reference       *)
(* semantics gives the expected output in every case.                      *)
(***************************************************************************)
EXTENDS Unparse, Json

CONSTANT MaxItems

\* body items; the body sees d (data passed by the composition) and o (a variable of the caller)
ItemNames == {"text", "quote", "data", "outer", "loop", "cond", "trusted", "sub", "letd", "time", "nothing"}
Item(n) ==
  CASE n = "text"    -> <<Text(<<"t", "<", "i", ">">>)>>
    [] n = "quote"   -> <<Text(<<"QUOT", "APOS", "=", "NL">>)>>
    [] n = "data"    -> <<Text(<<"(">>), Emit(Id("d")), Text(<<")">>)>>
    [] n = "outer"   -> <<Emit(Id("o"))>>
    [] n = "loop"    -> <<Emit(For("", "v", Arr(<<IntL(1), IntL(2)>>), <<Emit(Id("v")), Emit(Id("d"))>>))>>
    [] n = "cond"    -> <<Emit(IfElse(Id("d"), <<Text(<<"y">>)>>, <<Text(<<"n">>)>>))>>
    [] n = "trusted" -> <<Emit(Call("raw", <<Str(<<"<", "b", ">">>)>>))>>
    [] n = "sub"     -> <<Text(<<"{">>), Emit(Call("partial", <<Str(<<"s", "u", "b">>), Hash(<<"d">>, <<Str(<<"s", "AMP">>)>>)>>)), Text(<<"}">>)>>
    [] n = "letd"    -> <<Let("d", Str(<<"l">>)), Emit(Id("d"))>>
    \* renders to nothing at all (a body made of such items is the empty string: layouts, escaping still apply)
    [] n = "nothing" -> <<Code(Bin("+", IntL(1), IntL(1))), Emit(For("", "v", Arr(<<>>), <<Text(<<"x">>)>>))>>
    \* a time.Time of the context: printed with the TIME_FORMAT visible where the output tag stands
    [] n = "time"    -> <<Text(<<"@">>), Emit(Id("tm"))>>
SubPart == <<Text(<<"s", ":">>), Emit(Id("d")), Emit(Id("o"))>>

Comps == {"cfor_omit", "partial", "partial_js", "partial_html", "partial_nodata", "layout", "layout2", "layout_js", "nested", "cfor", "cfor_twice", "cfor_redefined",
          "cof_default", "cof_undefined", "cof_defined_default", "blk", "blkown", "blks", "cfor_inloop", "layout_cfor",
          "layout_shared", "layout_sharedloop", "cfor_changed", "partial_nil", "cof_nil", "cfor_timefmt", "partial_timefmt", "blkown_timefmt", "cofdefault_timefmt",
          "partial_dotdir", "partial_dotdir_html", "reentrant_self", "reentrant_twin",
          "cof_default_twice", "cof_default_then_none", "partial_nildata"}
CTs == {"none", "html", "js"}
CT(c) == CASE c = "none" -> EmptyScope [] c = "html" -> [contentType |-> S(<<"t","e","x","t","/","h","t","m","l">>)]
           [] c = "js" -> [contentType |-> S(<<"a","p","p","/","j","a","v","a","s","c","r","i","p","t">>)]

D == Str(<<"D", "LT", "AMP">>)          \* the data value: a string with special characters
DH == Hash(<<"d">>, <<D>>)
TF == Str(<<"2", "0", "0", "6", "-", "0", "1", "-", "0", "2">>)          \* a TIME_FORMAT
DTF == Hash(<<"d", "TIME_FORMAT">>, <<D, TF>>)
Lay == <<Text(<<"[">>), Emit(Id("yield")), Text(<<"|">>), Emit(Id("o")), Text(<<"]">>)>>
Lay2 == <<Text(<<"{">>), Emit(Id("yield")), Text(<<"}">>)>>

\* [prog, parts, inline (an equivalent program without the mechanism, or <<>> if none is claimed)]
Compose(c, body) ==
  LET P(nm) == Str(nm) IN
  CASE c = "partial"      -> [prog |-> <<Emit(Call("partial", <<P(<<"p">>), DH>>))>>, parts |-> [p |-> body], inline |-> <<Emit(CallB("blkown", <<DH>>, body))>>]
    [] c = "partial_js"   -> [prog |-> <<Emit(Call("partial", <<P(<<"p", ".", "j", "s">>), DH>>))>>, parts |-> [x \in {"p.js"} |-> body], inline |-> <<Emit(CallB("blkown", <<DH>>, body))>>]
    [] c = "partial_html" -> [prog |-> <<Emit(Call("partial", <<P(<<"p", ".", "h", "t", "m", "l">>), DH>>))>>, parts |-> [x \in {"p.html"} |-> body], inline |-> <<>>]
    \* the directory of the partial has a dot: the extension is that of the file name alone
    [] c = "partial_dotdir" -> [prog |-> <<Emit(Call("partial", <<P(<<"v", ".", "1", "/", "p">>), DH>>))>>, parts |-> [x \in {"v.1/p"} |-> body], inline |-> <<Emit(CallB("blkown", <<DH>>, body))>>]
    [] c = "partial_dotdir_html" -> [prog |-> <<Emit(Call("partial", <<P(<<"v", ".", "1", "/", "p", ".", "h", "t", "m", "l">>), DH>>))>>, parts |-> [x \in {"v.1/p.html"} |-> body], inline |-> <<>>]
    \* a partial whose text is being executed includes the same text again (itself, or a partial with identical text): what follows the
    \* inner call still reads the OUTER call's data
    [] c \in {"reentrant_self", "reentrant_twin"} ->
         LET inner == IF c = "reentrant_self" THEN "p" ELSE "q"
             txt == <<Text(<<"(">>)>> \o body \o <<Emit(IfChain(Id("deep"), <<Emit(Call("partial", <<Str(<<inner>>), Hash(<<"d", "deep">>, <<Str(<<"i", "n">>), Bool(FALSE)>>)>>))>>, <<>>, <<>>, FALSE)),
                      Text(<<"|">>), Emit(Id("d")), Text(<<")">>)>> IN
         [prog |-> <<Emit(Call("partial", <<P(<<"p">>), Hash(<<"d", "deep">>, <<D, Bool(TRUE)>>)>>))>>, parts |-> [x \in {"p", inner} |-> txt], inline |-> <<>>]
    \* an undefined name used twice: every call renders ITS OWN default block (nothing is stored by the first); without one it is an error
    [] c = "cof_default_twice" -> [prog |-> <<Emit(CallB("contentOf", <<Str(<<"n">>), DH>>, <<Text(<<"A">>)>> \o body)), Text(<<"|">>),
                                             Emit(CallB("contentOf", <<Str(<<"n">>), Hash(<<"d">>, <<Str(<<"2">>)>>)>>, <<Text(<<"B">>), Emit(Id("d"))>>))>>, parts |-> EmptyScope,
                                   inline |-> <<Emit(CallB("blkown", <<DH>>, <<Text(<<"A">>)>> \o body)), Text(<<"|">>), Emit(CallB("blkown", <<Hash(<<"d">>, <<Str(<<"2">>)>>)>>, <<Text(<<"B">>), Emit(Id("d"))>>))>>]
    [] c = "cof_default_then_none" -> [prog |-> <<Emit(CallB("contentOf", <<Str(<<"n">>), DH>>, body)), Text(<<"|">>), Emit(Call("contentOf", <<Str(<<"n">>)>>))>>, parts |-> EmptyScope, inline |-> <<>>]
    \* nil in the place of the data: the partial still runs in a scope of its own (what it lets is gone afterwards)
    [] c = "partial_nildata" -> [prog |-> <<Let("d", D), Let("n", IntL(1)), Emit(Call("partial", <<P(<<"p">>), Id("nil")>>)), Text(<<"|">>), Emit(Id("n")), Emit(IfElse(Id("m"), <<Text(<<"L">>)>>, <<Text(<<"-">>)>>))>>,
                                 parts |-> [p |-> body \o <<Let("n", IntL(3)), Let("m", IntL(4)), Emit(Id("n"))>>], inline |-> <<>>]
    [] c = "partial_nodata" -> [prog |-> <<Let("d", D), Emit(Call("partial", <<P(<<"p">>)>>))>>, parts |-> [p |-> body], inline |-> <<Let("d", D), Emit(CallB("blkown", <<Hash(<<>>, <<>>)>>, body))>>]
    [] c = "layout"       -> [prog |-> <<Emit(Call("partial", <<P(<<"p">>), Hash(<<"d", "layout">>, <<D, Str(<<"l">>)>>)>>))>>, parts |-> [p |-> body, l |-> Lay], inline |-> <<>>]
    [] c = "layout2"      -> [prog |-> <<Emit(Call("partial", <<P(<<"p">>), Hash(<<"d", "layout">>, <<D, Str(<<"m">>)>>)>>))>>,
                              parts |-> [p |-> body, m |-> <<Text(<<"<">>), Emit(Call("partial", <<Str(<<"l">>), Hash(<<"yield">>, <<Id("yield")>>)>>)), Text(<<">">>)>>, l |-> Lay2], inline |-> <<>>]
    [] c = "layout_js"    -> [prog |-> <<Emit(Call("partial", <<P(<<"p", ".", "h", "t", "m", "l">>), Hash(<<"d", "layout">>, <<D, Str(<<"l", ".", "j", "s">>)>>)>>))>>,
                              parts |-> [x \in {"p.html", "l.js"} |-> IF x = "p.html" THEN body ELSE Lay], inline |-> <<>>]
    [] c = "nested"       -> [prog |-> <<Emit(Call("partial", <<P(<<"q">>), DH>>))>>,
                              parts |-> [q |-> <<Text(<<"q", "(">>), Emit(Call("partial", <<Str(<<"p">>), Hash(<<"d">>, <<Id("d")>>)>>)), Text(<<")">>)>>, p |-> body], inline |-> <<>>]
    [] c = "cfor"         -> [prog |-> <<Code(CallB("contentFor", <<Str(<<"c">>)>>, body)), Text(<<"|">>), Emit(Call("contentOf", <<Str(<<"c">>), DH>>))>>, parts |-> EmptyScope,
                              inline |-> <<Text(<<"|">>), Emit(CallB("blkown", <<DH>>, body))>>]
    [] c = "cfor_twice"   -> [prog |-> <<Code(CallB("contentFor", <<Str(<<"c">>)>>, body)), Emit(Call("contentOf", <<Str(<<"c">>), DH>>)), Text(<<"|">>), Emit(Call("contentOf", <<Str(<<"c">>), Hash(<<"d">>, <<Str(<<"2">>)>>)>>))>>, parts |-> EmptyScope,
                              inline |-> <<Emit(CallB("blkown", <<DH>>, body)), Text(<<"|">>), Emit(CallB("blkown", <<Hash(<<"d">>, <<Str(<<"2">>)>>)>>, body))>>]
    \* the stored block rendered with data and then again without: nothing of the first rendering may remain
    [] c = "cfor_omit"    -> [prog |-> <<Code(CallB("contentFor", <<Str(<<"c">>)>>, <<Emit(IfElse(Id("d"), <<Text(<<"y">>)>>, <<Text(<<"n">>)>>))>> \o body \o <<Let("k", IntL(1))>>)),
                                         Emit(Call("contentOf", <<Str(<<"c">>), Hash(<<"d", "e">>, <<D, IntL(1)>>)>>)), Text(<<"|">>),
                                         Let("d", Str(<<"t", "o", "p">>)), Emit(Call("contentOf", <<Str(<<"c">>)>>)), Emit(IfElse(Id("e"), <<Text(<<"L">>)>>, <<Text(<<"-">>)>>))>>, parts |-> EmptyScope,
                              inline |-> <<>>]
    \* the stored block rendered from inside a loop body, which goes on using its own loop variable afterwards
    [] c = "cfor_inloop"  -> [prog |-> <<Code(CallB("contentFor", <<Str(<<"c">>)>>, body)),
                                         Emit(For("", "w", Arr(<<IntL(7), IntL(8)>>), <<Emit(Call("contentOf", <<Str(<<"c">>), DH>>)), Text(<<":">>), Emit(Id("w")), Text(<<";">>)>>))>>, parts |-> EmptyScope,
                              inline |-> <<Emit(For("", "w", Arr(<<IntL(7), IntL(8)>>), <<Emit(CallB("blkown", <<DH>>, body)), Text(<<":">>), Emit(Id("w")), Text(<<";">>)>>))>>]
    \* the partial's body stores a block that the layout of the same call consumes
    [] c = "layout_cfor"  -> [prog |-> <<Emit(Call("partial", <<P(<<"p">>), Hash(<<"d", "layout">>, <<D, Str(<<"k">>)>>)>>))>>,
                              parts |-> [p |-> <<Code(CallB("contentFor", <<Str(<<"t">>)>>, body)), Text(<<"b">>)>>,
                                         k |-> <<Text(<<"<">>), Emit(Call("contentOf", <<Str(<<"t">>)>>)), Text(<<"|">>), Emit(Id("yield")), Text(<<">">>)>>], inline |-> <<>>]
    \* ONE options map with a layout, held in a variable, passed to two partial calls (siblings / iterations of a loop)
    [] c = "layout_shared" -> [prog |-> <<Let("opts", Hash(<<"d", "layout">>, <<D, Str(<<"l">>)>>)), Emit(Call("partial", <<P(<<"p">>), Id("opts")>>)), Text(<<"|">>), Emit(Call("partial", <<P(<<"p">>), Id("opts")>>))>>,
                              parts |-> [p |-> body, l |-> Lay], inline |-> <<>>]
    [] c = "layout_sharedloop" -> [prog |-> <<Let("opts", Hash(<<"d", "layout">>, <<D, Str(<<"l">>)>>)), Emit(For("", "w", Arr(<<IntL(7), IntL(8)>>), <<Emit(Call("partial", <<P(<<"p">>), Id("opts")>>)), Text(<<";">>)>>))>>,
                              parts |-> [p |-> body, l |-> Lay], inline |-> <<>>]
    \* the composition's data carries a TIME_FORMAT: output tags of the composed body print times with it
    [] c = "cfor_timefmt" -> [prog |-> <<Code(CallB("contentFor", <<Str(<<"c">>)>>, body)), Text(<<"|">>), Emit(Call("contentOf", <<Str(<<"c">>), DTF>>)), Emit(Id("tm"))>>, parts |-> EmptyScope,
                              inline |-> <<Text(<<"|">>), Emit(CallB("blkown", <<DTF>>, body)), Emit(Id("tm"))>>]
    [] c = "partial_timefmt" -> [prog |-> <<Emit(Call("partial", <<P(<<"p">>), DTF>>)), Emit(Id("tm"))>>, parts |-> [p |-> body], inline |-> <<Emit(CallB("blkown", <<DTF>>, body)), Emit(Id("tm"))>>]
    [] c = "blkown_timefmt" -> [prog |-> <<Emit(CallB("blkown", <<DTF>>, body)), Emit(Id("tm"))>>, parts |-> EmptyScope, inline |-> <<>>]
    [] c = "cofdefault_timefmt" -> [prog |-> <<Emit(CallB("contentOf", <<Str(<<"n">>), DTF>>, body)), Emit(Id("tm"))>>, parts |-> EmptyScope, inline |-> <<Emit(CallB("blkown", <<DTF>>, body)), Emit(Id("tm"))>>]
    \* the stored block emitted twice WITHOUT data, with what it reads changed in between: every emission renders afresh
    [] c = "cfor_changed" -> [prog |-> <<Code(CallB("contentFor", <<Str(<<"c">>)>>, body \o <<Emit(Id("o"))>>)), Let("d", D), Emit(Call("contentOf", <<Str(<<"c">>)>>)), Text(<<"|">>),
                                          Let("o", Str(<<"P">>)), Let("d", Str(<<"2">>)), Emit(Call("contentOf", <<Str(<<"c">>)>>)), Let("o", Str(<<"O", "APOS">>))>>, parts |-> EmptyScope,
                              inline |-> <<Let("d", D), Emit(CallB("blkown", <<Hash(<<>>, <<>>)>>, body \o <<Emit(Id("o"))>>)), Text(<<"|">>),
                                           Let("o", Str(<<"P">>)), Let("d", Str(<<"2">>)), Emit(CallB("blkown", <<Hash(<<>>, <<>>)>>, body \o <<Emit(Id("o"))>>)), Let("o", Str(<<"O", "APOS">>))>>]
    \* a data key bound to nil hides the caller's variable of that name
    [] c = "partial_nil"  -> [prog |-> <<Let("d", D), Emit(Call("partial", <<P(<<"p">>), Hash(<<"d">>, <<Id("nil")>>)>>))>>, parts |-> [p |-> body],
                              inline |-> <<Let("d", D), Emit(CallB("blkown", <<Hash(<<"d">>, <<Id("nil")>>)>>, body))>>]
    [] c = "cof_nil"      -> [prog |-> <<Let("d", D), Code(CallB("contentFor", <<Str(<<"c">>)>>, body)), Emit(Call("contentOf", <<Str(<<"c">>), Hash(<<"d">>, <<Id("nil")>>)>>))>>, parts |-> EmptyScope,
                              inline |-> <<Let("d", D), Emit(CallB("blkown", <<Hash(<<"d">>, <<Id("nil")>>)>>, body))>>]
    [] c = "cfor_redefined" -> [prog |-> <<Code(CallB("contentFor", <<Str(<<"c">>)>>, <<Text(<<"o", "l", "d">>)>>)), Code(CallB("contentFor", <<Str(<<"c">>)>>, body)), Emit(Call("contentOf", <<Str(<<"c">>), DH>>))>>, parts |-> EmptyScope,
                              inline |-> <<Emit(CallB("blkown", <<DH>>, body))>>]
    [] c = "cof_default"  -> [prog |-> <<Emit(CallB("contentOf", <<Str(<<"n">>), DH>>, body))>>, parts |-> EmptyScope, inline |-> <<Emit(CallB("blkown", <<DH>>, body))>>]
    [] c = "cof_undefined" -> [prog |-> <<Text(<<"x">>), Emit(Call("contentOf", <<Str(<<"n">>), DH>>))>>, parts |-> EmptyScope, inline |-> <<>>]
    [] c = "cof_defined_default" -> [prog |-> <<Code(CallB("contentFor", <<Str(<<"c">>)>>, body)), Emit(CallB("contentOf", <<Str(<<"c">>), DH>>, <<Text(<<"d", "e", "f">>)>>))>>, parts |-> EmptyScope,
                              inline |-> <<Emit(CallB("blkown", <<DH>>, body))>>]
    [] c = "blk"          -> [prog |-> <<Let("d", D), Emit(CallB("blk", <<>>, body))>>, parts |-> EmptyScope, inline |-> <<Let("d", D)>> \o body]
    [] c = "blkown"       -> [prog |-> <<Emit(CallB("blkown", <<DH>>, body))>>, parts |-> EmptyScope, inline |-> <<>>]
    [] c = "blks"         -> [prog |-> <<Let("d", D), Emit(CallB("blks", <<>>, body))>>, parts |-> EmptyScope, inline |-> <<>>]

\* tm: a time.Time (2024-03-05 10:30:00 UTC)
DataOf(c) == [k \in DOMAIN CT(c) \cup {"tm"} |-> IF k = "tm" THEN [t |-> "time"] ELSE CT(c)[k]]
VARIABLES comp, ct, names, res
vars == <<comp, ct, names, res>>
Body == Flat([i \in 1..Len(names) |-> Item(names[i])])
Pre == <<Let("o", Str(<<"O", "APOS">>)), Text(<<"^">>)>>
Post == <<Text(<<"$">>), Emit(Id("o"))>>
WithSub(parts) == [x \in DOMAIN parts \cup {"sub"} |-> IF x = "sub" THEN SubPart ELSE parts[x]]
Built == Compose(comp, Body)

Init == comp \in Comps /\ ct \in CTs /\ names = <<>> /\ res = [k |-> "none"]
AddItem == /\ res.k = "none" /\ Len(names) < MaxItems /\ \E n \in ItemNames : names' = Append(names, n)
           /\ UNCHANGED <<comp, ct, res>>
\* (a body may have no item at all: an empty block, an empty partial)
Finish == /\ res.k = "none"
          /\ res' = Run(Pre \o Built.prog \o Post, WithHelpers(DataOf(ct)), WithSub(Built.parts), "")
          /\ UNCHANGED <<comp, ct, names>>
Next == AddItem \/ Finish
Spec == Init /\ [][Next]_vars

\* composed = inline (where an inline equivalent is claimed and no javascript escaping is in play)
JsInPlay == ct = "js" /\ (comp \in {"partial_html", "layout_js", "partial_dotdir_html"} \/ \E i \in 1..Len(names) : names[i] = "sub")
HasInline == Built.inline # <<>> /\ ~(ct = "js" /\ \E i \in 1..Len(names) : names[i] = "sub")
InlineRes == Run(Pre \o Built.inline \o Post, WithHelpers(DataOf(ct)), WithSub(EmptyScope), "")
InlineTheorem == (res.k # "none" /\ HasInline) => (InlineRes.k = res.k /\ (res.k = "out" => PieceChars(InlineRes.pieces) = PieceChars(res.pieces)))
\* the caller's variable is unchanged afterwards and the scope stack is balanced
FrameTheorem == res.k = "out" => (res.depth = 1 /\ res.top["o"] = S(<<"O", "APOS">>))

Expect(r) == CASE r.k = "out" -> [k |-> "out", pieces |-> r.pieces, log |-> r.log]
               [] r.k = "err" -> [k |-> "err", w |-> r.w, log |-> r.log]
               [] OTHER       -> [k |-> "unspec"]
RECURSIVE JoinNames(_)
JoinNames(ns) == IF ns = <<>> THEN "" ELSE Head(ns) \o "," \o JoinNames(Tail(ns))
PartToks(parts) == [x \in DOMAIN parts |-> Unparse(parts[x])]

EmitOnce ==
            PrintT("CASE " \o ToJson([gen |-> "GenCompose",
                                       srcs |-> IF HasInline THEN [composed |-> Unparse(Pre \o Built.prog \o Post), inlined |-> Unparse(Pre \o Built.inline \o Post)]
                                                ELSE [composed |-> Unparse(Pre \o Built.prog \o Post)],
                                       data |-> DataOf(ct), parts |-> PartToks(WithSub(Built.parts)),
                                       shape |-> comp \o ":" \o ct \o ":" \o JoinNames(names), expect |-> Expect(res)]))
EmitTwice ==
            LET twice == Pre \o Built.prog \o <<Text(<<"/">>)>> \o Built.prog \o Post IN
               \* (in these cases tm is not Set on the context: the root is built around a context.Context that carries it,
               \*  plush.NewContextWithContext -- every scope of every mechanism must still see it)
               PrintT("CASE " \o ToJson([gen |-> "GenCompose", srcs |-> [twice |-> Unparse(twice)], wrapped |-> <<"tm">>,
                                       data |-> DataOf(ct), parts |-> PartToks(WithSub(Built.parts)),
                                       shape |-> comp \o ":" \o ct \o ":" \o JoinNames(names) \o ":twice",
                                       expect |-> Expect(Run(twice, WithHelpers(DataOf(ct)), WithSub(Built.parts), ""))]))
EmitCase == res.k = "none" \/ (EmitOnce /\ EmitTwice)
=============================================================================
