------------------------------ MODULE GroupBy ------------------------------
(***************************************************************************)
(* Layer B machine of groupBy (helpers/iterators/group_by.go and the copy  *)
(* in iterators.go: the two are the same algorithm, which the conformance  *)
(* step checks by calling both).  State = the loop variables of the        *)
(* constructor (pos, groups) and then the iterator position; one action    *)
(* per loop iteration / per call of Next().                                *)
(* Properties (C19): the groups are consecutive slices whose concatenation *)
(* is xs, there are at most n of them, all but the last have equal size;   *)
(* n <= 0 is an error; the iterator yields each group once and terminates. *)
(***************************************************************************)
EXTENDS Integers, Sequences, TLC, Json

CONSTANTS MaxLen, MaxN, EmitCases

VARIABLES len, n,            \* groupBy(n, xs) with Len(xs) = len; xs[i] = i
          phase,             \* "build" | "iterate" | "done" | "error"
          pos, groups,       \* constructor loop: next start index (0-based), groups as [lo, hi) pairs
          ipos, yielded      \* iterator position, groups yielded by Next()
vars == <<len, n, phase, pos, groups, ipos, yielded>>

GroupSize == IF len % n # 0 THEN (len \div n) + 1 ELSE len \div n

\* group counts next to the largest int: Big stands for math.MaxInt (the harness maps Big - k to MaxInt - k);
\* nothing in the algorithm may depend on n + something being representable
Big == 1000000
BigN == {Big - 2, Big - 1, Big}
Init == /\ len \in 0..MaxLen /\ n \in (-1..MaxN) \cup BigN
        /\ pos = 0 /\ groups = <<>> /\ ipos = 0 /\ yielded = <<>>
        /\ phase = IF n <= 0 THEN "error" ELSE "build"

\* the special case `if u.Len() == size` and the slicing loop
Build == /\ phase = "build"
         /\ IF len = n /\ groups = <<>> THEN groups' = <<[lo |-> 0, hi |-> len]>> /\ phase' = "iterate" /\ UNCHANGED pos
            ELSE IF pos < len
                 THEN LET e == IF pos + GroupSize > len THEN len ELSE pos + GroupSize IN
                      groups' = Append(groups, [lo |-> pos, hi |-> e]) /\ pos' = pos + GroupSize /\ UNCHANGED phase
                 ELSE phase' = "iterate" /\ UNCHANGED <<pos, groups>>
         /\ UNCHANGED <<len, n, ipos, yielded>>

NextCall == /\ phase = "iterate"
            /\ IF ipos >= Len(groups) THEN phase' = "done" /\ UNCHANGED <<ipos, yielded>>
               ELSE yielded' = Append(yielded, groups[ipos + 1]) /\ ipos' = ipos + 1 /\ UNCHANGED phase
            /\ UNCHANGED <<len, n, pos, groups>>

Next == Build \/ NextCall
Spec == Init /\ [][Next]_vars /\ WF_vars(Next)

\* ---- properties
Size(g) == g.hi - g.lo
Partition == phase \in {"iterate", "done"} =>
   /\ (len > 0 => groups # <<>> /\ groups[1].lo = 0 /\ groups[Len(groups)].hi = len)
   /\ (len = 0 => \A i \in 1..Len(groups) : Size(groups[i]) = 0)
   /\ \A i \in 1..(Len(groups) - 1) : groups[i].hi = groups[i + 1].lo            \* consecutive: concatenation = xs
   /\ Len(groups) <= n                                                            \* at most n groups
   /\ \A i \in 1..(Len(groups) - 1) : Size(groups[i]) = Size(groups[1])          \* all but the last of equal size
   /\ \A i \in 1..Len(groups) : (len > 0 => Size(groups[i]) > 0)
   /\ (Len(groups) > 0 => Size(groups[Len(groups)]) <= Size(groups[1]))
YieldsAll == phase = "done" => yielded = groups
ErrorIffBadN == (phase = "error") <=> (n <= 0)
Terminates == <>(phase \in {"done", "error"})
BuildProgress == phase = "build" => (pos = 0 \/ GroupSize > 0)                    \* the loop cannot spin

Emit == ~(EmitCases /\ phase \in {"done", "error"}) \/
        PrintT("CASE " \o ToJson([gen |-> "GroupBy", len |-> len, n |-> n, error |-> (phase = "error"),
                                   groups |-> [i \in 1..Len(groups) |-> <<groups[i].lo, groups[i].hi>>]]))
=============================================================================
