------------------------------ MODULE Unparse ------------------------------
(***************************************************************************)
(* AST -> concrete template text, as a sequence of token spellings.  The   *)
(* harness only concatenates the spellings (decoding character names), so  *)
(* the model and the harness cannot disagree about what the source is.     *)
(* Parentheses are printed only where the AST has a "par" node: the        *)
(* generators decide the parenthesisation.                                 *)
(***************************************************************************)
EXTENDS PlushSem

RECURSIVE EncDQ(_)
EncDQ(s) == IF s = <<>> THEN <<>> ELSE (IF Head(s) = "QUOT" THEN <<"BSL", "QUOT">> ELSE <<Head(s)>>) \o EncDQ(Tail(s))

RECURSIVE JoinWith(_, _)
JoinWith(ss, sep) == IF ss = <<>> THEN <<>> ELSE IF Len(ss) = 1 THEN Head(ss) ELSE Head(ss) \o sep \o JoinWith(Tail(ss), sep)

FloatLit(e) == LET f == F(e.num, e.exp) IN IF f.exp = 0 THEN PlainFloatChars(f) \o <<".", "0">> ELSE PlainFloatChars(f)

RECURSIVE UnE(_), UnS(_), UnB(_)

UnB(ss) == Flat([i \in 1..Len(ss) |-> UnS(ss[i])])

\* a block opened in a code tag: `{ %>` statements `<% }`
Block(ss) == <<" ", "{", " ", "%>">> \o UnB(ss) \o <<"<%", " ", "}">>

UnE(e) ==
  CASE e.t = "int"  -> IntChars(e.n)
    [] e.t = "flt"  -> FloatLit(e)
    [] e.t = "str"  -> IF e.q = "bq" THEN <<"BQ">> \o e.s \o <<"BQ">> ELSE <<"QUOT">> \o EncDQ(e.s) \o <<"QUOT">>
    [] e.t = "maxint" -> <<"9", "2", "2", "3", "3", "7", "2", "0", "3", "6", "8", "5", "4", "7", "7", "5", "8", "0", "7">>
    [] e.t = "bool" -> IF e.b THEN <<"true">> ELSE <<"false">>
    [] e.t = "id"   -> <<e.id>>
    [] e.t = "not"  -> <<"!">> \o UnE(e.e)
    [] e.t = "bin"  -> UnE(e.l) \o <<" ", e.op, " ">> \o UnE(e.r)
    [] e.t = "par"  -> <<"(">> \o UnE(e.e) \o <<")">>
    [] e.t = "arr"  -> <<"[">> \o JoinWith([i \in 1..Len(e.xs) |-> UnE(e.xs[i])], <<",", " ">>) \o <<"]">>
    [] e.t = "hash" -> <<"{">> \o JoinWith([i \in 1..Len(e.ks) |-> <<e.ks[i], ":", " ">> \o UnE(e.vs[i])], <<",", " ">>) \o <<"}">>
    [] e.t = "idx"  -> UnE(e.l) \o <<"[">> \o UnE(e.i) \o <<"]">>
    [] e.t = "dot"  -> UnE(e.l) \o <<".", e.n>>
    [] e.t = "mcall" -> UnE(e.l) \o <<".", e.n, "(", ")">>
    [] e.t = "call" -> <<e.f, "(">> \o JoinWith([i \in 1..Len(e.args) |-> UnE(e.args[i])], <<",", " ">>) \o <<")">>
                         \o (IF e.blk = NoBlock THEN <<>> ELSE Block(e.blk))
    [] e.t = "fn"   -> <<"fn", "(">> \o JoinWith([i \in 1..Len(e.ps) |-> <<e.ps[i]>>], <<",", " ">>) \o <<")">> \o Block(e.body)
    [] e.t = "assign" -> <<e.n, " ", "=", " ">> \o UnE(e.e)
    [] e.t = "idxassign" -> UnE(e.l) \o <<"[">> \o UnE(e.i) \o <<"]", " ", "=", " ">> \o UnE(e.e)
    [] e.t = "brk"  -> <<"break">>
    [] e.t = "cnt"  -> <<"continue">>
    [] e.t = "if"   -> <<"if", " ", "(">> \o UnE(e.c) \o <<")">> \o Block(e.th)
                         \o Flat([i \in 1..Len(e.eifs) |-> <<" ", "else", " ", "if", " ", "(">> \o UnE(e.eifs[i].c) \o <<")">> \o Block(e.eifs[i].b)])
                         \o (IF e.hasel THEN <<" ", "else">> \o Block(e.el) ELSE <<>>)
    [] e.t = "for"  -> <<"for", " ", "(">> \o (IF e.kn = "" THEN <<e.vn>> ELSE <<e.kn, ",", " ", e.vn>>) \o <<")", " ", "in", " ">>
                         \o UnE(e.it) \o Block(e.body)

UnS(s) ==
  CASE s.t = "text" -> s.s
    [] s.t = "etext" -> s.src
    [] s.t = "cmt"  -> <<"<%#", " ">> \o s.s \o <<" ", "%>">>
    [] s.t = "emit" -> <<"<%=", " ">> \o UnE(s.e) \o <<" ", "%>">>
    [] s.t = "code" -> <<"<%", " ">> \o UnE(s.e) \o <<" ", "%>">>
    [] s.t = "let"  -> <<"<%", " ", "let", " ", s.n, " ", "=", " ">> \o UnE(s.e) \o <<" ", "%>">>
    [] s.t = "letnl" -> <<"<%", "NL", "let", " ", s.n, " ", "=", "NL", " ", " ">> \o UnE(s.e) \o <<"NL", "%>">>
    [] s.t = "rawtag" -> s.toks
    [] s.t = "oktag" -> s.toks
    [] s.t = "ret"  -> <<"<%", " ", "return", " ">> \o UnE(s.e) \o <<" ", "%>">>

Unparse(prog) == UnB(prog)

\* ---- AST constructors shared by the generators
IntL(n)      == [t |-> "int", n |-> n]
MaxIntLit    == [t |-> "maxint"]           \* the literal 9223372036854775807 (beyond TLC's integers: the model reads it as 2^31 - 1)
Flt(n, e)   == [t |-> "flt", num |-> n, exp |-> e]
Str(s)      == [t |-> "str", q |-> "dq", s |-> s]
BStr(s)     == [t |-> "str", q |-> "bq", s |-> s]
Bool(b)     == [t |-> "bool", b |-> b]
Id(n)       == [t |-> "id", id |-> n]
Not(e)      == [t |-> "not", e |-> e]
Bin(op, l, r) == [t |-> "bin", op |-> op, l |-> l, r |-> r]
Par(e)      == [t |-> "par", e |-> e]
Arr(xs)     == [t |-> "arr", xs |-> xs]
Hash(ks, vs) == [t |-> "hash", ks |-> ks, vs |-> vs]
Idx(l, i)   == [t |-> "idx", l |-> l, i |-> i]
Dot(l, n)   == [t |-> "dot", l |-> l, n |-> n]
MCall(l, n) == [t |-> "mcall", l |-> l, n |-> n]
Call(f, args) == [t |-> "call", f |-> f, args |-> args, blk |-> NoBlock]
CallB(f, args, blk) == [t |-> "call", f |-> f, args |-> args, blk |-> blk]
FnLit(ps, body) == [t |-> "fn", ps |-> ps, body |-> body]
Assign(n, e) == [t |-> "assign", n |-> n, e |-> e]
IdxAssign(l, i, e) == [t |-> "idxassign", l |-> l, i |-> i, e |-> e]
Brk         == [t |-> "brk"]
Cnt         == [t |-> "cnt"]
If(c, th)   == [t |-> "if", c |-> c, th |-> th, eifs |-> <<>>, el |-> <<>>, hasel |-> FALSE]
IfElse(c, th, el) == [t |-> "if", c |-> c, th |-> th, eifs |-> <<>>, el |-> el, hasel |-> TRUE]
IfChain(c, th, eifs, el, hasel) == [t |-> "if", c |-> c, th |-> th, eifs |-> eifs, el |-> el, hasel |-> hasel]
For(kn, vn, it, body) == [t |-> "for", kn |-> kn, vn |-> vn, it |-> it, body |-> body]
Text(s)     == [t |-> "text", s |-> s]
EText(src, s) == [t |-> "etext", src |-> src, s |-> s]       \* text spelled src that means s (the two escapes of C02)
Emit(e)     == [t |-> "emit", e |-> e]
Code(e)     == [t |-> "code", e |-> e]
Let(n, e)   == [t |-> "let", n |-> n, e |-> e]
Ret(e)      == [t |-> "ret", e |-> e]
LetNL(n, e) == [t |-> "letnl", n |-> n, e |-> e]
RawTag(toks) == [t |-> "rawtag", toks |-> toks]
OkTag(toks) == [t |-> "oktag", toks |-> toks]      \* a well-formed silent tag given as tokens, binding only names nothing else mentions
Cmt(s)      == [t |-> "cmt", s |-> s]

\* the Go helpers the harness registers under these names (meanings: PlushSem.CallGo)
HelperData == [p |-> Go("p"), fail |-> Go("fail"), failc |-> Go("failc"), faili |-> Go("faili"), failrec |-> Go("failrec"), vcount |-> Go("vcount"), getx |-> Go("getx"), boldh |-> Go("boldh"), id |-> Go("id"), raw |-> Go("raw"), len |-> Go("len"),
               range |-> Go("range"), between |-> Go("between"), until |-> Go("until"),
               blk |-> Go("blk"), blks |-> Go("blks"), blkown |-> Go("blkown"), blktry |-> Go("blktry"),
               contentFor |-> Go("contentFor"), contentOf |-> Go("contentOf"), partial |-> Go("partial")]
WithHelpers(d) == [k \in DOMAIN HelperData \cup DOMAIN d |-> IF k \in DOMAIN d THEN d[k] ELSE HelperData[k]]
=============================================================================
