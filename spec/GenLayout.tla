------------------------------ MODULE GenLayout ------------------------------
(***************************************************************************)
(* Generator machine for C18: layout inside code tags is insignificant.    *)
(* A program is printed canonically (one statement per tag, one space      *)
(* between tokens) as a token list; a LAYOUT assigns to every separator    *)
(* position inside a tag one of {space, tab, newline, CR LF, two spaces,   *)
(* a # line comment, nothing (only next to a tag delimiter)}, to every     *)
(* boundary between two adjacent code tags one of {keep, merge with a      *)
(* newline, a semicolon or a space} -- which also places statements        *)
(* directly after an opening or a closing brace in the same tag -- and to  *)
(* every tag end whether a <%# %> comment tag follows it.                  *)
(* BFS explores every layout that differs from the canonical one in ONE    *)
(* position (exhaustive per position and alternative); -simulate draws     *)
(* random layouts that differ everywhere.  Expectation: the canonical      *)
(* program's meaning (reference semantics); the layout must not change it. *)
(***************************************************************************)
EXTENDS Unparse, Json, FiniteSets

CONSTANTS Mode      \* "single": at most one non-canonical position | "random": any

\* ---- the programs (all constructs; texts without spaces)
Progs == <<
  \* 1 let / assignment / arithmetic / output
  <<Let("x", IntL(1)), Code(Assign("x", Bin("+", Id("x"), IntL(2)))), Let("y", Bin("-", Bin("*", Id("x"), IntL(3)), IntL(4))), Text(<<"[">>), Emit(Id("y")), Text(<<"]">>)>>,
  \* 2 if / else if / else
  <<Let("n", IntL(2)), Emit(IfChain(Bin("==", Id("n"), IntL(1)), <<Text(<<"a">>)>>, <<[c |-> Bin("==", Id("n"), IntL(2)), b |-> <<Text(<<"b">>), Let("z", IntL(5)), Emit(Id("z"))>>]>>, <<Text(<<"c">>)>>, TRUE)), Text(<<"!">>)>>,
  \* 3 for with continue and break, a statement after the loop
  <<Emit(For("k", "v", Arr(<<IntL(1), IntL(2), IntL(3), IntL(4)>>), <<Code(If(Bin("==", Id("v"), IntL(2)), <<Code(Cnt)>>)), Code(If(Bin("==", Id("v"), IntL(4)), <<Code(Brk)>>)), Emit(Id("k")), Text(<<":">>), Emit(Id("v")), Text(<<",">>)>>)), Let("w", Str(<<"e","n","d">>)), Emit(Id("w"))>>,
  \* 4 function definitions and calls (two function literals: they stand on one line in most layouts)
  <<Let("f", FnLit(<<"a", "b">>, <<Code(If(Id("a"), <<Ret(Id("b"))>>)), Ret(Str(<<"n","o">>))>>)), Let("g", FnLit(<<"a">>, <<Ret(Bin("*", Id("a"), IntL(2)))>>)),
    Emit(Call("f", <<Bool(TRUE), Str(<<"y","e","s">>)>>)), Text(<<"|">>), Emit(Call("f", <<Bool(FALSE), IntL(1)>>)), Text(<<"|">>), Emit(Call("g", <<IntL(4)>>))>>,
  \* 5 hash / array / index
  <<Let("h", Hash(<<"a", "b">>, <<IntL(1), Arr(<<IntL(7), IntL(8)>>)>>)), Emit(Idx(Id("h"), Str(<<"a">>))), Emit(Idx(Idx(Id("h"), Str(<<"b">>)), IntL(1))), Let("q", Arr(<<Str(<<"s">>), Bool(TRUE)>>)), Emit(Idx(Id("q"), IntL(0)))>>,
  \* 6 block helper, silent loop with a statement after its closing brace, nested if in for
  <<Emit(CallB("blk", <<>>, <<Text(<<"<">>), Let("m", IntL(3)), Emit(Id("m")), Text(<<">">>)>>)), Code(For("", "v", Arr(<<IntL(1)>>), <<Let("u", Id("v"))>>)), Let("t", IntL(9)), Emit(Id("t"))>>,
  \* 7 nested loops and a loop in a function
  <<Emit(For("", "a", Arr(<<IntL(1), IntL(2)>>), <<Emit(For("", "b", Arr(<<IntL(3), IntL(4)>>), <<Emit(Id("a")), Emit(Id("b")), Text(<<";">>)>>)), Text(<<"/">>)>>)),
    Let("g", FnLit(<<>>, <<Emit(For("", "i", Call("range", <<IntL(1), IntL(2)>>), <<Emit(Id("i"))>>))>>)), Emit(Call("g", <<>>))>>,
  \* 8 logic, comparison, not, strings
  <<Let("s", Str(<<"a", "b">>)), Emit(Bin("&&", Bin("<", IntL(1), IntL(2)), Not(Par(Bin("==", Id("s"), Str(<<"x">>)))))), Text(<<"|">>), Emit(Bin("+", Id("s"), Str(<<"c">>))), Emit(Bin("||", Bool(FALSE), Id("nope")))>>,
  \* 9 contentFor / contentOf / partial with data
  <<Code(CallB("contentFor", <<Str(<<"c">>)>>, <<Text(<<"(">>), Emit(Id("d")), Text(<<")">>)>>)), Let("o", IntL(1)), Emit(Call("contentOf", <<Str(<<"c">>), Hash(<<"d">>, <<IntL(5)>>)>>)), Emit(Call("partial", <<Str(<<"p">>), Hash(<<"d">>, <<Id("o")>>)>>))>>,
  \* 10 silent if / else chains followed by statements; if / else inside loop and function bodies (closing braces meet)
  <<Let("c", Bool(FALSE)), Code(IfElse(Id("c"), <<Let("r", IntL(1))>>, <<Let("r", IntL(2))>>)), Let("u", IntL(10)), Emit(Id("u")), Emit(Id("r")),
    Emit(For("", "v", Arr(<<IntL(1), IntL(2)>>), <<Emit(IfElse(Bin("==", Id("v"), IntL(1)), <<Text(<<"o","n","e">>)>>, <<Text(<<"o","t","h","e","r">>)>>)), Code(IfChain(Bool(FALSE), <<Let("a", IntL(1))>>, <<[c |-> Bool(TRUE), b |-> <<Let("a", IntL(2))>>]>>, <<Let("a", IntL(3))>>, TRUE)), Emit(Id("a")), Text(<<",">>)>>)),
    Let("k", FnLit(<<"x">>, <<Code(IfElse(Id("x"), <<Let("m", IntL(7))>>, <<Let("m", IntL(8))>>)), Ret(Id("m"))>>)), Emit(Call("k", <<Bool(TRUE)>>)), Emit(Call("k", <<Bool(FALSE)>>))>>,
  \* 11 index / call / hash forms where white space may be inserted between adjacent tokens
  <<Let("xs", Arr(<<Str(<<"x">>), Str(<<"y">>), Str(<<"z">>)>>)), Emit(Idx(Id("xs"), IntL(1))), Let("h", Hash(<<"a">>, <<Arr(<<IntL(4), IntL(5)>>)>>)), Emit(Idx(Idx(Id("h"), Str(<<"a">>)), IntL(0))),
    Let("f", FnLit(<<"p", "q">>, <<Ret(Bin("+", Id("p"), Id("q")))>>)), Emit(Call("f", <<IntL(1), Call("len", <<Id("xs")>>)>>)), Emit(Call("f", <<Idx(Id("xs"), IntL(0)), Idx(Id("xs"), IntL(2))>>))>>,
  \* 12 member access after an index, with the member's name also used as a variable of its own (same line in the canonical layout)
  <<Let("Name", Dot(Idx(Id("team"), IntL(0)), "Name")), Emit(Id("Name")), Text(<<"|">>), Emit(Dot(Idx(Id("team"), IntL(1)), "Name")), Let("i", IntL(0)),
    Emit(Dot(Idx(Id("team"), Id("i")), "Name")), Emit(Id("Name")), Text(<<"|">>), Emit(Dot(Id("lead"), "Name")), Emit(Id("Name"))>>,
  \* 13 if chains whose LAST arm is an else-if (no else), followed by statements; in loop and function bodies; comparisons <= >=
  <<Let("n", IntL(5)), Let("t", IntL(0)), Code(IfChain(Bin("<=", Id("n"), IntL(1)), <<Code(Assign("t", IntL(1)))>>, <<[c |-> Bin(">=", Id("n"), IntL(5)), b |-> <<Code(Assign("t", IntL(2)))>>]>>, <<>>, FALSE)),
    Code(Assign("t", Bin("+", Id("t"), IntL(10)))), Emit(Id("t")),
    Emit(For("", "v", Arr(<<IntL(1), IntL(7)>>), <<Code(IfChain(Bin("<=", Id("v"), IntL(0)), <<Let("a", IntL(1))>>, <<[c |-> Bin(">=", Id("v"), IntL(7)), b |-> <<Let("a", IntL(2))>>], [c |-> Bin("<=", Id("v"), IntL(1)), b |-> <<Let("a", IntL(3))>>]>>, <<>>, FALSE)), Emit(Id("a")), Text(<<",">>)>>)),
    Let("k", FnLit(<<"x">>, <<Let("m", IntL(0)), Code(IfChain(Bin(">=", Id("x"), IntL(9)), <<Code(Assign("m", IntL(7)))>>, <<[c |-> Bin("<=", Id("x"), IntL(3)), b |-> <<Code(Assign("m", IntL(8)))>>]>>, <<>>, FALSE)), Ret(Id("m"))>>)),
    Emit(Call("k", <<IntL(9)>>)), Emit(Call("k", <<IntL(2)>>)), Emit(Call("k", <<IntL(5)>>))>>
>>
Data == [team |-> A(<<Rec([Name |-> S(<<"A", "n", "n">>)]), Rec([Name |-> S(<<"B", "o">>)])>>), lead |-> Rec([Name |-> S(<<"L">>)])]
Parts == [p |-> <<Text(<<"{">>), Emit(Id("d")), Text(<<"}">>)>>]

\* ---- layouts
\* cmt2: two line comments in a row (the second one on its own line); cmt3: an empty comment, CR LF ended, then an indented one
\* cmt4: a line comment whose text quotes template syntax, tag end included
SepAlts == {"sp", "tab", "nl", "crlf", "sp2", "cmt", "cmt2", "cmt3", "cmt4"}
GapAlts == {"none", "sp", "tab", "nl", "crlf", "cmt", "cmt2"}     \* white space inserted between two adjacent tokens
Punct == {"(", ")", "[", "]", ",", ":", "LBR", "RBR", "{", "}"}
EdgeAlts == SepAlts \cup {"none"}                      \* next to a tag delimiter the separator may vanish
\* ... and next to an operator (other than -, which glues to names and numbers)
OpTokens == {"+", "*", "/", "<", "<=", ">", ">=", "==", "!=", "~=", "&&", "||", "="}
\* ("cmt": both tags are kept and a <%# %> comment tag stands between them, e.g. directly before the tag that closes a block)
JoinAlts == {"keep", "nl", "semi", "sp", "cmt"}
Sep(a) == CASE a = "sp" -> <<" ">> [] a = "tab" -> <<"TAB">> [] a = "nl" -> <<"NL">> [] a = "crlf" -> <<"CR", "NL">> [] a = "sp2" -> <<" ", " ">>
            [] a = "cmt" -> <<" ", "HASH", " ", "n", "o", "t", "e", "NL">> [] a = "none" -> <<>>
            [] a = "cmt2" -> <<" ", "HASH", " ", "o", "n", "e", "NL", "HASH", "t", "w", "o", "NL">>
            [] a = "cmt4" -> <<" ", "HASH", " ", "w", "a", "s", ":", " ", "<%=", " ", "q", " ", "%>", " ", "z", "NL">>
            [] a = "cmt3" -> <<" ", "HASH", "CR", "NL", " ", " ", "HASH", " ", "x", " ", "=", " ", "1", "NL">>
Join(a) == CASE a = "nl" -> <<"NL">> [] a = "semi" -> <<";", " ">> [] a = "sp" -> <<" ">>
CommentTag == <<"<%#", " ", "c", " ", "%>">>

Openers == {"<%", "<%=", "<%#"}
\* for every token position: which kind of layout position it is
\*   "sep" a separator inside a tag, "edge" a separator next to a tag delimiter, "join" a %> directly followed by <% (both code
\*   tags), "end" any other %>, "" none
Kinds(ts) ==
  LET inside == [i \in 1..Len(ts) |-> \E j \in 1..i : ts[j] \in Openers /\ \A k \in (j+1)..i : ts[k] # "%>"]
      opener(i) == ts[CHOOSE j \in 1..i : ts[j] \in Openers /\ \A k \in (j+1)..i : ts[k] \notin Openers]
      \* inside a string literal: an odd number of quote tokens since the tag opened
      quotes(i) == Cardinality({j \in 1..i : ts[j] \in {"QUOT", "BQ"} /\ \A k \in j..i : ts[k] \notin Openers})
  IN [i \in 1..Len(ts) |->
        IF ts[i] = " " /\ inside[i] THEN (IF ts[i-1] \in Openers \/ (i < Len(ts) /\ ts[i+1] = "%>") THEN "edge"
                                         ELSE IF quotes(i) % 2 = 0 /\ (ts[i-1] \in OpTokens \/ (i < Len(ts) /\ ts[i+1] \in OpTokens)) THEN "opsep" ELSE "sep")
        \* (also the end of an OUTPUT tag directly followed by a code tag: the tag's further statements are silent ones)
        ELSE IF ts[i] = "%>" /\ i < Len(ts) /\ ts[i+1] = "<%" /\ opener(i) \in {"<%", "<%="} THEN "join"
        ELSE IF ts[i] = "%>" THEN "end"
        \* a gap: this token and the next one are adjacent (no separator), one of them is punctuation, not inside a string;
        \* the layout may put white space AFTER this token
        ELSE IF inside[i] /\ i < Len(ts) /\ ts[i] \notin ({" ", "NL"} \cup Openers) /\ ts[i+1] \notin {" ", "%>"} /\ (ts[i] \in Punct \/ ts[i+1] \in Punct)
                /\ ts[i] # "." /\ ts[i+1] # "."                     \* a dot belongs to the path it stands in
                /\ quotes(i) % 2 = 0 /\ opener(i) # "<%#" THEN "gap"
        \* ... except after the dot that continues a path behind an index or a call (x[i]. Name, f(). Name): white space may follow it
        ELSE IF inside[i] /\ i > 1 /\ i < Len(ts) /\ ts[i] = "." /\ ts[i-1] \in {"]", ")"} /\ quotes(i) % 2 = 0 /\ opener(i) # "<%#" THEN "gap"
        ELSE ""]

VARIABLES pi, lay, pos, done,     \* program index, layout chosen so far (function position -> alternative), next position
          Toks, KS, nchanged     \* canonical tokens and their position kinds (computed once), number of non-canonical choices
vars == <<pi, lay, pos, done, Toks, KS, nchanged>>
Canon(k) == CASE k = "sep" -> "sp" [] k = "opsep" -> "sp" [] k = "edge" -> "sp" [] k = "join" -> "keep" [] k = "end" -> "plain" [] k = "gap" -> "none" [] OTHER -> ""
AltsOf(k) == CASE k = "sep" -> SepAlts [] k = "opsep" -> EdgeAlts [] k = "edge" -> EdgeAlts [] k = "join" -> JoinAlts [] k = "end" -> {"plain", "comment"} [] k = "gap" -> GapAlts [] OTHER -> {""}
Changed == nchanged

Init == /\ pi \in 1..Len(Progs) /\ lay = <<>> /\ pos = 1 /\ done = FALSE /\ nchanged = 0
        /\ Toks = Unparse(Progs[pi]) /\ KS = Kinds(Unparse(Progs[pi]))
Choose == /\ ~done /\ pos <= Len(Toks)
          /\ \E a \in AltsOf(KS[pos]) :
                /\ (Mode = "single" => (a = Canon(KS[pos]) \/ Changed = 0))
                \* a semicolon ends a statement: it is not put directly after a brace
                /\ ((KS[pos] = "join" /\ a = "semi") => Toks[pos - 2] \notin {"{", "}", "LBR", "RBR"})
                /\ lay' = Append(lay, a)
                /\ nchanged' = IF a = Canon(KS[pos]) THEN nchanged ELSE nchanged + 1
          /\ pos' = pos + 1 /\ UNCHANGED <<pi, done, Toks, KS>>
Finish == ~done /\ pos > Len(Toks) /\ done' = TRUE /\ UNCHANGED <<pi, lay, pos, Toks, KS, nchanged>>
Spec == Init /\ [][Choose \/ Finish]_vars

\* ---- applying a layout to the canonical token list
RECURSIVE Apply(_, _, _, _)
Apply(ts, ks, l, i) ==
  IF i > Len(ts) THEN <<>>
  ELSE CASE ks[i] \in {"sep", "edge", "opsep"} -> Sep(l[i]) \o Apply(ts, ks, l, i + 1)
         [] ks[i] = "join" -> IF l[i] = "keep" THEN <<ts[i]>> \o Apply(ts, ks, l, i + 1)
                              ELSE IF l[i] = "cmt" THEN <<ts[i]>> \o CommentTag \o Apply(ts, ks, l, i + 1)
                              ELSE Join(l[i]) \o Apply(ts, ks, l, i + 3)          \* drops `%>`, `<%` and the space after it
         [] ks[i] = "end"  -> <<ts[i]>> \o (IF l[i] = "comment" THEN CommentTag ELSE <<>>) \o Apply(ts, ks, l, i + 1)
         [] ks[i] = "gap"  -> <<ts[i]>> \o Sep(l[i]) \o Apply(ts, ks, l, i + 1)
         [] OTHER -> <<ts[i]>> \o Apply(ts, ks, l, i + 1)
\* (a join position is followed by "<%" and " ": the merge separator replaces all of `" " %> <% " "`; the space before %> is a
\*  separate edge position that keeps its own choice)

Expect(r) == CASE r.k = "out" -> [k |-> "out", pieces |-> r.pieces, log |-> r.log]
               [] r.k = "err" -> [k |-> "err", w |-> r.w, log |-> r.log]
               [] OTHER       -> [k |-> "unspec"]
Res == Run(Progs[pi], WithHelpers(Data), Parts, "")
\* layout never touches anything but separators, tag boundaries and comment tags
RECURSIVE Strip(_)
Strip(ts) == IF ts = <<>> THEN <<>> ELSE
             (IF Head(ts) \in {" ", "TAB", "NL", "CR", ";", "%>", "<%"} THEN <<>> ELSE <<Head(ts)>>) \o Strip(Tail(ts))
\* a line comment is everything from # to the end of its line (the programs contain no # of their own)
RECURSIVE DropComments(_), ToEol(_)
ToEol(ts) == IF ts = <<>> \/ Head(ts) \in {"NL", "CR"} THEN ts ELSE ToEol(Tail(ts))
DropComments(ts) == IF ts = <<>> THEN <<>>
                    ELSE IF Head(ts) = "HASH" THEN DropComments(ToEol(ts))
                    ELSE IF Head(ts) = "<%#" THEN DropComments(SubSeq(ts, 5, Len(ts)))
                    ELSE <<Head(ts)>> \o DropComments(Tail(ts))
SameTokens == done => Strip(DropComments(Apply(Toks, KS, lay, 1))) = Strip(Toks)
Defined == done => Res.k = "out"

EmitCase == ~done \/ PrintT("CASE " \o ToJson([gen |-> "GenLayout", srcs |-> [canonical |-> Toks, layout |-> Apply(Toks, KS, lay, 1)],
                                                data |-> Data, parts |-> [x \in DOMAIN Parts |-> Unparse(Parts[x])],
                                                shape |-> "prog" \o ToString(pi) \o ":" \o ToString(Changed), expect |-> Expect(Res)]))
=============================================================================
