CONSTANTS
  MaxDepth = 3
SPECIFICATION Spec
INVARIANTS ScopeTheorem ProbeTheorem EmitCase
CHECK_DEADLOCK FALSE
