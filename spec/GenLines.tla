------------------------------ MODULE GenLines ------------------------------
(***************************************************************************)
(* Generator machine for C15: multi-line templates with exactly one        *)
(* failing statement.  PRE = a sequence of items that occupy lines (text   *)
(* with newlines and CR LF, tags, a tag spread over several lines, double- *)
(* and back-quoted strings containing newlines, a comment tag containing a *)
(* newline, a multi-line block, a loop); then the failing tag -- unknown   *)
(* identifier, failing helper, type error, index out of range, unknown     *)
(* function, division by zero, as output tag, silent tag or let; or one of *)
(* six kinds of syntax error -- placed at top level, inside an if / for /  *)
(* function / helper-block body, directly after a block, or inside a       *)
(* partial.  The expected line is DECLARATIVE: 1 + the number of newlines  *)
(* in the source before the tag that contains the failing statement.       *)
(* Theorem (ErrTheorem): the reference semantics reports an error for      *)
(* every such program; ShiftTheorem: prepending k newlines moves the line  *)
(* by exactly k.                                                           *)
(***************************************************************************)
EXTENDS Unparse, Json

CONSTANT MaxPre

NLT == Text(<<"NL">>)
ItemNames == {"text", "blank", "crlf", "tag", "mltag", "dqstr", "bqstr", "mlcmt", "emit", "block", "loop", "cmtline", "bslnl", "bslnlbq", "escnl", "escbslnl", "dotnum"}
Item(n) ==
  CASE n = "text"  -> <<Text(<<"a", "NL">>)>>
    [] n = "blank" -> <<Text(<<"NL", "NL">>)>>
    [] n = "crlf"  -> <<Text(<<"b", "CR", "NL">>)>>
    [] n = "tag"   -> <<Let("q", IntL(1)), NLT>>
    [] n = "mltag" -> <<LetNL("z", IntL(2)), NLT>>
    [] n = "dqstr" -> <<Let("s", Str(<<"x", "NL", "y", "NL">>)), Emit(IntL(3)), NLT>>
    [] n = "bqstr" -> <<Let("r", BStr(<<"NL", "w">>)), NLT>>
    \* a line break directly after a backslash inside a string (the backslash escapes nothing but a quote)
    [] n = "bslnl" -> <<Let("s", Str(<<"x", "BSL", "NL", "y">>)), NLT>>
    [] n = "bslnlbq" -> <<Let("r", BStr(<<"BSL", "NL", "BSL", "NL">>)), NLT>>
    \* literal text that shows plush code: an escaped tag opener directly followed by a line break; an escaped backslash before a live tag
    [] n = "escnl" -> <<EText(<<"BSL", "<", "PCT", "NL", "l", "e", "t", "NL", "PCT", ">", "NL">>, <<"<", "PCT", "NL", "l", "e", "t", "NL", "PCT", ">", "NL">>)>>
    [] n = "escbslnl" -> <<EText(<<"NL", "BSL", "BSL">>, <<"NL", "BSL">>), Emit(IntL(7)), NLT>>
    \* a tag over several lines with a number written with a leading dot directly before a line break
    [] n = "dotnum" -> <<OkTag(<<"<%", "NL", "let", " ", "h", "h", " ", "=", " ", ".", "5", "NL", "let", " ", "o", "o", " ", "=", " ", "1", "NL", "%>">>), NLT>>
    [] n = "mlcmt" -> <<Cmt(<<"c", "NL", "d">>), NLT>>
    [] n = "emit"  -> <<Emit(Str(<<"v">>)), Text(<<"NL">>)>>
    [] n = "block" -> <<Emit(If(Bool(TRUE), <<Text(<<"NL", "i", "NL">>), Emit(IntL(4)), NLT>>)), NLT>>
    [] n = "loop"  -> <<Emit(For("", "v", Arr(<<IntL(1), IntL(2)>>), <<Text(<<"NL">>), Emit(Id("v"))>>)), NLT>>
    [] n = "cmtline" -> <<Code(Bin("+", IntL(1), IntL(1))), NLT>>

\* the failing tag
Faults == {"unk", "failh", "type", "range", "nofunc", "div0", "silent_unk", "silent_failh", "let_unk", "assign_unk",
           "syn_operand", "syn_let", "syn_paren", "syn_overflow", "syn_call", "syn_for",
           \* the failing tag spreads over several lines (its statement starts on the tag's first line): the tag's FIRST line is named
           "ml_unk", "ml_str", "ml_range", "ml_failh", "ml_let", "ml_identnl", "ml_numnl", "ml_strfirst",
           \* one faulty statement whose syntax errors are reported on two lines (the first one leads)
           "syn_cascade",
           \* the input ends within an unterminated string of the failing tag: some line of the tag is named
           "eof_unk", "eof_div0", "eof_syn", "eof_arg", "eof_let",
           \* # line comments stand between the tag's opening and the failing statement (or between two statements
           \* of the tag): a line of the tag is named, and it is the SAME line as when the comments are blank lines
           "cm_unk", "cm_two", "cm_mid", "cm_syn", "cm_emit", "cm_fn", "cm_same",
           \* the failing statement starts on a LATER line of a silent tag than the tag itself (no comments involved): C15 names the
           \* line on which the tag begins
           "late_unk", "late_second"}
IsCm(f) == f \in {"cm_unk", "cm_two", "cm_mid", "cm_syn", "cm_emit", "cm_fn", "cm_same"}
IsSyntax(f) == f \in {"eof_arg", "eof_let", "syn_operand", "syn_let", "syn_paren", "syn_overflow", "syn_call", "syn_for", "eof_syn", "syn_cascade", "cm_syn"}
IsEof(f) == f \in {"eof_unk", "eof_div0", "eof_syn", "eof_arg", "eof_let"}
Fault(f) ==
  CASE f = "unk"    -> Emit(Id("nope"))
    [] f = "failh"  -> Emit(Call("fail", <<IntL(1)>>))
    [] f = "type"   -> Emit(Bin("+", IntL(1), Str(<<"a">>)))
    [] f = "range"  -> Emit(Idx(Arr(<<IntL(1)>>), IntL(5)))
    [] f = "nofunc" -> Emit(Call("nosuch", <<IntL(1)>>))
    [] f = "div0"   -> Emit(Bin("/", IntL(1), IntL(0)))
    [] f = "silent_unk"   -> Code(Bin("+", Id("nope"), IntL(1)))
    [] f = "silent_failh" -> Code(Call("fail", <<IntL(1)>>))
    [] f = "let_unk"      -> Let("l", Id("nope"))
    [] f = "assign_unk"   -> Code(Assign("nope", IntL(1)))
    [] f = "syn_operand"  -> RawTag(<<"<%=", " ", "1", " ", "+", " ", "%>">>)
    [] f = "syn_let"      -> RawTag(<<"<%", " ", "let", " ", "=", " ", "1", " ", "%>">>)
    [] f = "syn_paren"    -> RawTag(<<"<%=", " ", "(", "1", " ", "%>">>)
    [] f = "syn_overflow" -> RawTag(<<"<%=", " ", "9","9","9","9","9","9","9","9","9","9","9","9","9","9","9","9","9","9","9","9", " ", "%>">>)
    [] f = "syn_call"     -> RawTag(<<"<%=", " ", "f", "(", "1", ",", " ", "%>">>)
    [] f = "syn_for"      -> RawTag(<<"<%", " ", "for", " ", "(", "x", " ", "in", " ", "y", " ", "%>">>)
    [] f = "ml_unk"       -> RawTag(<<"<%=", " ", "1", " ", "+", "NL", "NL", " ", "nope", " ", "%>">>)
    [] f = "ml_str"       -> RawTag(<<"<%=", " ", "QUOT", "a", "NL", "b", "QUOT", " ", "+", " ", "nope", "NL", "%>">>)
    [] f = "ml_range"     -> RawTag(<<"<%=", " ", "[", "1", ",", "NL", " ", "2", "]", "[", "5", "]", " ", "%>">>)
    [] f = "ml_failh"     -> RawTag(<<"<%=", " ", "fail", "(", "NL", "1", "NL", ")", " ", "%>">>)
    [] f = "ml_let"       -> RawTag(<<"<%", " ", "let", " ", "l", " ", "=", "CR", "NL", " ", "nope", " ", "%>">>)
    [] f = "ml_identnl"   -> RawTag(<<"<%", " ", "nope", "NL", "%>">>)                       \* the statement's first token is directly followed by a newline
    [] f = "ml_numnl"     -> RawTag(<<"<%", " ", "1", "NL", "/", " ", "0", " ", "%>">>)
    [] f = "ml_strfirst"  -> RawTag(<<"<%", " ", "QUOT", "a", "NL", "b", "QUOT", " ", "+", " ", "nope", " ", "%>">>)
    [] f = "syn_cascade"  -> RawTag(<<"<%", " ", "if", " ", "(", "x", " ", "==", " ", ")", " ", "{", " ", "%>", "NL", "a", "NL", "NL", "NL",
                                     "<%", " ", "}", " ", "else", " ", "{", " ", "%>", "b", "<%", " ", "}", " ", "%>">>)
    [] f = "late_unk"     -> RawTag(<<"<%", "NL", " ", "nope", " ", "+", " ", "1", " ", "%>">>)
    [] f = "late_second"  -> RawTag(<<"<%", " ", "let", " ", "l", " ", "=", " ", "1", "NL", "l", " ", "/", " ", "0", " ", "%>">>)
    [] f = "cm_unk"       -> RawTag(<<"<%", "NL", "HASH", " ", "c", "NL", "nope", " ", "+", " ", "1", " ", "%>">>)
    [] f = "cm_two"       -> RawTag(<<"<%", " ", "HASH", "c", "NL", " ", "HASH", " ", "d", " ", "e", "NL", "let", " ", "l", " ", "=", " ", "nope", " ", "%>">>)
    [] f = "cm_mid"       -> RawTag(<<"<%", " ", "let", " ", "l", " ", "=", " ", "1", "NL", "HASH", " ", "c", "NL", "l", " ", "/", " ", "0", " ", "%>">>)
    [] f = "cm_syn"       -> RawTag(<<"<%", "NL", "HASH", " ", "c", "NL", "HASH", " ", "d", "NL", "1", " ", "+", " ", ")", " ", "%>">>)
    [] f = "cm_emit"      -> RawTag(<<"<%=", "NL", "HASH", " ", "c", "NL", "nope", " ", "%>">>)
    [] f = "cm_fn"        -> RawTag(<<"<%", " ", "let", " ", "cf", " ", "=", " ", "fn", "(", ")", " ", "{", "NL", "HASH", " ", "c", "NL", "return", " ", "nope", " ", "+", " ", "1", "NL", "}", " ", "%>",
                                     "NL", "<%=", " ", "cf", "(", ")", " ", "%>">>)
    [] f = "cm_same"      -> RawTag(<<"<%", " ", "let", " ", "l", " ", "=", " ", "1", " ", "HASH", " ", "c", "NL", "l", " ", "/", " ", "0", " ", "%>">>)
    [] f = "eof_unk"      -> RawTag(<<"<%=", " ", "nope", " ", "+", " ", "QUOT", "a", "NL", "b">>)
    [] f = "eof_div0"     -> RawTag(<<"<%=", " ", "1", "/", "0", " ", "+", " ", "BQ", "a", "NL", "b">>)
    \* the input ends where an operand is still expected
    [] f = "eof_arg"      -> RawTag(<<"<%=", " ", "nosuch", "(", "1", ",", " ">>)
    [] f = "eof_let"      -> RawTag(<<"<%", " ", "let", " ", "t", " ", "=", " ">>)
    [] f = "eof_syn"      -> RawTag(<<"<%=", " ", "nosuch", "(", "QUOT", "a", "NL", "b">>)

Places == {"top", "if", "else", "for", "for2", "fn", "blk", "afterblock", "aftermlblock", "afterfor", "partial", "aftercall", "aftercontentof", "afterpartial",
           "afterretcall", "afterbrkcall", "topend", "blkinif", "blkinfn"}
\* placements in which the fault is the right operand of + after a call that executed statements on other lines
\* (afterretcall / afterbrkcall: the called function is left through an explicit return / its loop through a break)
ExprPlaces == {"aftercall", "aftercontentof", "afterpartial", "afterretcall", "afterbrkcall"}
CountNL(ts) == Cardinality({i \in 1..Len(ts) : ts[i] = "NL"})
NLs(k) == [i \in 1..k |-> "NL"]
RetFn == <<Let("g", FnLit(<<>>, <<Text(<<"NL">>), Code(If(Bool(TRUE), <<Text(<<"NL">>), Ret(IntL(1))>>)), Text(<<"NL">>), Ret(IntL(2))>>)), Text(<<"NL", "NL">>)>>
BrkFn == <<Let("g", FnLit(<<>>, <<Text(<<"NL">>), Emit(For("", "v", Arr(<<IntL(1), IntL(2)>>), <<Text(<<"NL">>), Emit(Id("v")), Code(Brk)>>)), Text(<<"NL">>), Ret(IntL(2))>>)), Text(<<"NL">>)>>
ExprFaults == {"unk", "failh", "type", "range", "nofunc", "div0"}
\* [before: statements before the failing tag's line (inside the construct), prog: the whole construct given the failing tag F]
\* line of the failing tag = 1 + newlines in Unparse(pre) + newlines in `lead`
Placed(pl, FT) ==
  CASE pl = "top"    -> [lead |-> <<>>, rest |-> <<FT, Text(<<"NL", "z">>)>>, parts |-> EmptyScope]
    [] pl = "topend" -> [lead |-> <<>>, rest |-> <<FT>>, parts |-> EmptyScope]           \* the failing tag is the last thing in the input
    [] pl = "if"     -> [lead |-> <<"<%=", " ", "if", " ", "(", "true", ")", " ", "{", " ", "%>", "i", "NL">>,
                         rest |-> <<Emit(If(Bool(TRUE), <<Text(<<"i", "NL">>), FT, Text(<<"NL">>)>>))>>, parts |-> EmptyScope]
    [] pl = "else"   -> [lead |-> <<"NL", "NL">>,
                         rest |-> <<Emit(IfElse(Bool(FALSE), <<Text(<<"NL">>)>>, <<Text(<<"NL">>), FT>>))>>, parts |-> EmptyScope]
    [] pl = "for"    -> [lead |-> <<"NL", "NL">>,
                         rest |-> <<Emit(For("", "v", Arr(<<IntL(1)>>), <<Text(<<"NL", "NL">>), FT>>))>>, parts |-> EmptyScope]
    [] pl = "for2"   -> [lead |-> <<"NL">>,    \* fails only in the second iteration
                         rest |-> <<Emit(For("", "v", Arr(<<IntL(1), IntL(2)>>), <<Text(<<"NL">>), Code(If(Bin("==", Id("v"), IntL(2)), <<FT>>)), Text(<<"NL">>)>>))>>, parts |-> EmptyScope]
    [] pl = "fn"     -> [lead |-> <<"NL">>,
                         rest |-> <<Let("g", FnLit(<<>>, <<Text(<<"NL">>), FT, Text(<<"NL">>)>>)), Text(<<"NL", "NL">>), Emit(Call("g", <<>>))>>, parts |-> EmptyScope]
    [] pl = "blk"    -> [lead |-> <<"NL">>,
                         rest |-> <<Emit(CallB("blk", <<>>, <<Text(<<"NL">>), FT>>))>>, parts |-> EmptyScope]
    \* the helper call with the block is itself nested in an if body / a function body
    [] pl = "blkinif" -> [lead |-> <<"NL", "NL">>,
                         rest |-> <<Emit(If(Bool(TRUE), <<Text(<<"NL">>), Emit(CallB("blk", <<>>, <<Text(<<"NL">>), FT>>)), Text(<<"NL">>)>>))>>, parts |-> EmptyScope]
    [] pl = "blkinfn" -> [lead |-> <<"NL", "NL">>,
                         rest |-> <<Let("g", FnLit(<<>>, <<Text(<<"NL">>), Emit(CallB("blk", <<>>, <<Text(<<"NL">>), FT>>)), Text(<<"NL">>)>>)), Text(<<"NL", "NL">>), Emit(Call("g", <<>>))>>, parts |-> EmptyScope]
    [] pl = "afterblock" -> [lead |-> <<"NL">>,
                         rest |-> <<Emit(If(Bool(TRUE), <<Text(<<"x">>), Emit(IntL(1))>>)), Text(<<"NL">>), FT>>, parts |-> EmptyScope]
    [] pl = "aftermlblock" -> [lead |-> <<"NL", "NL", "NL">>,
                         rest |-> <<Emit(If(Bool(TRUE), <<Text(<<"NL">>), Emit(IntL(1)), Text(<<"NL">>)>>)), Text(<<"NL">>), FT>>, parts |-> EmptyScope]
    [] pl = "afterfor" -> [lead |-> <<"NL", "NL">>,
                         rest |-> <<Emit(For("", "v", Arr(<<IntL(1)>>), <<Text(<<"NL">>), Emit(Id("v"))>>)), Text(<<"NL">>), FT>>, parts |-> EmptyScope]
    [] pl = "aftercall" -> [lead |-> <<"NL", "NL", "NL", "NL">>,   \* a multi-line function, called in the failing tag before the fault
                         rest |-> <<Let("g", FnLit(<<>>, <<Text(<<"NL">>), Emit(IntL(1)), Text(<<"NL">>)>>)), Text(<<"NL", "NL">>), Emit(Bin("+", Call("g", <<>>), FT.e))>>, parts |-> EmptyScope]
    [] pl = "aftercontentof" -> [lead |-> <<"NL", "NL", "NL">>,
                         rest |-> <<Code(CallB("contentFor", <<Str(<<"c">>)>>, <<Text(<<"NL">>), Emit(IntL(2)), Text(<<"NL">>)>>)), Text(<<"NL">>), Emit(Bin("+", Call("contentOf", <<Str(<<"c">>)>>), FT.e))>>, parts |-> EmptyScope]
    [] pl = "afterretcall" -> [lead |-> NLs(CountNL(Unparse(RetFn))), rest |-> RetFn \o <<Emit(Bin("+", Call("g", <<>>), FT.e))>>, parts |-> EmptyScope]
    [] pl = "afterbrkcall" -> [lead |-> NLs(CountNL(Unparse(BrkFn))), rest |-> BrkFn \o <<Emit(Bin("+", Call("g", <<>>), FT.e))>>, parts |-> EmptyScope]
    [] pl = "afterpartial" -> [lead |-> <<"NL">>,
                         rest |-> <<Text(<<"NL">>), Emit(Bin("+", Call("partial", <<Str(<<"p">>)>>), FT.e))>>, parts |-> [p |-> <<Text(<<"NL", "NL">>), Emit(IntL(3)), Text(<<"NL">>)>>]]
    [] pl = "partial" -> [lead |-> <<>>,      \* the failing statement is in the partial; the outer error names the tag that calls it
                         rest |-> <<Emit(Call("partial", <<Str(<<"p">>)>>)), Text(<<"NL">>)>>, parts |-> [p |-> <<Text(<<"NL">>), FT>>]]

VARIABLES pre, fault, place, stage
vars == <<pre, fault, place, stage>>
Init == pre = <<>> /\ fault = "none" /\ place = "none" /\ stage = "pre"
AddItem == stage = "pre" /\ Len(pre) < MaxPre /\ \E n \in ItemNames : pre' = Append(pre, n) /\ UNCHANGED <<fault, place, stage>>
Pick == /\ stage = "pre" /\ \E f \in Faults, pl \in Places :
              /\ (IsSyntax(f) /\ pl = "partial" => FALSE)       \* (a partial with a syntax error: inner parse error, kept out)
              /\ (pl \in ExprPlaces => f \in ExprFaults)
              /\ ((IsEof(f) /\ f \notin {"eof_arg", "eof_let"}) \/ f = "syn_cascade" \/ f = "cm_fn" => pl = "top")
              /\ (f \in {"eof_arg", "eof_let"} <=> pl = "topend")
              /\ (IsCm(f) => pl \in {"top", "if", "for", "fn", "blk", "afterblock"})                        \* everything after it is swallowed by the string
              /\ fault' = f /\ place' = pl
        /\ stage' = "done" /\ UNCHANGED pre
Spec == Init /\ [][AddItem \/ Pick]_vars

PreStmts == Flat([i \in 1..Len(pre) |-> Item(pre[i])])
P == Placed(place, Fault(fault))
Prog == PreStmts \o P.rest
Line == 1 + CountNL(Unparse(PreStmts)) + CountNL(P.lead)
\* the last line of the failing tag when the input ends inside it
MaxLine == IF IsEof(fault) THEN 1 + CountNL(Unparse(Prog))
           ELSE IF IsCm(fault) THEN Line + CountNL(Fault(fault).toks)
           ELSE Line
\* the same source with the text of every # comment removed (the line breaks stay)
RECURSIVE StripComments(_, _)
StripComments(ts, inc) == IF ts = <<>> THEN <<>>
                          ELSE IF Head(ts) = "NL" THEN <<"NL">> \o StripComments(Tail(ts), FALSE)
                          ELSE IF inc \/ Head(ts) = "HASH" THEN StripComments(Tail(ts), TRUE)
                          ELSE <<Head(ts)>> \o StripComments(Tail(ts), FALSE)
Res == Run(Prog, WithHelpers(EmptyScope), P.parts, "")

ErrTheorem == stage = "done" => Res.k = "err"
\* prepending k newlines of literal text moves the tag down by exactly k lines
Shifted(k) == <<Text([i \in 1..k |-> "NL"])>> \o Prog
ShiftTheorem == stage = "done" =>
   \A k \in {1, 3} : 1 + CountNL(Unparse(<<Text([i \in 1..k |-> "NL"])>> \o PreStmts)) + CountNL(P.lead) = Line + k

RECURSIVE JoinNames(_)
JoinNames(ns) == IF ns = <<>> THEN "" ELSE Head(ns) \o "," \o JoinNames(Tail(ns))
EmitCase == stage # "done" \/
            PrintT("CASE " \o ToJson([gen |-> "GenLines", src |-> Unparse(Prog), twin |-> IF IsCm(fault) THEN StripComments(Unparse(Prog), FALSE) ELSE <<>>, parts |-> [x \in DOMAIN P.parts |-> Unparse(P.parts[x])],
                                       line |-> Line, maxline |-> MaxLine, fault |-> fault, place |-> place, wraps |-> (fault \in {"failh", "silent_failh", "ml_failh"}),
                                       shape |-> fault \o ":" \o place \o ":" \o JoinNames(pre)]))
=============================================================================
