CONSTANTS
  MaxN = 3
SPECIFICATION Spec
INVARIANTS KindTheorem ChainTheorem EmitCase
CHECK_DEADLOCK FALSE
