CONSTANTS
  MaxN = 3
SPECIFICATION Spec
INVARIANTS KindTheorem ChainTheorem FailChainTheorem EmptyChainTheorem NestedTheorem UnkChainTheorem EmitCase
CHECK_DEADLOCK FALSE
