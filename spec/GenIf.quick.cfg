CONSTANTS
  MaxN = 3
SPECIFICATION Spec
INVARIANTS KindTheorem ChainTheorem FailChainTheorem EmitCase
CHECK_DEADLOCK FALSE
