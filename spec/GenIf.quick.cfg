CONSTANTS
  MaxN = 3
SPECIFICATION Spec
INVARIANTS KindTheorem ChainTheorem FailChainTheorem EmptyChainTheorem NestedTheorem EmitCase
CHECK_DEADLOCK FALSE
