CONSTANTS
  MaxLen = 3
SPECIFICATION Spec
INVARIANTS UnrollTheorem KindTheorem EmitCase
CHECK_DEADLOCK FALSE
