CONSTANTS
  Texts <- TraceTexts
  BadTexts <- TraceBad
  TraceFile = "cachetrace.ndjson"
SPECIFICATION TraceSpec
INVARIANT OwnText
POSTCONDITION TraceAccepted
CHECK_DEADLOCK FALSE
