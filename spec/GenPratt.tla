------------------------------ MODULE GenPratt ------------------------------
(***************************************************************************)
(* Generator machine binding the parser machine Pratt.tla to the           *)
(* documented grammar (C06) and to parser/parser.go.                       *)
(*                                                                         *)
(* Family "tree": expression trees over variables, literals, !, the 13     *)
(* binary operators, index, call and array literal, built by hole          *)
(* expansion.  Each closed tree is PRINTED by the documented precedence    *)
(* rules (minimal / redundant-left / full parentheses), the token string   *)
(* is PARSED by the machine, and                                           *)
(*    PrattAgree : machine(print(t)) = t    in all three printings         *)
(* is a TLC invariant: the Pratt loop with precedences.go implements the   *)
(* documented precedence order and left associativity.  The tree is also   *)
(* evaluated by the reference semantics under several valuations of its    *)
(* variables; the real plush must render that value from the printed       *)
(* source, and the real parser must build the machine's tree.              *)
(*                                                                         *)
(* Family "word": every token word up to WordLen over the vocabulary; the  *)
(* machine's verdict (tree or syntax error) is compared with the real      *)
(* parser's, and for accepted words                                        *)
(*    Reprint : machine(print(machine(w))) = machine(w),  and w and the    *)
(*              print differ only in parentheses                           *)
(* (what the machine accepts means what the documented grammar says).      *)
(***************************************************************************)
EXTENDS Pratt, Json

CONSTANTS MaxOps,      \* composite nodes per tree
          Pool,        \* "small" | "full"
          MinSize,     \* simulation bias: no leaf while the tree has fewer composite nodes
          Family,      \* "tree" | "word"
          WordLen

Hole == [t |-> "hole"]

AtomsSmall == { Id("a"), Id("b"), IntL(1), Id("xs") }
AtomsFull  == AtomsSmall \cup { Id("c"), IntL(2), Bool(TRUE), Id("nil") }
Atoms == IF Pool = "small" THEN AtomsSmall ELSE AtomsFull

\* valuations of the variables (f is the identity helper `id`)
Vals == <<
  [a |-> I(7),     b |-> I(2),     c |-> I(3),      xs |-> A(<<I(4), I(9), I(25)>>)],
  [a |-> S(<<"x">>), b |-> I(1),   c |-> S(<<"y">>), xs |-> A(<<S(<<"p">>), S(<<"q">>), S(<<"r">>)>>)],
  [a |-> F(3, 1),  b |-> F(1, 2),  c |-> F(5, 0),   xs |-> A(<<F(1, 1), F(9, 2), F(2, 0)>>)],
  [a |-> B(TRUE),  b |-> B(FALSE), c |-> S(<<>>),   xs |-> A(<<B(FALSE), B(TRUE), I(0)>>)] >>

\* documented precedence:  ! > * / > + - > < <= > >= > == != ~= > && ||   (index and call bind tighter than !)
Prec(op) == CASE op \in {"*", "/"} -> 5 [] op \in {"+", "-"} -> 4 [] op \in {"<", "<=", ">", ">="} -> 3
              [] op \in {"==", "!=", "~="} -> 2 [] op \in {"&&", "||"} -> 1

Compound == {"bin", "not", "idx", "call", "arr"}

RECURSIVE HasHole(_), Fill(_, _), NOps(_), Pr(_, _), Canon(_)
SeqHasHole(xs) == \E i \in 1..Len(xs) : HasHole(xs[i])
HasHole(e) == CASE e.t = "hole" -> TRUE
                [] e.t = "bin"  -> HasHole(e.l) \/ HasHole(e.r)
                [] e.t = "not"  -> HasHole(e.e)
                [] e.t = "idx"  -> HasHole(e.l) \/ HasHole(e.i)
                [] e.t = "call" -> SeqHasHole(e.args)
                [] e.t = "arr"  -> SeqHasHole(e.xs)
                [] OTHER -> FALSE
SeqNOps(xs) == IF xs = <<>> THEN 0 ELSE NOps(Head(xs)) + (IF Len(xs) > 1 THEN NOps(xs[2]) ELSE 0)
NOps(e) == CASE e.t = "bin"  -> 1 + NOps(e.l) + NOps(e.r)
             [] e.t = "not"  -> 1 + NOps(e.e)
             [] e.t = "idx"  -> 1 + NOps(e.l) + NOps(e.i)
             [] e.t = "call" -> 1 + SeqNOps(e.args)
             [] e.t = "arr"  -> 1 + SeqNOps(e.xs)
             [] OTHER -> 0
FillSeq(xs, r) == LET k == CHOOSE i \in 1..Len(xs) : HasHole(xs[i]) /\ \A j \in 1..(i - 1) : ~HasHole(xs[j])
                  IN [xs EXCEPT ![k] = Fill(xs[k], r)]
\* replace the leftmost hole by r
Fill(e, r) == CASE e.t = "hole" -> r
                [] e.t = "bin"  -> IF HasHole(e.l) THEN [e EXCEPT !.l = Fill(e.l, r)] ELSE [e EXCEPT !.r = Fill(e.r, r)]
                [] e.t = "not"  -> [e EXCEPT !.e = Fill(e.e, r)]
                [] e.t = "idx"  -> IF HasHole(e.l) THEN [e EXCEPT !.l = Fill(e.l, r)] ELSE [e EXCEPT !.i = Fill(e.i, r)]
                [] e.t = "call" -> [e EXCEPT !.args = FillSeq(e.args, r)]
                [] e.t = "arr"  -> [e EXCEPT !.xs = FillSeq(e.xs, r)]
                [] OTHER -> e

\* ---- printing by the documented grammar, as a token word
Wrap(ts) == <<"(">> \o ts \o <<")">>
PrW(e, mode, need) == IF need \/ (mode = "full" /\ e.t \in Compound) THEN Wrap(Pr(e, mode)) ELSE Pr(e, mode)
PrList(xs, mode) == JoinWith([i \in 1..Len(xs) |-> PrW(xs[i], mode, FALSE)], <<",">>)
Pr(e, mode) ==
  CASE e.t = "bin" ->
         PrW(e.l, mode, e.l.t = "bin" /\ (mode = "alt" \/ Prec(e.l.op) < Prec(e.op)))
           \o <<e.op>> \o
         PrW(e.r, mode, e.r.t = "bin" /\ Prec(e.r.op) <= Prec(e.op))
    [] e.t = "not"  -> <<"!">> \o PrW(e.e, mode, e.e.t = "bin")
    [] e.t = "neg"  -> <<"-">> \o PrW(e.e, mode, e.e.t = "bin")
    [] e.t = "idx"  -> PrW(e.l, mode, e.l.t \in {"bin", "not", "neg"}) \o <<"[">> \o PrW(e.i, mode, FALSE) \o <<"]">>
    [] e.t = "call" -> <<e.f, "(">> \o PrList(e.args, mode) \o <<")">>
    [] e.t = "callx" -> PrW(e.f, mode, e.f.t \in {"bin", "not", "neg"}) \o <<"(">> \o PrList(e.args, mode) \o <<")">>
    [] e.t = "arr"  -> <<"[">> \o PrList(e.xs, mode) \o <<"]">>
    [] e.t = "int"  -> <<ToString(e.n)>>
    [] e.t = "bool" -> <<"true">>
    [] e.t = "id"   -> <<e.id>>
    [] e.t = "nilx" -> <<>>

\* ---- canonical prefix form of a tree (the harness computes the same from the real AST)
CanonSeq(xs) == Flat([i \in 1..Len(xs) |-> Canon(xs[i])])
Canon(e) ==
  CASE e.t = "bin"  -> <<"bin", e.op>> \o Canon(e.l) \o Canon(e.r)
    [] e.t = "not"  -> <<"pre", "!">> \o Canon(e.e)
    [] e.t = "neg"  -> <<"pre", "-">> \o Canon(e.e)
    [] e.t = "idx"  -> <<"idx">> \o Canon(e.l) \o Canon(e.i)
    [] e.t = "call" -> <<"call", e.f, ToString(Len(e.args))>> \o CanonSeq(e.args)
    [] e.t = "callx" -> <<"callx", ToString(Len(e.args))>> \o Canon(e.f) \o CanonSeq(e.args)
    [] e.t = "arr"  -> <<"arr", ToString(Len(e.xs))>> \o CanonSeq(e.xs)
    [] e.t = "int"  -> <<"int", ToString(e.n)>>
    [] e.t = "bool" -> <<"bool", "true">>
    [] e.t = "id"   -> <<"id", e.id>>
    [] e.t = "nilx" -> <<"<nil>">>
CanonStmts(ss) == IF Len(ss) = 1 THEN Canon(ss[1]) ELSE <<"stmts", ToString(Len(ss))>> \o CanonSeq(ss)

\* the source text of a token word: tokens separated by single spaces
Spaced(ts) == JoinWith([i \in 1..Len(ts) |-> <<ts[i]>>], <<" ">>)
Source(ts) == <<"<%=", " ">> \o Spaced(ts) \o <<" ", "%>">>

NoParens(ts) == SelectSeq(ts, LAMBDA x : x \notin {"(", ")"})

VARIABLES tree, word, res
vars == <<tree, word, res>>

Init == tree = Hole /\ word = <<>> /\ res = [k |-> "none"]

Expand == /\ Family = "tree" /\ HasHole(tree) /\ res.k = "none"
          /\ \/ /\ NOps(tree) >= MinSize
                /\ \E lf \in Atoms : tree' = Fill(tree, lf)
             \/ /\ NOps(tree) < MaxOps
                /\ \/ \E op \in BinToks : tree' = Fill(tree, Bin(op, Hole, Hole))
                   \/ tree' = Fill(tree, Not(Hole))
                   \/ tree' = Fill(tree, Idx(Hole, Hole))
                   \/ \E n \in 0..2 : tree' = Fill(tree, Call("id", [i \in 1..n |-> Hole]))
                   \/ \E n \in 0..2 : tree' = Fill(tree, Arr([i \in 1..n |-> Hole]))
          /\ UNCHANGED <<word, res>>

\* one finished case per valuation
FinishTree == /\ Family = "tree" /\ ~HasHole(tree) /\ res.k = "none"
              /\ \E v \in 1..Len(Vals) :
                   res' = [k |-> "tree", v |-> v, run |-> Run(<<Emit(tree)>>, WithHelpers(Vals[v]), EmptyScope, "")]
              /\ UNCHANGED <<tree, word>>

WordToks == {"a", "1", "xs", "id", "!", "-", "+", "*", "<", "==", "&&", "(", ")", "[", "]", ","}

AddTok == /\ Family = "word" /\ res.k = "none" /\ Len(word) < WordLen
          /\ \E tk \in WordToks : word' = Append(word, tk)
          /\ UNCHANGED <<tree, res>>
FinishWord == /\ Family = "word" /\ res.k = "none" /\ word # <<>>
              /\ res' = [k |-> "word", p |-> ParseTag(Append(word, "%>"))]
              /\ UNCHANGED <<tree, word>>

Next == Expand \/ FinishTree \/ AddTok \/ FinishWord
Spec == Init /\ [][Next]_vars

\* ---------------------------------------------------------------- theorems
Modes == {"min", "alt", "full"}

PrattAgree == res.k # "tree" \/
              \A m \in Modes : LET w == Pr(tree, m) p == ParseAll(w) IN p.ok /\ p.n = tree /\ p.i = Len(w)

\* what the machine accepts, printed statement by statement by the documented grammar, parses to the same
\* statements again and is the same word up to parentheses
Reprint == res.k # "word" \/ ~res.p.ok \/
           (LET w2 == Flat([i \in 1..Len(res.p.stmts) |-> Pr(res.p.stmts[i], "min")]) p2 == ParseTag(Append(w2, "%>")) IN
              /\ p2.ok /\ p2.stmts = res.p.stmts
              /\ NoParens(w2) = NoParens(word))

Expect(r) == CASE r.k = "out" -> [k |-> "out", pieces |-> r.pieces, log |-> r.log]
               [] r.k = "err" -> [k |-> "err", w |-> r.w, log |-> r.log]
               [] OTHER       -> [k |-> "unspec"]

EmitCase ==
  CASE res.k = "tree" ->
         PrintT("CASE " \o ToJson([gen |-> "GenPratt",
                                    srcs |-> [min  |-> Source(Pr(tree, "min")),
                                              alt  |-> Source(Pr(tree, "alt")),
                                              full |-> Source(Pr(tree, "full"))],
                                    canon |-> Canon(tree), val |-> res.v,
                                    data |-> Vals[res.v], nops |-> NOps(tree), expect |-> Expect(res.run)]))
    [] res.k = "word" ->
         PrintT("CASE " \o ToJson([gen |-> "PrattWord", src |-> Source(word), ok |-> res.p.ok,
                                    canon |-> IF res.p.ok THEN CanonStmts(res.p.stmts) ELSE <<>>]))
    [] OTHER -> TRUE
=============================================================================
