------------------------------ MODULE GenPaths ------------------------------
(***************************************************************************)
(* Generator machine for C11: a walker over a data graph built from a      *)
(* family of struct / map / slice / pointer types in which EVERY LEAF      *)
(* STRING SPELLS ITS OWN GO PATH.  State = the path expression built so    *)
(* far and the value Go navigation reaches with it; actions extend the     *)
(* path by a field selection (existing, missing, unexported, through a nil *)
(* pointer), an index (literal or variable, in and out of range), a map    *)
(* key (present, missing) or a method call (value / pointer receiver,      *)
(* missing).  Every prefix is emitted in three uses (output tag, let       *)
(* binding, loop iterable).  Expectation from the reference semantics:     *)
(* completed navigation => the leaf (= the path's own spelling), otherwise *)
(* an error or empty output.  (Leaves spell their canonical access path, so  *)
(* two different completed navigations never yield the same leaf.)         *)
(***************************************************************************)
EXTENDS Unparse, Json

CONSTANT MaxSteps

Leaf(p) == S(<<p>>)
IRec(p) == Rec([Name |-> Leaf(p \o ".Name")])
KRec(p) == RecM([Name |-> Leaf(p \o ".Name"),
                 Tags |-> AT(<<Leaf(p \o ".Tags[0]"), Leaf(p \o ".Tags[1]")>>, "strs"),
                 Inner |-> IRec(p \o ".Inner"), InnerPtr |-> IRec(p \o ".InnerPtr"), NilInner |-> Nil],
                [Hello |-> Leaf(p \o ".Hello()"), Shout |-> Leaf(p \o ".Shout()")])
RRec(p) == RecM([Name |-> Leaf(p \o ".Name"),
                 Kid |-> KRec(p \o ".Kid"), NilKid |-> Nil,
                 Kids |-> A(<<KRec(p \o ".Kids[0]"), KRec(p \o ".Kids[1]")>>),
                 KidPtrs |-> A(<<KRec(p \o ".KidPtrs[0]"), Nil>>),
                 M |-> M([a |-> KRec(p \o ".M[a]"), b |-> KRec(p \o ".M[b]")]),
                 MS |-> M([a |-> Leaf(p \o ".MS[a]")]),
                 Arr |-> A(<<KRec(p \o ".Arr[0]"), KRec(p \o ".Arr[1]")>>)],
                [Hello |-> Leaf(p \o ".Hello()"), Shout |-> Leaf(p \o ".Shout()"),
                 Child |-> KRec(p \o ".Child()"), ChildPtr |-> KRec(p \o ".ChildPtr()"), NilChild |-> Nil])

\* context data: a struct, a pointer to one (transparent), a slice of structs, a map of structs, index variables
Data == [r |-> RRec("r"), rp |-> RRec("rp"),
         rs |-> A(<<RRec("rs[0]"), RRec("rs[1]")>>),
         rm |-> M([a |-> RRec("rm[a]")]),
         i0 |-> I(0), i1 |-> I(1), i9 |-> I(9), ka |-> S(<<"a">>), kz |-> S(<<"z", "z">>)]
Roots == {"r", "rp", "rs", "rm"}

Unexported == "secret"
VARIABLES e, v, n      \* path expression, value reached ([t |-> "fail"] once navigation cannot be completed), steps
vars == <<e, v, n>>
Failed == [t |-> "fail"]

Init == \E x \in Roots : e = Id(x) /\ v = Data[x] /\ n = 0

\* one more navigation step from a value
FieldStep(f) == /\ e' = Dot(e, f)
                /\ v' = IF v.t = "rec" /\ f \in DOMAIN v.f THEN v.f[f] ELSE IF v.t = "nil" THEN Nil ELSE Failed
IndexStep(ix, k) == /\ e' = Idx(e, ix)
                    /\ v' = IF v.t = "arr" /\ k >= 0 /\ k < Len(v.xs) THEN v.xs[k + 1] ELSE Failed
KeyStep(kx, key) == /\ e' = Idx(e, kx)
                    /\ v' = IF v.t = "map" THEN (IF key \in DOMAIN v.m THEN v.m[key] ELSE Nil) ELSE Failed
CallStep(m) == /\ e' = MCall(e, m)
               /\ v' = IF v.t = "rec" /\ m \in DOMAIN v.m THEN v.m[m] ELSE Failed

Extend ==
  /\ n < MaxSteps /\ v # Failed /\ v.t \in {"rec", "arr", "map", "nil"}
  /\ n' = n + 1
  /\ \/ v.t = "rec" /\ \E f \in DOMAIN v.f \cup {"Nope", Unexported} : FieldStep(f)
     \/ v.t = "rec" /\ \E m \in DOMAIN v.m \cup {"Nope"} : CallStep(m)
     \/ v.t = "nil" /\ FieldStep("Name")
     \/ v.t = "arr" /\ \/ \E k \in 0..2 : IndexStep(IntL(k), k)
                       \/ IndexStep(Id("i0"), 0) \/ IndexStep(Id("i1"), 1) \/ IndexStep(Id("i9"), 9)
     \/ v.t = "map" /\ \/ KeyStep(Str(<<"a">>), "a") \/ KeyStep(Str(<<"z", "z">>), "zz")
                       \/ KeyStep(Id("ka"), "a") \/ KeyStep(Id("kz"), "zz")
Spec == Init /\ [][Extend]_vars

\* ---- the three uses of a path
Uses == {"emit", "let", "iter"}
Prog(u) == CASE u = "emit" -> <<Text(<<"[">>), Emit(e), Text(<<"]">>)>>
             [] u = "let"  -> <<Let("z", e), Text(<<"[">>), Emit(Id("z")), Text(<<"]">>)>>
             [] u = "iter" -> <<Text(<<"[">>), Emit(For("", "w", e, <<Text(<<"(">>), Emit(Id("w")), Text(<<")">>)>>)), Text(<<"]">>)>>
Res(u) == Run(Prog(u), WithHelpers(Data), EmptyScope, "")

\* what C11 states: the value Go navigation yields, or an error / empty output when it cannot be completed
Expect(u) ==
  LET r == Res(u) IN
  IF v = Failed \/ v.t = "nil" THEN [k |-> "errorempty", base |-> <<"[", "]">>]
  ELSE IF u = "iter" /\ v.t \notin {"arr", "map"} THEN [k |-> "errorempty", base |-> <<"[", "]">>]
  ELSE IF u = "iter" /\ (v.t = "map" \/ \E i \in 1..Len(v.xs) : v.xs[i].t # "str") THEN [k |-> "unspec"]
  ELSE IF u # "iter" /\ v.t # "str" THEN [k |-> "unspec"]                  \* not a leaf: printed form unspecified
  ELSE IF r.k = "out" THEN [k |-> "out", pieces |-> r.pieces, log |-> <<>>]
  ELSE [k |-> "modelgap"]

\* the reference semantics follows the navigation: a completed leaf renders as itself
NavTheorem == (v # Failed /\ v.t = "str") => (Res("emit").k = "out" /\ Res("emit").pieces = <<[k |-> "raw", s |-> <<"[">>], [k |-> "esc", s |-> v.s], [k |-> "raw", s |-> <<"]">>]>>)
FailTheorem == v = Failed => Res("emit").k \in {"err", "unspec"}
EmitCase == PrintT("CASE " \o ToJson([gen |-> "GenPaths", srcs |-> [u \in Uses |-> Unparse(Prog(u))],
                                       expects |-> [u \in Uses |-> Expect(u)], steps |-> n, reached |-> (IF v = Failed THEN "fail" ELSE v.t)]))
=============================================================================
