------------------------------ MODULE GenPaths ------------------------------
(***************************************************************************)
(* Generator machine for C11: a walker over a data graph built from a      *)
(* family of struct / map / slice / pointer types in which EVERY LEAF      *)
(* STRING SPELLS ITS OWN GO PATH.  State = the path expression built so    *)
(* far and the value Go navigation reaches with it; actions extend the     *)
(* path by a field selection (existing, missing, unexported, through a nil *)
(* pointer), an index (literal or variable, in and out of range), a map    *)
(* key (present, missing) or a method call (value / pointer receiver,      *)
(* missing).  Every prefix is emitted in three uses (output tag, let       *)
(* binding, loop iterable).  Expectation from the reference semantics:     *)
(* completed navigation => the leaf (= the path's own spelling), otherwise *)
(* an error or empty output.  (Leaves spell their canonical access path, so  *)
(* two different completed navigations never yield the same leaf.)         *)
(***************************************************************************)
EXTENDS Unparse, Json

CONSTANT MaxSteps

Leaf(p) == S(<<p>>)
IRec(p) == Rec([Name |-> Leaf(p \o ".Name")])
\* a K without further K-valued fields (the end of a chain of Sub pointers)
KEnd(p) == RecM([Name |-> Leaf(p \o ".Name"), Tags |-> AT(<<Leaf(p \o ".Tags[0]"), Leaf(p \o ".Tags[1]")>>, "strs"),
                 Inner |-> IRec(p \o ".Inner"), InnerPtr |-> IRec(p \o ".InnerPtr"), NilInner |-> Nil, Sub |-> Nil, M |-> M(EmptyScope)],
                [Hello |-> Leaf(p \o ".Hello()"), Shout |-> Leaf(p \o ".Shout()")])
\* what Twin() returns: a K whose own Twin() can be called again (the same method name chained up to three times)
RECURSIVE KT(_, _)
KT(p, d) == IF d = 0 THEN KEnd(p)
            ELSE RecM([Name |-> Leaf(p \o ".Name"), Tags |-> AT(<<Leaf(p \o ".Tags[0]"), Leaf(p \o ".Tags[1]")>>, "strs"),
                       Inner |-> IRec(p \o ".Inner"), InnerPtr |-> IRec(p \o ".InnerPtr"), NilInner |-> Nil, Sub |-> Nil, M |-> M(EmptyScope)],
                      [Hello |-> Leaf(p \o ".Hello()"), Shout |-> Leaf(p \o ".Shout()"), Twin |-> KT(p \o ".Twin()", d - 1)])
KRec(p) == RecM([Name |-> Leaf(p \o ".Name"), Sub |-> KEnd(p \o ".Sub"),
                 Tags |-> AT(<<Leaf(p \o ".Tags[0]"), Leaf(p \o ".Tags[1]")>>, "strs"),
                 Inner |-> IRec(p \o ".Inner"), InnerPtr |-> IRec(p \o ".InnerPtr"), NilInner |-> Nil,
                 \* (the field name M again, one level below R.M: a map of K inside K)
                 M |-> M([b |-> KEnd(p \o ".M[b]")])],
                [Hello |-> Leaf(p \o ".Hello()"), Shout |-> Leaf(p \o ".Shout()"), Twin |-> KT(p \o ".Twin()", 2)])
RRec(p) == RecM([Name |-> Leaf(p \o ".Name"),
                 Kid |-> KRec(p \o ".Kid"), NilKid |-> Nil,
                 Kids |-> A(<<KRec(p \o ".Kids[0]"), KRec(p \o ".Kids[1]")>>),
                 KidPtrs |-> A(<<KRec(p \o ".KidPtrs[0]"), Nil>>),
                 M |-> M([a |-> KRec(p \o ".M[a]"), b |-> KRec(p \o ".M[b]")]),
                 MS |-> M([a |-> Leaf(p \o ".MS[a]")]),
                 Arr |-> A(<<KRec(p \o ".Arr[0]"), KRec(p \o ".Arr[1]")>>)],
                [Hello |-> Leaf(p \o ".Hello()"), Shout |-> Leaf(p \o ".Shout()"),
                 Child |-> KRec(p \o ".Child()"), ChildPtr |-> KRec(p \o ".ChildPtr()"), NilChild |-> Nil])

\* two DIFFERENT Go struct types that print the same type name, with the same field names in another order
T2(p) == Rec([Title |-> Leaf(p \o ".Title"), Owner |-> Leaf(p \o ".Owner")])
\* a struct with two embedded structs that both lead to a field Author -- PMeta (declared first) through its own embedded PAudit,
\* PBy directly: Go's selector e.Author is the SHALLOWEST one (PBy's); a promoted field is the same variable as its explicit path
ERec(p) == Rec([Title |-> Leaf(p \o ".Title"), Author |-> Leaf(p \o ".PBy.Author"), Stamp |-> Leaf(p \o ".PMeta.Stamp"),
                PBy |-> Rec([Author |-> Leaf(p \o ".PBy.Author")]),
                PMeta |-> Rec([Stamp |-> Leaf(p \o ".PMeta.Stamp"), Author |-> Leaf(p \o ".PMeta.PAudit.Author"),
                               PAudit |-> Rec([Author |-> Leaf(p \o ".PMeta.PAudit.Author")])])])
\* a pointer to a map: Go itself does not index through it; whether plush does is not specified (it must not crash)
PMap(m) == [t |-> "pmap", m |-> m]
\* context data: a struct, a pointer to one (transparent), a slice of structs, a map of structs, index variables
Data == [r |-> RRec("r"), rp |-> RRec("rp"),
         rs |-> A(<<RRec("rs[0]"), RRec("rs[1]")>>),
         rm |-> M([a |-> RRec("rm[a]")]),
         k |-> KRec("k"), ks |-> A(<<KRec("ks[0]"), KRec("ks[1]")>>),
         ta |-> A(<<T2("ta[0]"), T2("ta[1]")>>), tb |-> A(<<T2("tb[0]"), T2("tb[1]")>>),
         pks |-> [t |-> "pslice", xs |-> <<KRec("pks[0]"), KRec("pks[1]")>>],    \* a pointer to a slice: like a pointer to a map
         im |-> [t |-> "imap", m |-> [one |-> KRec("im[1]")]],                  \* map[int]K with the key 1
         pm |-> PMap([a |-> KRec("pm[a]")]), pms |-> A(<<PMap([a |-> KRec("pms[0][a]")])>>),
         em |-> ERec("em"), ems |-> A(<<ERec("ems[0]")>>),
         \* a slice of structs that embed a POINTER to the struct ID is promoted from; the pointer is nil in the second element:
         \* es[1].ID navigates through a nil pointer
         es |-> A(<<Rec([ID |-> Leaf("es[0].ID"), Title |-> Leaf("es[0].Title")]), Rec([ID |-> Nil, Title |-> Leaf("es[1].Title")])>>),
         \* a map[string]interface{}: a struct, a pointer to one, and a key that is PRESENT and holds nil
         am |-> M([a |-> KRec("am[a]"), b |-> KRec("am[b]"), n |-> Nil]),
         i0 |-> I(0), i1 |-> I(1), i9 |-> I(9), imax |-> I(2147483647), ka |-> S(<<"a">>), kz |-> S(<<"z", "z">>)]
Roots == {"r", "rp", "rs", "rm", "k", "ks", "ta", "tb", "pks", "pm", "pms", "im", "em", "ems", "am", "es"}

Unexported == "secret"
VARIABLES e, v, n,     \* path expression, value reached ([t |-> "fail"] once navigation cannot be completed), steps
          fam           \* "walk" | name of a revisit program (the same path evaluated again after its index variable changed)
vars == <<e, v, n, fam>>
Failed == [t |-> "fail"]

\* paths whose index variable `j` is not the first index of the path, evaluated for j = 0 and j = 1
RevisitPaths ==
  [ kids    |-> Dot(Idx(Dot(Idx(Id("rs"), IntL(1)), "Kids"), Id("j")), "Name"),
    tags    |-> Idx(Dot(Idx(Dot(Id("r"), "Kids"), IntL(0)), "Tags"), Id("j")),
    both    |-> Dot(Idx(Dot(Idx(Id("rs"), Id("j")), "Kids"), Id("j")), "Name"),
    mapkids |-> Dot(Idx(Dot(Idx(Id("rm"), Str(<<"a">>)), "Kids"), Id("j")), "Name"),
    arr     |-> Dot(Dot(Idx(Dot(Id("rp"), "Arr"), Id("j")), "Inner"), "Name"),
    call    |-> MCall(Idx(Dot(Idx(Id("rs"), IntL(0)), "Kids"), Id("j")), "Hello") ]
RevisitProg(nm, how) ==
  IF how = "loop" THEN <<Emit(For("", "j", Arr(<<IntL(0), IntL(1)>>), <<Text(<<"(">>), Emit(RevisitPaths[nm]), Text(<<")">>)>>))>>
  ELSE <<Let("j", IntL(0)), Text(<<"(">>), Emit(RevisitPaths[nm]), Text(<<")">>), Code(Assign("j", IntL(1))), Text(<<"(">>), Emit(RevisitPaths[nm]), Text(<<")">>)>>

\* walks that start deep inside the graph (the path spelled so far is part of the case: the same field name M occurs in it
\* at two depths already)
DeepStarts == { [e |-> Idx(Dot(Idx(Dot(Id("r"), "M"), Str(<<"a">>)), "M"), Str(<<"b">>)), v |-> KEnd("r.M[a].M[b]")],
                [e |-> Idx(Dot(Idx(Id("rs"), IntL(1)), "M"), Str(<<"b">>)), v |-> KRec("rs[1].M[b]")],
                [e |-> Dot(Idx(Dot(Idx(Id("rm"), Str(<<"a">>)), "M"), Str(<<"a">>)), "M"), v |-> M([b |-> KEnd("rm[a].M[a].M[b]")])] }
\* walks that start at the result of a TEMPLATE function (idf returns its argument: the leaves still spell the argument's paths)
FnStarts == { [e |-> Call("idf", <<Id("k")>>), v |-> KRec("k")], [e |-> Call("idf", <<Idx(Id("rs"), IntL(1))>>), v |-> RRec("rs[1]")],
              [e |-> Call("idf", <<Id("nil")>>), v |-> Nil] }
Init == \/ \E x \in Roots : e = Id(x) /\ v = Data[x] /\ n = 0 /\ fam = "walk"
        \/ \E d \in FnStarts : e = d.e /\ v = d.v /\ n = 0 /\ fam = "walk"
        \/ \E d \in DeepStarts : e = d.e /\ v = d.v /\ n = 0 /\ fam = "walk"
        \/ \E nm \in DOMAIN RevisitPaths, how \in {"loop", "assign"} : e = RevisitPaths[nm] /\ v = Failed /\ n = 0 /\ fam = nm \o ":" \o how

\* one more navigation step from a value
FieldStep(f) == /\ e' = Dot(e, f)
                /\ v' = IF v.t = "rec" /\ f \in DOMAIN v.f THEN v.f[f] ELSE IF v.t = "nil" THEN Nil ELSE Failed
IndexStep(ix, k) == /\ e' = Idx(e, ix)
                    /\ v' = IF v.t = "arr" /\ k >= 0 /\ k < Len(v.xs) THEN v.xs[k + 1]
                            ELSE IF v.t = "pslice" THEN [t |-> "unspecv"] ELSE Failed
KeyStep(kx, key) == /\ e' = Idx(e, kx)
                    /\ v' = IF v.t = "map" THEN (IF key \in DOMAIN v.m THEN v.m[key] ELSE Nil)
                            ELSE IF v.t = "pmap" THEN [t |-> "unspecv"] ELSE Failed
WrongKeyStep(kx) == e' = Idx(e, kx) /\ v' = Failed
CallStep(m) == /\ e' = MCall(e, m)
               /\ v' = IF v.t = "rec" /\ m \in DOMAIN v.m THEN v.m[m] ELSE Failed

\* a path that has failed is continued by ONE more selection (in a let: the failed prefix is bound first, then selected from):
\* what cannot be completed stays an error or empty -- it never turns into the receiver or some other element again
Failed2 == [t |-> "fail", again |-> TRUE]
IsNilK(x) == (x.t = "dot" /\ x.n = "NilKid") \/ (x.t = "mcall" /\ x.n = "NilChild")
NilShout == <<"nil.Shout()">>
Extend ==
  /\ fam = "walk" /\ UNCHANGED fam
  /\ n < MaxSteps + (IF v = Failed THEN 1 ELSE 0) /\ v # Failed2 /\ v.t \in {"rec", "arr", "map", "nil", "pmap", "pslice", "imap", "fail"}
  /\ n' = n + 1
  /\ \/ v = Failed /\ e' = Dot(e, "Name") /\ v' = Failed2
     \/ v.t = "rec" /\ \E f \in DOMAIN v.f \cup {"Nope", Unexported} : FieldStep(f)
     \/ v.t = "rec" /\ \E m \in DOMAIN v.m \cup {"Nope"} : CallStep(m)
     \/ v.t = "nil" /\ FieldStep("Name")
     \* a nil *K: a method with a POINTER receiver is callable on it (Go calls it with the nil receiver), one with a value receiver is not
     \/ v.t = "nil" /\ IsNilK(e) /\ ((e' = MCall(e, "Shout") /\ v' = Leaf("nil.Shout()")) \/ (e' = MCall(e, "Hello") /\ v' = Failed))
     \* the largest int as an index (literal and variable): out of range like any other
     \/ v.t = "arr" /\ (IndexStep(MaxIntLit, 2147483647) \/ IndexStep(Id("imax"), 2147483647))
     \/ v.t = "arr" /\ \/ \E k \in 0..2 : IndexStep(IntL(k), k)
                       \/ IndexStep(Id("i0"), 0) \/ IndexStep(Id("i1"), 1) \/ IndexStep(Id("i9"), 9)
     \/ v.t = "pslice" /\ (IndexStep(IntL(0), 0) \/ IndexStep(Id("i1"), 1) \/ IndexStep(Id("i9"), 9))
     \* an index of another type than the map's keys is not a key, even where Go could CONVERT it to one that exists:
     \* 97 / 1.5 on a string-keyed map with the key "a", 1.5 / "1" on an int-keyed map with the key 1
     \/ v.t = "map" /\ (WrongKeyStep(IntL(97)) \/ WrongKeyStep(Flt(3, 1)))
     \/ v.t = "imap" /\ \/ (e' = Idx(e, IntL(1)) /\ v' = v.m["one"])
                        \/ (e' = Idx(e, IntL(2)) /\ v' = Nil)
                        \/ WrongKeyStep(Flt(3, 1)) \/ WrongKeyStep(Str(<<"1">>))
     \/ v.t = "pmap" /\ (KeyStep(Str(<<"a">>), "a") \/ KeyStep(Id("ka"), "a") \/ FieldStep("Name"))
     \/ v.t = "map" /\ (KeyStep(Str(<<"b">>), "b") \/ KeyStep(Str(<<"n">>), "n"))
     \/ v.t = "map" /\ \/ KeyStep(Str(<<"a">>), "a") \/ KeyStep(Str(<<"z", "z">>), "zz")
                       \/ KeyStep(Id("ka"), "a") \/ KeyStep(Id("kz"), "zz")
Spec == Init /\ [][Extend]_vars

\* ---- the three uses of a path
\* (letsel: the path without its last field selection is bound first, the selection applied to the bound name)
Uses == {"emit", "let", "iter", "letsel"}
IdF == Let("idf", FnLit(<<"x">>, <<Ret(Id("x"))>>))
ProgU(u) == CASE u = "emit" -> <<Text(<<"[">>), Emit(e), Text(<<"]">>)>>
             [] u = "let"  -> <<Let("z", e), Text(<<"[">>), Emit(Id("z")), Text(<<"]">>)>>
             [] u = "letsel" -> IF e.t = "dot" THEN <<Let("z", e.l), Text(<<"[">>), Emit(Dot(Id("z"), e.n)), Text(<<"]">>)>>
                                ELSE <<Text(<<"[">>), Emit(e), Text(<<"]">>)>>
             [] u = "iter" -> <<Text(<<"[">>), Emit(For("", "w", e, <<Text(<<"(">>), Emit(Id("w")), Text(<<")">>)>>)), Text(<<"]">>)>>
Prog(u) == <<IdF>> \o ProgU(u)
Res(u) == Run(Prog(u), WithHelpers(Data), EmptyScope, "")

\* what C11 states: the value Go navigation yields, or an error / empty output when it cannot be completed
Expect(u) ==
  LET r == Res(u) IN
  IF v.t \in {"unspecv", "pmap", "pslice"} THEN [k |-> "unspec"]
  \* (Layer A's nil carries no type: the result of the pointer method on the nil *K is given here directly)
  \* C11 lets a path through a nil pointer fail (error or empty output); what it may NOT yield is anything but Go's result
  ELSE IF v.t = "str" /\ v.s = NilShout /\ u # "iter" THEN [k |-> "outorerrorempty", base |-> <<"[", "]">>, pieces |-> <<[k |-> "raw", s |-> <<"[">>], [k |-> "esc", s |-> v.s], [k |-> "raw", s |-> <<"]">>]>>, log |-> <<>>]
  ELSE IF v.t = "fail" \/ v.t = "nil" THEN [k |-> "errorempty", base |-> <<"[", "]">>]
  ELSE IF u = "iter" /\ v.t \notin {"arr", "map", "imap"} THEN [k |-> "errorempty", base |-> <<"[", "]">>]
  ELSE IF u = "iter" /\ (v.t \in {"map", "imap"} \/ \E i \in 1..Len(v.xs) : v.xs[i].t # "str") THEN [k |-> "unspec"]
  ELSE IF u # "iter" /\ v.t # "str" THEN [k |-> "unspec"]                  \* not a leaf: printed form unspecified
  ELSE IF r.k = "out" THEN [k |-> "out", pieces |-> r.pieces, log |-> <<>>]
  ELSE [k |-> "modelgap"]

\* the reference semantics follows the navigation: a completed leaf renders as itself
RevisitRes == LET nm == CHOOSE x \in DOMAIN RevisitPaths : \E h \in {"loop", "assign"} : fam = x \o ":" \o h
                  how == IF \E x \in DOMAIN RevisitPaths : fam = x \o ":loop" THEN "loop" ELSE "assign"
              IN [prog |-> RevisitProg(nm, how), r |-> Run(RevisitProg(nm, how), WithHelpers(Data), EmptyScope, "")]
RevisitTheorem == fam # "walk" => RevisitRes.r.k = "out"
NavTheorem == (fam = "walk" /\ v.t = "str" /\ v.s # NilShout) => (Res("emit").k = "out" /\ Res("emit").pieces = <<[k |-> "raw", s |-> <<"[">>], [k |-> "esc", s |-> v.s], [k |-> "raw", s |-> <<"]">>]>>)
FailTheorem == (fam = "walk" /\ v.t = "fail") => Res("emit").k \in {"err", "unspec"}
\* paths whose tail (an index of the tail) mentions the variable the path starts from: it still means that variable
SelfRef == << [n |-> "kids_index_mentions_root", leaf |-> "rs[0].Kids[1].Name",
               e |-> Dot(Idx(Dot(Idx(Id("rs"), IntL(0)), "Kids"), Bin("-", Call("len", <<Id("rs")>>), IntL(1))), "Name")],
              [n |-> "tags_index_mentions_root", leaf |-> "ks[1].Tags[0]",
               e |-> Idx(Dot(Idx(Id("ks"), IntL(1)), "Tags"), Bin("-", Call("len", <<Id("ks")>>), IntL(2)))] >>
\* programs that keep the results of two calls of a POINTER-receiver method on two different addressable-by-copy values of one
\* type (Me returns its receiver): each result still is the value it was called on
Kept == << [n |-> "receivers_of_two_elements", leaves |-> <<"ks[0].Name", "ks[1].Name">>,
            prog |-> <<Let("a", MCall(Idx(Id("ks"), IntL(0)), "Me")), Let("b", MCall(Idx(Id("ks"), IntL(1)), "Me")),
                       Text(<<"[">>), Emit(Dot(Id("a"), "Name")), Text(<<"|">>), Emit(Dot(Id("b"), "Name")), Text(<<"]">>)>>],
           [n |-> "receivers_of_two_map_entries", leaves |-> <<"r.M[a].Name", "r.M[b].Name">>,
            prog |-> <<Let("a", MCall(Idx(Dot(Id("r"), "M"), Str(<<"a">>)), "Me")), Let("b", MCall(Idx(Dot(Id("r"), "M"), Str(<<"b">>)), "Me")),
                       Text(<<"[">>), Emit(Dot(Id("a"), "Name")), Text(<<"|">>), Emit(Dot(Id("b"), "Name")), Text(<<"]">>)>>] >>
EmitKept == ~(fam = "walk" /\ n = 0 /\ e = Id("r")) \/
               \A i \in 1..Len(Kept) :
                  PrintT("CASE " \o ToJson([gen |-> "GenPaths", srcs |-> [kept |-> Unparse(Kept[i].prog)],
                                             expects |-> [kept |-> [k |-> "out", pieces |-> <<[k |-> "raw", s |-> <<"[">>], [k |-> "esc", s |-> <<Kept[i].leaves[1]>>], [k |-> "raw", s |-> <<"|">>],
                                                                                           [k |-> "esc", s |-> <<Kept[i].leaves[2]>>], [k |-> "raw", s |-> <<"]">>]>>, log |-> <<>>]],
                                             steps |-> 3, reached |-> "kept:" \o Kept[i].n]))
EmitSelfRef == ~(fam = "walk" /\ n = 0 /\ e = Id("r")) \/
               \A i \in 1..Len(SelfRef) :
                  PrintT("CASE " \o ToJson([gen |-> "GenPaths", srcs |-> [selfref |-> Unparse(<<Text(<<"[">>), Emit(SelfRef[i].e), Text(<<"]">>)>>)],
                                             expects |-> [selfref |-> [k |-> "out", pieces |-> <<[k |-> "raw", s |-> <<"[">>], [k |-> "esc", s |-> <<SelfRef[i].leaf>>], [k |-> "raw", s |-> <<"]">>]>>, log |-> <<>>]],
                                             steps |-> 3, reached |-> "selfref:" \o SelfRef[i].n]))
EmitCase == EmitSelfRef /\ EmitKept /\ IF fam # "walk"
            THEN PrintT("CASE " \o ToJson([gen |-> "GenPaths", srcs |-> [revisit |-> Unparse(RevisitRes.prog)],
                                             expects |-> [revisit |-> [k |-> "out", pieces |-> RevisitRes.r.pieces, log |-> <<>>]], steps |-> 3, reached |-> fam]))
            ELSE PrintT("CASE " \o ToJson([gen |-> "GenPaths", srcs |-> [u \in Uses |-> Unparse(Prog(u))],
                                       expects |-> [u \in Uses |-> Expect(u)], steps |-> n, reached |-> v.t]))
=============================================================================
