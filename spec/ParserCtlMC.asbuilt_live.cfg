CONSTANTS
  defaultInitValue = "none"
  K = 2
  Vocab <- VSmall
  Guards = FALSE
  EmitCases = FALSE
SPECIFICATION Spec
PROPERTY Termination
CHECK_DEADLOCK FALSE
