CONSTANTS
  MaxFixed = 2
  MaxArgs = 3
  VariadicNilPtr = FALSE
  EmitCases = TRUE
SPECIFICATION Spec
INVARIANTS Agree Emit
CHECK_DEADLOCK FALSE
