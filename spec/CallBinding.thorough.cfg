CONSTANTS
  MaxFixed = 2
  MaxArgs = 4
  VariadicNilPtr = FALSE
  EmitCases = TRUE
SPECIFICATION Spec
INVARIANTS Agree Emit
CHECK_DEADLOCK FALSE
