CONSTANTS
  Keys <- MCKeys
  HelperKeys <- MCHelperKeys
  MaxCtx = 3
  MaxOps = 3
  InjectByHas = FALSE
  EmitCases = TRUE
SPECIFICATION Spec
INVARIANTS Agree UserWins Emit
PROPERTY Frame
CHECK_DEADLOCK FALSE
