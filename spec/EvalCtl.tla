------------------------------ MODULE EvalCtl ------------------------------
(***************************************************************************)
(* Layer B (implementation-shaped) machine of the evaluator's CONTROL      *)
(* FLOW (compiler.go): evalBlockStatement, the per-iteration collection of *)
(* evalForExpression, evalIfExpression as a statement (emitted / silent),  *)
(* evalUserFunction with flattenReturn, and the top-level write -- over    *)
(* abstract statement trees.  Values are what the Go code passes around:   *)
(* atoms, lists ([]interface{}) and the three wrapper objects              *)
(* returnObject / breakObject / continueObject with their Value slices.    *)
(*                                                                         *)
(* Next to it a small DECLARATIVE reading of the same trees (what C08 and  *)
(* C16 state): a block produces its statements' output in order; continue  *)
(* ends the iteration and break the loop, both keeping what the iteration  *)
(* already produced; a call yields what its body produced up to and        *)
(* including the value of the first return reached.                        *)
(*                                                                         *)
(* Theorems (TLC invariants over every tree up to MaxNodes):               *)
(*   Agree       flattened machine output = declarative output             *)
(*   Contained   no wrapper object survives a call boundary, no break /    *)
(*               continue object survives its loop                         *)
(*   AgreeSem    both equal the reference semantics PlushSem on the tree's *)
(*               translation to a template                                 *)
(* Deviation switches (each refuted by TLC):                               *)
(*   FlattenOne   flattenReturn unwraps one level only                     *)
(*   BreakDrops   a break returns from the loop without the iteration's    *)
(*                output                                                   *)
(*   RetEndsBlock a return object met by evalBlockStatement is not         *)
(*                re-wrapped with what the block produced before it        *)
(***************************************************************************)
EXTENDS Unparse, Json

CONSTANTS MaxNodes,     \* statements per program
          Family,       \* "loops": no calls (C08) | "calls": calls, returns, loops (C16)
          FlattenOne, BreakDrops, RetEndsBlock

\* ---------------------------------------------------------------- abstract statements
Hole == [t |-> "hole"]
OutS(a)      == [t |-> "out", a |-> a]        \* <%= "a" %>;  a = "i": the innermost loop's variable
TxtS(a)      == [t |-> "txt", a |-> a]        \* literal text
SilS         == [t |-> "sil"]                 \* a silent tag with a value (<% 1 + 1 %>)
RetS(a)      == [t |-> "ret", a |-> a]
BrkS         == [t |-> "brk"]
CntS         == [t |-> "cnt"]
IfS(c, e, b) == [t |-> "if", c |-> c, e |-> e, b |-> b]       \* c: "T" | "F" | "first" | "last"; e: emitted (<%= if) or silent (<% if)
LoopS(e, b)  == [t |-> "loop", e |-> e, b |-> b]              \* over [0, 1]
CallS(e, b)  == [t |-> "call", e |-> e, b |-> b]              \* let f = fn() { b };  <%= f() %> / <% f() %>

\* ---------------------------------------------------------------- values of the machine
NilV     == [t |-> "nil"]
AV(a)    == [t |-> "atom", a |-> a]
LV(xs)   == [t |-> "list", xs |-> xs]
WV(k, xs) == [t |-> k, xs |-> xs]            \* k: "retobj" | "brkobj" | "cntobj"
IsW(v)   == v.t \in {"retobj", "brkobj", "cntobj"}

Holds(c, idx) == CASE c = "T" -> TRUE [] c = "F" -> FALSE [] c = "first" -> idx = 0 [] c = "last" -> idx = 1
AtomOf(a, idx) == IF a = "i" THEN ToString(idx) ELSE a

RECURSIVE ImplStmt(_, _), ImplBlock(_, _, _, _), ImplLoop(_, _, _), FlattenRet(_, _), WriteFlat(_)

\* flattenReturn(ro, acc)
FlattenRet(xs, acc) ==
  IF xs = <<>> THEN acc
  ELSE LET v == Head(xs) IN
       IF v.t = "retobj" /\ ~FlattenOne THEN FlattenRet(Tail(xs), FlattenRet(v.xs, acc))
       ELSE IF v.t = "retobj" THEN FlattenRet(Tail(xs), acc \o v.xs)         \* one level: inner wrappers stay
       ELSE FlattenRet(Tail(xs), Append(acc, v))

\* evalStatement for a statement in a block: the value handed to evalBlockStatement
Silent(v) == IF IsW(v) THEN v ELSE NilV       \* <% expr %>: only exit objects (and printables) get through
ImplStmt(s, idx) ==
  CASE s.t = "out"  -> AV(AtomOf(s.a, idx))
    [] s.t = "txt"  -> AV(s.a)
    [] s.t = "sil"  -> NilV
    [] s.t = "ret"  -> WV("retobj", <<AV(s.a)>>)
    [] s.t = "brk"  -> WV("brkobj", <<>>)
    [] s.t = "cnt"  -> WV("cntobj", <<>>)
    [] s.t = "if"   -> LET v == IF Holds(s.c, idx) THEN ImplBlock(s.b, 1, <<>>, idx) ELSE NilV
                       IN IF s.e THEN v ELSE Silent(v)
    [] s.t = "loop" -> LET v == ImplLoop(s.b, 0, <<>>) IN IF s.e THEN v ELSE Silent(v)
    [] s.t = "call" ->                                                   \* evalUserFunction
         LET res == ImplBlock(s.b, 1, <<>>, -1)
             v   == IF res.t = "retobj"
                    THEN LET vals == FlattenRet(res.xs, <<>>) IN IF Len(vals) = 1 THEN vals[1] ELSE LV(vals)
                    ELSE res
         IN IF s.e THEN v ELSE Silent(v)

\* evalBlockStatement: statements from position i, res collected so far
ImplBlock(b, i, res, idx) ==
  IF i > Len(b) THEN LV(res)
  ELSE LET v == ImplStmt(b[i], idx) IN
       IF ~IsW(v) THEN ImplBlock(b, i + 1, IF v = NilV THEN res ELSE Append(res, v), idx)
       ELSE CASE v.t = "cntobj" -> WV("cntobj", res \o v.xs)
              [] v.t = "brkobj" -> WV("brkobj", res \o v.xs)
              [] v.t = "retobj" -> IF RetEndsBlock THEN v ELSE WV("retobj", Append(res, v))   \* res = append(res, i); obj.Value = res

\* the slice branch of evalForExpression over [0, 1]
ImplLoop(b, idx, ret) ==
  IF idx > 1 THEN LV(ret)
  ELSE LET res == ImplBlock(b, 1, <<>>, idx)
           brk == res.t = "brkobj"
           val == IF res.t \in {"cntobj", "brkobj"} THEN LV(res.xs) ELSE res      \* a return object stays as it is
       IN IF brk /\ BreakDrops THEN LV(ret)
          ELSE IF brk THEN LV(Append(ret, val))
          ELSE ImplLoop(b, idx + 1, Append(ret, val))

\* compiler.write: lists and return objects are written element by element
WriteFlat(v) ==
  CASE v.t = "atom" -> <<v.a>>
    [] v.t = "nil"  -> <<>>
    [] v.t \in {"list", "retobj"} -> Flat([k \in 1..Len(v.xs) |-> WriteFlat(v.xs[k])])
    [] OTHER -> <<"!", v.t>>                     \* a break / continue object reaches the output: never

\* top level (compile): every statement's value is written; silent tags are evaluated and discarded
ImplTop(p) == Flat([k \in 1..Len(p) |->
                 IF p[k].t \in {"sil"} \/ (p[k].t \in {"if", "loop", "call"} /\ ~p[k].e) THEN <<>> ELSE WriteFlat(ImplStmt(p[k], -1))])

\* a wrapper below the top of a value (something escaped its boundary)
RECURSIVE HasW(_)
HasW(v) == IsW(v) \/ (v.t = "list" /\ \E k \in 1..Len(v.xs) : HasW(v.xs[k]))

\* ---------------------------------------------------------------- declarative reading
RECURSIVE RefStmt(_, _), RefBlock(_, _, _, _), RefLoop(_, _, _)
RR(k, out) == [k |-> k, out |-> out]
RefStmt(s, idx) ==
  CASE s.t = "out"  -> RR("ok", <<AtomOf(s.a, idx)>>)
    [] s.t = "txt"  -> RR("ok", <<s.a>>)
    [] s.t = "sil"  -> RR("ok", <<>>)
    [] s.t = "ret"  -> RR("ret", <<s.a>>)
    [] s.t = "brk"  -> RR("brk", <<>>)
    [] s.t = "cnt"  -> RR("cnt", <<>>)
    [] s.t = "if"   -> LET r == IF Holds(s.c, idx) THEN RefBlock(s.b, 1, <<>>, idx) ELSE RR("ok", <<>>)
                       IN IF r.k = "ok" /\ ~s.e THEN RR("ok", <<>>) ELSE r           \* a silent if that completes adds nothing
    [] s.t = "loop" -> LET r == RefLoop(s.b, 0, <<>>) IN IF s.e THEN r ELSE RR("ok", <<>>)
    [] s.t = "call" -> LET r == RefBlock(s.b, 1, <<>>, -1) IN                        \* the call's value: what the body produced up to the first return
                       IF s.e THEN RR("ok", r.out) ELSE RR("ok", <<>>)
RefBlock(b, i, out, idx) ==
  IF i > Len(b) THEN RR("ok", out)
  ELSE LET r == RefStmt(b[i], idx) IN
       IF r.k = "ok" THEN RefBlock(b, i + 1, out \o r.out, idx) ELSE RR(r.k, out \o r.out)
RefLoop(b, idx, out) ==
  IF idx > 1 THEN RR("ok", out)
  ELSE LET r == RefBlock(b, 1, <<>>, idx) IN
       IF r.k = "brk" THEN RR("ok", out \o r.out)
       ELSE RefLoop(b, idx + 1, out \o r.out)        \* ok, continue; a return in a loop body ends the iteration (pinned by the repository's tests)
RefTop(p) == Flat([k \in 1..Len(p) |-> RefStmt(p[k], -1).out])

\* ---------------------------------------------------------------- translation to a template (PlushSem AST)
RECURSIVE ToAst(_, _, _), ToAstBlock(_, _, _)
CondE(c, iv) == CASE c = "T" -> Bool(TRUE) [] c = "F" -> Bool(FALSE)
                  [] c = "first" -> Bin("==", Id(iv), IntL(0)) [] c = "last" -> Bin("==", Id(iv), IntL(1))
Wrap(e, x) == IF e THEN Emit(x) ELSE Code(x)
ToAst(s, iv, nm) ==
  CASE s.t = "out"  -> <<IF s.a = "i" THEN Emit(Id(iv)) ELSE Emit(Str(<<s.a>>))>>
    [] s.t = "txt"  -> <<Text(<<s.a>>)>>
    [] s.t = "sil"  -> <<Code(Bin("+", IntL(1), IntL(1)))>>
    [] s.t = "ret"  -> <<Ret(Str(<<s.a>>))>>
    [] s.t = "brk"  -> <<Code(Brk)>>
    [] s.t = "cnt"  -> <<Code(Cnt)>>
    [] s.t = "if"   -> <<Wrap(s.e, If(CondE(s.c, iv), ToAstBlock(s.b, iv, nm)))>>
    [] s.t = "loop" -> <<Wrap(s.e, For("", "v" \o nm, Arr(<<IntL(0), IntL(1)>>), ToAstBlock(s.b, "v" \o nm, nm)))>>
    [] s.t = "call" -> <<Let("f" \o nm, FnLit(<<>>, ToAstBlock(s.b, "none", nm))), Wrap(s.e, Call("f" \o nm, <<>>))>>
ToAstBlock(b, iv, nm) == Flat([k \in 1..Len(b) |-> ToAst(b[k], iv, nm \o ToString(k))])
Template(p) == ToAstBlock(p, "none", "")

\* ---------------------------------------------------------------- programs by hole expansion
RECURSIVE Size(_), SeqSize(_), HasHoleB(_), FillB(_, _, _, _)
SeqSize(b) == IF b = <<>> THEN 0 ELSE Size(Head(b)) + SeqSize(Tail(b))
Size(s) == IF s.t \in {"if", "loop", "call"} THEN 1 + SeqSize(s.b) ELSE 1
HasHoleB(b) == \E k \in 1..Len(b) : b[k].t = "hole" \/ (b[k].t \in {"if", "loop", "call"} /\ HasHoleB(b[k].b))
\* the context of the leftmost hole: inside a loop? inside a call body? (decides which leaves are legal)
RECURSIVE CtxOf(_, _, _)
CtxOf(b, inloop, incall) ==
  LET k == CHOOSE j \in 1..Len(b) : (b[j].t = "hole" \/ (b[j].t \in {"if", "loop", "call"} /\ HasHoleB(b[j].b)))
                                    /\ \A m \in 1..(j - 1) : ~(b[m].t = "hole" \/ (b[m].t \in {"if", "loop", "call"} /\ HasHoleB(b[m].b)))
  IN IF b[k].t = "hole" THEN [inloop |-> inloop, incall |-> incall]
     ELSE IF b[k].t = "loop" THEN CtxOf(b[k].b, TRUE, incall)
     ELSE IF b[k].t = "call" THEN CtxOf(b[k].b, FALSE, TRUE)
     ELSE CtxOf(b[k].b, inloop, incall)
\* replace the leftmost hole by the statements ss
FillB(b, ss, i, done) ==
  IF i > Len(b) THEN <<>>
  ELSE IF done THEN <<b[i]>> \o FillB(b, ss, i + 1, TRUE)
  ELSE IF b[i].t = "hole" THEN ss \o FillB(b, ss, i + 1, TRUE)
  ELSE IF b[i].t \in {"if", "loop", "call"} /\ HasHoleB(b[i].b) THEN <<[b[i] EXCEPT !.b = FillB(b[i].b, ss, 1, FALSE)]>> \o FillB(b, ss, i + 1, TRUE)
  ELSE <<b[i]>> \o FillB(b, ss, i + 1, FALSE)

VARIABLES prog, fin
vars == <<prog, fin>>
Init == prog = <<Hole>> /\ fin = FALSE

Leaves(cx) == {OutS("a"), TxtS("t")} \cup (IF cx.inloop THEN {OutS("i"), BrkS, CntS} ELSE {})
              \cup (IF cx.incall /\ Family = "calls" THEN {RetS("r")} ELSE {})
Composites(cx) == { IfS(c, e, <<Hole>>) : c \in (IF cx.inloop THEN {"T", "first", "last"} ELSE {"T", "F"}), e \in BOOLEAN }
                  \cup { LoopS(e, <<Hole>>) : e \in BOOLEAN }
                  \cup (IF Family = "calls" THEN { CallS(e, <<Hole>>) : e \in BOOLEAN } ELSE {})
Expand == /\ ~fin /\ HasHoleB(prog)
          /\ LET cx == CtxOf(prog, FALSE, FALSE) n == SeqSize(prog) IN
             \/ \E lf \in Leaves(cx) : prog' = FillB(prog, <<lf>>, 1, FALSE)
             \/ n < MaxNodes /\ \E c \in Composites(cx) : prog' = FillB(prog, <<c>>, 1, FALSE)
             \/ n < MaxNodes /\ prog' = FillB(prog, <<Hole, Hole>>, 1, FALSE)          \* one more statement in this block
          /\ UNCHANGED fin
Finish == ~fin /\ ~HasHoleB(prog) /\ fin' = TRUE /\ UNCHANGED prog
Next == Expand \/ Finish
Spec == Init /\ [][Next]_vars

\* ---------------------------------------------------------------- theorems
Agree == fin => ImplTop(prog) = RefTop(prog)
\* nothing escapes as the VALUE of a statement: the value of a call is never a wrapper object (the enclosing block
\* would take it for its own return / break), the value of a loop is a list
RECURSIVE ContainedB(_, _)
ContainedS(s, idx) ==
  CASE s.t = "call" -> ~IsW(ImplStmt([s EXCEPT !.e = TRUE], idx)) /\ ContainedB(s.b, -1)
    [] s.t = "loop" -> ImplStmt([s EXCEPT !.e = TRUE], idx).t = "list" /\ ContainedB(s.b, 0) /\ ContainedB(s.b, 1)
    [] s.t = "if"   -> ContainedB(s.b, idx)
    [] OTHER -> TRUE
ContainedB(b, idx) == \A k \in 1..Len(b) : ContainedS(b[k], idx)
Contained == fin => ContainedB(prog, -1)

RECURSIVE PiecesText(_)
PiecesText(ps) == IF ps = <<>> THEN <<>> ELSE Head(ps).s \o PiecesText(Tail(ps))
Sem == Run(Template(prog), WithHelpers(EmptyScope), EmptyScope, "")
AgreeSem == fin => (Sem.k = "out" /\ PiecesText(Sem.pieces) = RefTop(prog))

RECURSIVE ShapeB(_)
ShapeS(s) == CASE s.t \in {"if", "loop", "call"} -> s.t \o (IF s.e THEN "=" ELSE "") \o (IF s.t = "if" THEN s.c ELSE "") \o "(" \o ShapeB(s.b) \o ")"
               [] s.t \in {"out", "txt", "ret"} -> s.t \o s.a
               [] OTHER -> s.t
ShapeB(b) == IF b = <<>> THEN "" ELSE ShapeS(Head(b)) \o (IF Len(b) > 1 THEN "," ELSE "") \o ShapeB(Tail(b))

EmitCase == ~fin \/
            PrintT("CASE " \o ToJson([gen |-> "EvalCtl", src |-> Unparse(Template(prog)), data |-> EmptyScope,
                                       shape |-> ShapeB(prog),
                                       expect |-> [k |-> "out", pieces |-> <<[k |-> "esc", s |-> RefTop(prog)]>>, log |-> <<>>]]))
=============================================================================
