---------------------------- MODULE PlushValues ----------------------------
(***************************************************************************)
(* Layer A -- the value universe of the plush reference semantics.         *)
(*                                                                         *)
(* Text is a sequence of CHARACTER NAMES: one-character strings for        *)
(* harmless characters and upper-case names for everything that would      *)
(* need quoting on the way TLC -> JSON -> Go ("LT" "GT" "AMP" "APOS"       *)
(* "QUOT" "BSL" "PCT" "NL" ...).  The harness only decodes names to bytes. *)
(*                                                                         *)
(* "str" is untrusted data (a Go string); "html" is trusted HTML           *)
(* (template.HTML, HTMLer, raw(), literal template text, rendered blocks   *)
(* and partials).                                                          *)
(***************************************************************************)
EXTENDS Integers, Sequences, FiniteSets, TLC

Nil       == [t |-> "nil"]
I(n)      == [t |-> "int", n |-> n]
B(b)      == [t |-> "bool", b |-> b]
S(s)      == [t |-> "str", s |-> s]
H(s)      == [t |-> "html", s |-> s]
A(xs)     == [t |-> "arr", xs |-> xs]
M(m)      == [t |-> "map", m |-> m]                 \* m: function string -> value (map[string]interface{})
Fn(ps, b) == [t |-> "fn", ps |-> ps, body |-> b]    \* user function: parameter names, body statements
Go(n)     == [t |-> "gofn", name |-> n]             \* a Go helper with a specified meaning (PlushSem.CallGo)
Iter(xs)  == [t |-> "iter", xs |-> xs]              \* an Iterator that yields xs
Chunks(cs) == [t |-> "chunks", cs |-> cs]           \* the value of a block: list of produced values
Perm(alts) == [t |-> "perm", alts |-> alts]         \* produced by a loop over a map: any order of alts

\* a Go value of some other kind, materialised by the harness from its kind name; the specification
\* defines only what the properties say about it (truthiness, not being iterable / indexable ...)
Opq(kind)  == [t |-> "opq", kind |-> kind]
NilPointerKinds == {"nilptr_struct", "nilptr_int"}
OpaqueKinds == NilPointerKinds \cup {"ptr_struct", "ptr_int", "struct", "nil_slice", "empty_slice", "nil_map", "empty_map",
                                     "int8_zero", "uint_zero", "float32_zero", "int64_one", "time", "func", "empty_array", "slice_str",
                                     \* non-nil pointers to falsy values: the POINTER is tested, and it is not nil
                                     "ptr_false", "ptr_empty_string", "ptr_empty_html",
                                     \* non-nil values with an Interface() method (printed as what it returns) that returns nil / false / "":
                                     \* the VALUE is tested, and it is not nil
                                     "holder_nil", "holder_false", "holder_empty_string"}

\* opaque kinds a for loop visits zero times (empty or nil collections)
EmptyIterKinds == {"nil_slice", "empty_slice", "nil_map", "empty_map", "empty_array"}
\* arrays that stand for a typed Go slice / array in context data ("strs" = []string, "ints" = []int, "array" = [n]int)
AT(xs, go) == [t |-> "arr", xs |-> xs, go |-> go]

\* a Go struct value with the given fields (the harness has one struct type with these field names)
Rec(f) == [t |-> "rec", f |-> f, m |-> [x \in {} |-> Nil]]
\* ... with methods: m maps a method name to the value a call returns
RecM(f, m) == [t |-> "rec", f |-> f, m |-> m]
\* trusted HTML supplied through the HTMLer interface instead of template.HTML
HTMLer(s) == [t |-> "html", s |-> s, go |-> "htmler"]

\* ---- floats: exact dyadic rationals num / 2^exp (all of them are exact float64 values)
RECURSIVE Pow2(_)
Pow2(e) == IF e = 0 THEN 1 ELSE 2 * Pow2(e - 1)
RECURSIVE NormF(_, _)
NormF(num, exp) == IF exp > 0 /\ num % 2 = 0 THEN NormF(num \div 2, exp - 1) ELSE [t |-> "flt", num |-> num, exp |-> exp]
F(num, exp) == NormF(num, exp)
Abs(n) == IF n < 0 THEN -n ELSE n
MaxE(a, b) == IF a > b THEN a ELSE b
\* numerators at a common exponent
FNum(f, e) == f.num * Pow2(e - f.exp)
FAdd(a, b) == LET e == MaxE(a.exp, b.exp) IN F(FNum(a, e) + FNum(b, e), e)
FSub(a, b) == LET e == MaxE(a.exp, b.exp) IN F(FNum(a, e) - FNum(b, e), e)
FMul(a, b) == F(a.num * b.num, a.exp + b.exp)
FLt(a, b)  == LET e == MaxE(a.exp, b.exp) IN FNum(a, e) < FNum(b, e)
\* TLC's integers are 32 bit: operations whose exact result this model cannot carry are left unspecified
Lim == 1073741824
AlignSafe(a, b) == LET e == MaxE(a.exp, b.exp) IN e <= 20 /\ Abs(a.num) < Lim \div Pow2(e - a.exp) /\ Abs(b.num) < Lim \div Pow2(e - b.exp)
AddSafe(a, b)   == LET e == MaxE(a.exp, b.exp) IN e <= 20 /\ Abs(a.num) < (Lim \div 2) \div Pow2(e - a.exp) /\ Abs(b.num) < (Lim \div 2) \div Pow2(e - b.exp)
MulSafe(a, b)   == a.exp + b.exp <= 20 /\ (a.num = 0 \/ Abs(b.num) <= Lim \div Abs(a.num))
FEq(a, b)  == a = b                                  \* normal forms are unique
IsPow2(n)  == n \in {1, 2, 4, 8, 16, 32, 64}
Log2(n)    == CHOOSE j \in 0..6 : Pow2(j) = n
\* a / b for b = +-2^j / 2^e : exact
FDivExact(b) == b.num # 0 /\ IsPow2(Abs(b.num))
DivSafe(a, b)  == b.exp <= 20 /\ Abs(a.num) < Lim \div Pow2(b.exp) /\ a.exp + 6 <= 20
FDiv(a, b) == LET s == IF b.num < 0 THEN -1 ELSE 1
                  j == Log2(Abs(b.num))
              IN F(s * a.num * Pow2(b.exp), a.exp + j)

\* ---- printing numbers as character sequences
Digit(d) == CASE d = 0 -> "0" [] d = 1 -> "1" [] d = 2 -> "2" [] d = 3 -> "3" [] d = 4 -> "4"
              [] d = 5 -> "5" [] d = 6 -> "6" [] d = 7 -> "7" [] d = 8 -> "8" [] d = 9 -> "9"
RECURSIVE NatChars(_)
NatChars(n) == IF n < 10 THEN <<Digit(n)>> ELSE Append(NatChars(n \div 10), Digit(n % 10))
\* (2^31 - 1 stands for the largest int of the implementation, which prints as itself)
IntChars(n) == IF n = 2147483647 THEN <<"9","2","2","3","3","7","2","0","3","6","8","5","4","7","7","5","8","0","7">>
               ELSE IF n < 0 THEN <<"-">> \o NatChars(-n) ELSE NatChars(n)
RECURSIVE FracChars(_, _)
FracChars(fr, den) == IF fr = 0 THEN <<>> ELSE <<Digit((fr * 10) \div den)>> \o FracChars((fr * 10) % den, den)
\* plain decimal form (how a float literal is spelled in a template)
PlainFloatChars(f) == LET den == Pow2(f.exp)
                          a   == Abs(f.num)
                          ip  == a \div den
                          fr  == a % den
                      IN (IF f.num < 0 THEN <<"-">> ELSE <<>>) \o NatChars(ip) \o (IF fr = 0 THEN <<>> ELSE <<".">> \o FracChars(fr, den))
\* Go prints float64 with %v: the shortest decimal that reads back as the same float, in plain form when
\* the decimal exponent X satisfies -4 <= X < 6, otherwise as d.ddde+XX / d.ddde-XX.  For the dyadic
\* rationals of this model with at most 15 significant digits the shortest decimal is the exact one.
RECURSIVE StripTrailingZeros(_), LeadingZeros(_)
StripTrailingZeros(ds) == IF ds # <<>> /\ ds[Len(ds)] = "0" THEN StripTrailingZeros(SubSeq(ds, 1, Len(ds) - 1)) ELSE ds
LeadingZeros(ds) == IF ds # <<>> /\ Head(ds) = "0" THEN 1 + LeadingZeros(Tail(ds)) ELSE 0
ExpChars(x) == (IF x < 0 THEN <<"e", "-">> ELSE <<"e", "+">>) \o (IF Abs(x) < 10 THEN <<"0">> ELSE <<>>) \o NatChars(Abs(x))
Mantissa(ds) == LET sig == StripTrailingZeros(ds) IN IF Len(sig) <= 1 THEN sig ELSE <<Head(sig), ".">> \o Tail(sig)
FloatChars(f) == LET den == Pow2(f.exp)
                     a   == Abs(f.num)
                     ip  == a \div den
                     fr  == a % den
                     sgn == IF f.num < 0 THEN <<"-">> ELSE <<>>
                 IN IF a = 0 THEN <<"0">>
                    ELSE IF ip >= 1000000 THEN                                  \* X >= 6
                         sgn \o Mantissa(NatChars(ip) \o FracChars(fr, den)) \o ExpChars(Len(NatChars(ip)) - 1)
                    ELSE IF ip = 0 /\ fr <= (den - 1) \div 10000 THEN               \* X < -4
                         LET fd == FracChars(fr, den) z == LeadingZeros(fd) IN
                         sgn \o Mantissa(SubSeq(fd, z + 1, Len(fd))) \o ExpChars(-(z + 1))
                    ELSE PlainFloatChars(f)
FloatPrintable(f) == f.exp + Len(NatChars(Abs(f.num) \div Pow2(f.exp))) <= 15

\* ---- truthiness (C07): nil, false, "", empty HTML are falsy; everything else is truthy
Truthy(v) == CASE v.t = "nil"  -> FALSE
               [] v.t = "bool" -> v.b
               [] v.t \in {"str", "html"} -> v.s # <<>>
               [] v.t = "opq"  -> v.kind \notin NilPointerKinds
               [] OTHER -> TRUE

\* ---- byte order of the characters for which the model defines string comparison
Ordered == <<"0","1","2","3","4","5","6","7","8","9","a","b","c","d","e","f","g","h","i","j","k","l","m",
             "n","o","p","q","r","s","t","u","v","w","x","y","z">>
OrdSet == {Ordered[i] : i \in 1..Len(Ordered)}
Ord(c) == CHOOSE i \in 1..Len(Ordered) : Ordered[i] = c
AllOrdered(s) == \A i \in 1..Len(s) : s[i] \in OrdSet
RECURSIVE StrLt(_, _)
StrLt(a, b) == IF b = <<>> THEN FALSE
               ELSE IF a = <<>> THEN TRUE
               ELSE IF Ord(Head(a)) < Ord(Head(b)) THEN TRUE
               ELSE IF Ord(Head(a)) > Ord(Head(b)) THEN FALSE
               ELSE StrLt(Tail(a), Tail(b))
IsPrefixOf(p, s) == Len(p) <= Len(s) /\ SubSeq(s, 1, Len(p)) = p
Contains(s, p) == \E i \in 0..(Len(s) - Len(p)) : SubSeq(s, i + 1, i + Len(p)) = p
\* a pattern of plain characters and dots (a dot stands for any ONE character; the subjects here hold no line breaks)
DotPattern(p) == \A i \in 1..Len(p) : p[i] \in OrdSet \cup {"."}
MatchesDots(s, p) == \E i \in 0..(Len(s) - Len(p)) : \A j \in 1..Len(p) : p[j] = "." \/ s[i + j] = p[j]

\* characters that are one byte long (len() of a Go string counts bytes)
OneByte(c) == c \notin {"EACUTE", "CJK", "COMB", "MB"}

\* template.JSEscapeString per character (what a partial's text becomes inside a javascript response)
JsEscChar(c) == CASE c = "LT" -> <<"BSL","u","0","0","3","C">> [] c = "GT" -> <<"BSL","u","0","0","3","E">>
                  [] c = "AMP" -> <<"BSL","u","0","0","2","6">> [] c = "EQ" -> <<"BSL","u","0","0","3","D">> [] c = "=" -> <<"BSL","u","0","0","3","D">>
                  [] c = "<" -> <<"BSL","u","0","0","3","C">> [] c = ">" -> <<"BSL","u","0","0","3","E">>
                  [] c = "APOS" -> <<"BSL","APOS">> [] c = "QUOT" -> <<"BSL","QUOT">> [] c = "BSL" -> <<"BSL","BSL">>
                  [] c = "NL" -> <<"BSL","u","0","0","0","A">> [] c = "CR" -> <<"BSL","u","0","0","0","D">> [] c = "TAB" -> <<"BSL","u","0","0","0","9">>
                  [] OTHER -> <<c>>
RECURSIVE Flat(_)
Flat(ss) == IF ss = <<>> THEN <<>> ELSE Head(ss) \o Flat(Tail(ss))
JsEscapeChars(s) == Flat([i \in 1..Len(s) |-> JsEscChar(s[i])])
\* the extension of a file name given as characters: "" | ".js" | ".html" ...
RECURSIVE LastDot(_, _)
\* (of the last path element only: a dot in a directory name is not an extension)
LastDot(s, i) == IF i = 0 \/ s[i] = "/" THEN 0 ELSE IF s[i] = "." THEN i ELSE LastDot(s, i - 1)
ExtOf(s) == LET d == LastDot(s, Len(s)) IN IF d = 0 THEN <<>> ELSE SubSeq(s, d, Len(s))
=============================================================================
