------------------------------ MODULE GenLoops ------------------------------
(***************************************************************************)
(* Generator machine for C08: iterable kinds and lengths x loop bodies     *)
(* assembled statement by statement from a pool of building blocks         *)
(* (emit value / key / text, if+break, if+continue with and without text   *)
(* before the control statement, nested loop, function literal, return).   *)
(* The reference semantics gives the expected output; for bodies without   *)
(* control flow the loop is also UNROLLED (a program transformation) and   *)
(* TLC checks that loop and unrolled program mean the same.                *)
(***************************************************************************)
EXTENDS Unparse, Json

CONSTANT MaxLen       \* statements per loop body

E11 == I(11)
Ints(n) == [i \in 1..n |-> I(11 * i)]
IntLits(n) == [i \in 1..n |-> IntL(11 * i)]

\* [n: name, e: iterable expression, data: context data, xs: the elements in visiting order (for the
\*  trigger of break/continue and for unrolling), keys: the keys, kind]
Iterables ==
  { [n |-> "lit" \o ToString(n), e |-> Arr(IntLits(n)), data |-> EmptyScope, xs |-> Ints(n), kind |-> "seq"] : n \in 0..3 }
  \cup
  { [n |-> "slice_any", e |-> Id("xs"), data |-> [xs |-> A(Ints(2))], xs |-> Ints(2), kind |-> "seq"],
    [n |-> "slice_any3", e |-> Id("xs"), data |-> [xs |-> A(Ints(3))], xs |-> Ints(3), kind |-> "seq"],
    [n |-> "slice_int", e |-> Id("xs"), data |-> [xs |-> AT(Ints(3), "ints")], xs |-> Ints(3), kind |-> "seq"],
    [n |-> "array_int", e |-> Id("xs"), data |-> [xs |-> AT(Ints(2), "array")], xs |-> Ints(2), kind |-> "seq"],
    [n |-> "slice_str", e |-> Id("xs"), data |-> [xs |-> AT(<<S(<<"p">>), S(<<"q">>)>>, "strs")], xs |-> <<S(<<"p">>), S(<<"q">>)>>, kind |-> "seq"],
    \* collections with a nil element after a non-nil one (the value name of that iteration is bound to nil)
    [n |-> "lit_nil", e |-> Arr(<<IntL(11), Id("nil"), IntL(33)>>), data |-> EmptyScope, xs |-> <<I(11), I(33), I(33)>>, kind |-> "seqnil"],
    [n |-> "slice_nil", e |-> Id("xs"), data |-> [xs |-> A(<<I(11), Nil, I(33)>>)], xs |-> <<I(11), I(33), I(33)>>, kind |-> "seqnil"],
    [n |-> "range", e |-> Call("range", <<IntL(3), IntL(5)>>), data |-> EmptyScope, xs |-> <<I(3), I(4), I(5)>>, kind |-> "seq"],
    \* an open-ended interval (up to the largest int), left with break
    [n |-> "range_open", e |-> Call("range", <<IntL(3), MaxIntLit>>), data |-> EmptyScope, xs |-> <<I(3), I(4), I(5)>>, kind |-> "seq"],
    [n |-> "range_empty", e |-> Call("range", <<IntL(3), IntL(2)>>), data |-> EmptyScope, xs |-> <<>>, kind |-> "seq"],
    [n |-> "between", e |-> Call("between", <<IntL(0), IntL(3)>>), data |-> EmptyScope, xs |-> <<I(1), I(2)>>, kind |-> "seq"],
    [n |-> "until", e |-> Call("until", <<IntL(2)>>), data |-> EmptyScope, xs |-> <<I(0), I(1)>>, kind |-> "seq"],
    [n |-> "iterator", e |-> Id("xs"), data |-> [xs |-> Iter(Ints(3))], xs |-> Ints(3), kind |-> "seq"],
    [n |-> "map1", e |-> Id("xs"), data |-> [xs |-> M([a |-> I(11)])], xs |-> Ints(1), kind |-> "map"],
    \* a Go map[float64]string whose keys are all NaN (an entry that cannot be looked up by its key is still an entry);
    \* the model only knows two entries with values x and y: the key is not printed
    [n |-> "map_nan", e |-> Id("xs"), data |-> [xs |-> [t |-> "map", m |-> [a |-> S(<<"x">>), b |-> S(<<"y">>)], go |-> "nanmap"]], xs |-> <<S(<<"x">>), S(<<"y">>)>>, kind |-> "map"],
    [n |-> "hash1", e |-> Hash(<<"a">>, IntLits(1)), data |-> EmptyScope, xs |-> Ints(1), kind |-> "map"],
    [n |-> "map2", e |-> Id("xs"), data |-> [xs |-> M([a |-> I(11), b |-> I(22)])], xs |-> Ints(2), kind |-> "map"],
    [n |-> "hash2", e |-> Hash(<<"a", "b">>, IntLits(2)), data |-> EmptyScope, xs |-> Ints(2), kind |-> "map"],
    [n |-> "nil", e |-> Id("nil"), data |-> EmptyScope, xs |-> <<>>, kind |-> "nil"],
    [n |-> "nil_result", e |-> Call("id", <<Id("nil")>>), data |-> EmptyScope, xs |-> <<>>, kind |-> "nil"],
    [n |-> "missing_key", e |-> Idx(Id("xs"), Str(<<"c">>)), data |-> [xs |-> M([a |-> I(11)])], xs |-> <<>>, kind |-> "nil"],
    [n |-> "nil_slice", e |-> Id("xs"), data |-> [xs |-> Opq("nil_slice")], xs |-> <<>>, kind |-> "nil"],
    [n |-> "nil_map", e |-> Id("xs"), data |-> [xs |-> Opq("nil_map")], xs |-> <<>>, kind |-> "nil"],
    [n |-> "int", e |-> IntL(5), data |-> EmptyScope, xs |-> <<>>, kind |-> "bad"],
    [n |-> "string", e |-> Str(<<"a", "b">>), data |-> EmptyScope, xs |-> <<>>, kind |-> "bad"],
    [n |-> "bool", e |-> Bool(TRUE), data |-> EmptyScope, xs |-> <<>>, kind |-> "bad"],
    [n |-> "struct", e |-> Id("xs"), data |-> [xs |-> Opq("struct")], xs |-> <<>>, kind |-> "bad"],
    [n |-> "ptr_struct", e |-> Id("xs"), data |-> [xs |-> Opq("ptr_struct")], xs |-> <<>>, kind |-> "bad"],
    [n |-> "func", e |-> Id("xs"), data |-> [xs |-> Opq("func")], xs |-> <<>>, kind |-> "bad"] }

\* the element that triggers break / continue / return: the second one (the first if there is only one)
Trigger(it) == IF Len(it.xs) >= 2 THEN it.xs[2] ELSE IF Len(it.xs) = 1 THEN it.xs[1] ELSE I(0)
LitOf(v) == IF v.t = "int" THEN IntL(v.n) ELSE Str(v.s)
IsTrig(it) == Bin("==", Id("v"), LitOf(Trigger(it)))

\* building blocks of loop bodies
Blocks(it) ==
  [ ev   |-> Emit(Id("v")),
    ek   |-> Emit(Id("k")),
    txt  |-> Text(<<",">>),
    brk  |-> Code(If(IsTrig(it), <<Code(Brk)>>)),
    tbrk |-> Code(If(IsTrig(it), <<Text(<<"B">>), Code(Brk)>>)),
    cnt  |-> Code(If(IsTrig(it), <<Code(Cnt)>>)),
    tcnt |-> Code(If(IsTrig(it), <<Text(<<"C">>), Code(Cnt)>>)),
    ebrk |-> Code(IfElse(IsTrig(it), <<Code(Brk)>>, <<Text(<<"e">>)>>)),
    nest |-> Emit(For("", "w", Arr(<<IntL(7), IntL(8)>>), <<Emit(Id("w"))>>)),
    nbrk |-> Emit(For("", "w", Arr(<<IntL(7), IntL(8)>>), <<Code(If(Bin("==", Id("w"), IntL(8)), <<Code(Brk)>>)), Emit(Id("w"))>>)),
    \* inner loops that reuse the outer loop's variable names (over an iterator, an array, nil): the outer
    \* names must read as before once the inner loop has ended
    nsit |-> Emit(For("k", "v", Call("range", <<IntL(7), IntL(8)>>), <<Emit(Id("v"))>>)),
    nsar |-> Emit(For("k", "v", Arr(<<IntL(7), IntL(8)>>), <<Emit(Id("v"))>>)),
    nsnil |-> Emit(For("k", "v", Id("nil"), <<Emit(Id("v"))>>)),
    \* the value where it is tolerated to be nil
    evt  |-> Emit(IfElse(Id("v"), <<Text(<<"+">>)>>, <<Text(<<"-">>)>>)),
    fnl  |-> Let("g", FnLit(<<>>, <<Text(<<"x">>)>>)),
    ret  |-> Code(If(IsTrig(it), <<Ret(Str(<<"R">>))>>)) ]
BlockNames == {"evt", "ev", "ek", "txt", "brk", "tbrk", "cnt", "tcnt", "ebrk", "nest", "nbrk", "nsit", "nsar", "nsnil", "fnl", "ret"}
ControlFree == {"evt", "ev", "ek", "txt", "nest", "nsit", "nsar", "nsnil", "fnl"}

VARIABLES it, names, res
vars == <<it, names, res>>

Body == [i \in 1..Len(names) |-> Blocks(it)[names[i]]]
Loop == For("k", "v", it.e, Body)
Prog == <<Text(<<"<">>), Emit(Loop), Text(<<">">>)>>

\* unrolled: the body once per element with the loop variables bound by let
KeyOf(i) == IF it.kind = "map" THEN Str(<<"?">>) ELSE IntL(i - 1)
Unrolled == <<Text(<<"<">>)>> \o Flat([i \in 1..Len(it.xs) |-> <<Let("k", KeyOf(i)), Let("v", LitOf(it.xs[i]))>> \o Body]) \o <<Text(<<">">>)>>
CanUnroll == it.kind = "seq" /\ \A i \in 1..Len(names) : names[i] \in ControlFree

Init == /\ it \in Iterables /\ names = <<>> /\ res = [k |-> "none"]
AddStmt == /\ res.k = "none" /\ Len(names) < MaxLen
           /\ \E b \in BlockNames : (it.n = "map_nan" => b # "ek") /\ names' = Append(names, b)
           /\ UNCHANGED <<it, res>>
\* (a body may be empty: the loop still looks at its iterable)
Finish == /\ res.k = "none"
          /\ (it.n = "range_open" => (names # <<>> /\ names[1] \in {"brk", "tbrk", "ebrk"}))      \* (the loop must end)
          /\ res' = Run(Prog, WithHelpers(it.data), EmptyScope, "")
          /\ UNCHANGED <<it, names>>
Next == AddStmt \/ Finish
Spec == Init /\ [][Next]_vars

\* ---- theorems
\* loop = unrolled loop (bodies without control flow)
UnrollTheorem == (res.k # "none" /\ CanUnroll) =>
                    LET u == Run(Unrolled, WithHelpers(it.data), EmptyScope, "") IN
                    u.k = res.k /\ (u.k = "out" => u.pieces = res.pieces)
\* nil renders nothing; a non-iterable is an error; scopes balanced
KindTheorem == res.k # "none" =>
                 /\ (it.kind = "nil" => res.k = "out" /\ res.pieces = <<[k |-> "raw", s |-> <<"<">>], [k |-> "raw", s |-> <<">">>]>>)
                 /\ (it.kind = "bad" => res.k = "err")
                 /\ (res.k # "unspec" => res.depth = 1)

Expect(r) == CASE r.k = "out" -> [k |-> "out", pieces |-> r.pieces, log |-> r.log]
               [] r.k = "err" -> [k |-> "err", w |-> r.w, log |-> r.log]
               [] OTHER       -> [k |-> "unspec"]
RECURSIVE JoinNames(_)
JoinNames(ns) == IF ns = <<>> THEN "" ELSE Head(ns) \o (IF Len(ns) > 1 THEN "," ELSE "") \o JoinNames(Tail(ns))

EmitOnce ==
            PrintT("CASE " \o ToJson([gen |-> "GenLoops",
                                       srcs |-> IF CanUnroll THEN [loop |-> Unparse(Prog), unrolled |-> Unparse(Unrolled)] ELSE [loop |-> Unparse(Prog)],
                                       data |-> it.data, shape |-> it.n \o ":" \o JoinNames(names), expect |-> Expect(res)]))
            \* the same program twice in a row in one template: nothing of the first run may show in the second
EmitTwice == it.n = "iterator" \/      \* (an Iterator supplied as data is used up by the first loop)
            PrintT("CASE " \o ToJson([gen |-> "GenLoops", srcs |-> [twice |-> Unparse(Prog \o Prog)],
                                       data |-> it.data, shape |-> it.n \o ":" \o JoinNames(names) \o ":twice",
                                       expect |-> Expect(Run(Prog \o Prog, WithHelpers(it.data), EmptyScope, ""))]))
\* ---- the iterator protocol: an Iterator is a stateful source; a loop takes from it exactly the values it visits.  An iterator
\* that outlives its loop (bound by let, or context data) and is looped over again continues where the first loop stopped.
\* (Layer A's values are immutable, so these programs carry their expected text directly: it is what "visit what Next yields
\* until it yields nil; break stops asking" means.)
Raw(cs) == [k |-> "out", pieces |-> <<[k |-> "raw", s |-> cs]>>, log |-> <<>>]
BrkAt(n) == Code(If(Bin("==", Id("v"), IntL(n)), <<Code(Brk)>>))
Protocol ==
  << [n |-> "reuse_after_break", data |-> EmptyScope, want |-> <<"[", "1", "]", "[", "2", "]", "|", "3", "4", "5", "6">>,
      prog |-> <<Let("r", Call("range", <<IntL(1), IntL(6)>>)), Emit(For("", "v", Id("r"), <<Text(<<"[">>), Emit(Id("v")), Text(<<"]">>), BrkAt(2)>>)), Text(<<"|">>),
                 Emit(For("", "v", Id("r"), <<Emit(Id("v"))>>))>>],
     [n |-> "nested_same_iterator", data |-> EmptyScope, want |-> <<"[", "1", ":", "2", "3", "]", "[", "4", ":", "5", "]">>,
      prog |-> <<Let("r", Call("range", <<IntL(1), IntL(5)>>)),
                 Emit(For("", "w", Id("r"), <<Text(<<"[">>), Emit(Id("w")), Text(<<":">>), Emit(For("", "v", Id("r"), <<Emit(Id("v")), BrkAt(3)>>)), Text(<<"]">>)>>))>>],
     [n |-> "data_iterator_after_break", data |-> [xs |-> Iter(Ints(3))], want |-> <<"1", "1", "|", "2", "2", "3", "3">>,
      prog |-> <<Emit(For("", "v", Id("xs"), <<Emit(Id("v")), BrkAt(11)>>)), Text(<<"|">>), Emit(For("", "v", Id("xs"), <<Emit(Id("v"))>>))>>],
     \* a Go map with int keys: the key name is bound to the KEY (an int: it can be computed with, compared, used as an index again)
     [n |-> "int_keyed_map", data |-> [xs |-> [t |-> "imap", m |-> [one |-> I(7)]]], want |-> <<"2", ":", "7", ";", "t", "r", "u", "e", ";", "7">>,
      prog |-> <<Emit(For("k", "v", Id("xs"), <<Emit(Bin("+", Id("k"), IntL(1))), Text(<<":">>), Emit(Id("v")), Text(<<";">>), Emit(Bin(">", Id("k"), IntL(0))), Text(<<";">>), Emit(Idx(Id("xs"), Id("k")))>>))>>],
     \* the blank identifier as the second name: the first one is still the key / the index
     [n |-> "blank_value_name", data |-> [xs |-> M([a |-> I(11)])], want |-> <<"[", "a", "]", "|", "[", "0", "]", "[", "1", "]">>,
      prog |-> <<Emit(For("k", "_", Id("xs"), <<Text(<<"[">>), Emit(Id("k")), Text(<<"]">>)>>)), Text(<<"|">>),
                 Emit(For("i", "_", Arr(<<Str(<<"p">>), Str(<<"q">>)>>), <<Text(<<"[">>), Emit(Id("i")), Text(<<"]">>)>>))>>],
     \* a Go slice whose element type is a defined type: the loop variable is an element, with its type (trusted HTML stays trusted)
     [n |-> "typed_elements", data |-> [xs |-> AT(<<H(<<"LT", "b", "GT">>), H(<<"LT", "i", "GT">>)>>, "htmls")], want |-> <<"LT", "b", "GT", "|", "LT", "i", "GT", "|">>,
      prog |-> <<Emit(For("", "v", Id("xs"), <<Emit(Id("v")), Text(<<"|">>)>>))>>],
     [n |-> "continue_takes_next", data |-> EmptyScope, want |-> <<"1", "3", "|">>,
      prog |-> <<Let("r", Call("until", <<IntL(4)>>)), Emit(For("", "v", Id("r"), <<Code(If(Bin("==", Id("v"), IntL(0)), <<Code(Cnt)>>)), Code(If(Bin("==", Id("v"), IntL(2)), <<Code(Cnt)>>)), Emit(Id("v"))>>)), Text(<<"|">>),
                 Emit(For("", "v", Id("r"), <<Emit(Id("v"))>>))>>] >>
EmitProtocol == ~(it.n = "lit0" /\ names = <<>> /\ res.k = "none") \/
                \A i \in 1..Len(Protocol) :
                   PrintT("CASE " \o ToJson([gen |-> "GenLoops", srcs |-> [loop |-> Unparse(Protocol[i].prog)], data |-> Protocol[i].data,
                                              shape |-> "protocol:" \o Protocol[i].n, expect |-> Raw(Protocol[i].want)]))
EmitCase == (res.k = "none" \/ (EmitOnce /\ EmitTwice)) /\ EmitProtocol
=============================================================================
