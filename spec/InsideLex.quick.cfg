SPECIFICATION Spec
CONSTANTS
  K = 3
  Mode = "chars"
  EmitCases = TRUE
INVARIANTS Total Emit
CHECK_DEADLOCK FALSE
