CONSTANTS
  K = 6
  AsBuilt = FALSE
  EmitCases = TRUE
SPECIFICATION Spec
INVARIANTS Agree Identity Emit
CHECK_DEADLOCK FALSE
