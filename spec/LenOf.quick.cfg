CONSTANTS
  MaxN = 3
  ZeroShortcut = FALSE
  EmitCases = TRUE
SPECIFICATION Spec
INVARIANTS Agree Emit
CHECK_DEADLOCK FALSE
