CONSTANTS
  K = 6
  Vocabulary = "paths"
SPECIFICATION Spec
INVARIANT Emit
CHECK_DEADLOCK FALSE
