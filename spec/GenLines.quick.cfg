CONSTANTS
  MaxPre = 1
SPECIFICATION Spec
INVARIANTS ErrTheorem ShiftTheorem EmitCase
CHECK_DEADLOCK FALSE
