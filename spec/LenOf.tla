------------------------------- MODULE LenOf -------------------------------
(***************************************************************************)
(* Layer B machine of the len helper (helpers/meta/len.go) over abstract   *)
(* Go values, with the declarative reading of C19 next to it:              *)
(*   "len(x) is the Go length of a string, slice, array, map or pointer    *)
(*    to one".                                                             *)
(* A value is [kind, n, fill, ptr, nilbase, nilptr]:                       *)
(*   kind     string | slice | array | map | int | struct | untyped_nil    *)
(*   n        number of bytes / elements / entries                         *)
(*   fill     "zero": every element is the zero value of its type (a       *)
(*            string of NUL bytes, a map of zero values), "nonzero"        *)
(*   ptr      levels of pointers around the base value (0..2)              *)
(*   nilbase  the slice / map itself is nil (n = 0)                        *)
(*   nilptr   the outermost pointer is nil (ptr >= 1)                      *)
(*   meth     the type is a defined type with a String() method            *)
(* The decision procedure is transcribed branch by branch.  Deviation      *)
(* switch ZeroShortcut = TRUE models a "nothing there" shortcut            *)
(* (`!rv.IsValid() || rv.IsZero()` => 0): TLC refutes Agree for it with an *)
(* array of zeros.                                                         *)
(***************************************************************************)
EXTENDS Integers, Sequences, TLC, Json

CONSTANTS MaxN, ZeroShortcut, EmitCases

Lengthy == {"string", "slice", "array", "map"}
Kinds   == Lengthy \cup {"int", "struct", "untyped_nil"}

VARIABLE v
vars == <<v>>

\* meth: the value's type is a DEFINED type with a String() method (net.IP, a list of tags that prints itself): it still has
\* the length of the string / slice / map it is
Values == { x \in [kind : Kinds, n : 0..MaxN, fill : {"zero", "nonzero"}, ptr : 0..2, nilbase : BOOLEAN, nilptr : BOOLEAN, meth : BOOLEAN] :
              /\ (x.meth => x.kind \in {"string", "slice", "map"})
              /\ (x.nilbase => x.kind \in {"slice", "map"} /\ x.n = 0)
              /\ (x.nilptr => x.ptr >= 1 /\ x.n = 0 /\ ~x.nilbase)
              /\ (x.kind \in {"int", "struct", "untyped_nil"} => x.n = 0 /\ x.fill = "zero")
              /\ (x.kind = "untyped_nil" => x.ptr = 0)
              /\ (x.n = 0 => x.fill = "zero") }

Init == v \in Values
Spec == Init /\ [][UNCHANGED v]_vars

\* reflect.Value.IsZero of the value reached after the pointer step
IsZeroBase == CASE v.kind = "string" -> v.n = 0
                [] v.kind = "slice"  -> v.nilbase
                [] v.kind = "map"    -> v.nilbase
                [] v.kind = "array"  -> v.fill = "zero"
                [] OTHER             -> TRUE

\* ---- the code
Impl ==
  IF v.kind = "untyped_nil" THEN 0                                \* if v == nil { return 0 }
  ELSE IF v.ptr >= 1 /\ v.nilptr THEN 0                           \* rv.Elem() of a nil pointer is invalid: no length
  ELSE IF v.ptr = 2 THEN 0                                        \* one Elem(): still a pointer, no length
  ELSE IF ZeroShortcut /\ IsZeroBase THEN 0
  ELSE IF v.kind \in Lengthy THEN v.n                             \* rv.Len()
  ELSE 0

\* ---- the statement
Specified == v.kind \in Lengthy /\ v.ptr <= 1 /\ ~v.nilptr
Want      == v.n
Agree     == Specified => Impl = Want

Emit == ~EmitCases \/ PrintT("CASE " \o ToJson([gen |-> "LenOf", v |-> v, specified |-> Specified, want |-> Want, impl |-> Impl]))
=============================================================================
