SPECIFICATION Spec
CONSTANTS
  K = 6
  Mode = "words"
  EmitCases = TRUE
INVARIANTS LayoutInsensitive Emit
CHECK_DEADLOCK FALSE
