CONSTANTS
  MaxOps = 2
  Pool = "small"
  MinSize = 0
SPECIFICATION Spec
INVARIANTS EmitCase ParenSound ResultShape
CHECK_DEADLOCK FALSE
