CONSTANTS
  MaxSteps = 2
SPECIFICATION Spec
INVARIANTS TaintTheorem EmitCase
CHECK_DEADLOCK FALSE
