CONSTANTS
  MaxItems = 1
SPECIFICATION Spec
INVARIANTS InlineTheorem FrameTheorem EmitCase
CHECK_DEADLOCK FALSE
