----------------------------- MODULE ContextMC -----------------------------
(***************************************************************************)
(* Bounded exploration of Context.tla: every history of NewChild/Set over  *)
(* a tree of up to MaxCtx contexts, with the DECLARATIVE chain semantics   *)
(* of property C10 computed from the history alone, the invariants that    *)
(* relate the two, and case emission (one case per state = per history).   *)
(***************************************************************************)
EXTENDS Context, Json

CONSTANTS MaxCtx,       \* contexts in the tree (root included)
          MaxOps,       \* operations after the root's construction
          EmitCases     \* TRUE: print every history with its expected observation table

MCKeys       == {"a", "b", "len"}     \* "len" is the name of a built-in helper
MCHelperKeys == {"len"}
Vals         == {"v1", "v2", Nil}

\* data maps a root may be constructed with (NewContextWith(data))
RootData == { EmptyMap,
              [a |-> "v1"],
              [len |-> "v1"],
              [len |-> Nil],
              [a |-> Nil, b |-> "v2", len |-> "v2"] }

\* values a root built by NewContextWithContext(ctx) finds in ctx
RootWrapped == { [b |-> "v2"], [a |-> "v1", len |-> "v2"] }

VARIABLE hist     \* the operations so far; the declarative oracle reads only this
vars == <<outer, data, wrapped, hist>>

Init == /\ outer = <<0>>
        /\ \/ \E d \in RootData : data = << Inject(d, 0) >> /\ wrapped = EmptyMap /\ hist = << [op |-> "root", d |-> d, w |-> EmptyMap] >>
           \/ \E w \in RootWrapped : data = << Inject(EmptyMap, 0) >> /\ wrapped = w /\ hist = << [op |-> "root", d |-> EmptyMap, w |-> w] >>

NewChild(c) == /\ N < MaxCtx /\ Len(hist) <= MaxOps
               /\ NewCore(c, Inject(EmptyMap, c))
               /\ hist' = Append(hist, [op |-> "new", c |-> c])

Set(c, k, v) == /\ Len(hist) <= MaxOps
                /\ SetCore(c, k, v)
                /\ hist' = Append(hist, [op |-> "set", c |-> c, k |-> k, v |-> v])

Next == \/ \E c \in 1..N : NewChild(c)
        \/ \E c \in 1..N, k \in Keys, v \in Vals : Set(c, k, v)

Spec == Init /\ [][Next]_vars

\* ---------------------------------------------------------------- declarative meaning (C10)
Absent == "ABSENT"
\* contexts are numbered in creation order: the i-th "new" event creates context i+1
NewEvents(h) == SelectSeq(h, LAMBDA e : e.op = "new")
DParent(h, c) == IF c = 1 THEN 0 ELSE NewEvents(h)[c - 1].c

\* the value most recently bound to k on context c itself, or Absent
RECURSIVE DLocalFrom(_, _, _, _)
DLocalFrom(h, i, c, k) ==
  IF i = 0 THEN Absent
  ELSE LET e == h[i] IN
       IF e.op = "set" /\ e.c = c /\ e.k = k THEN e.v
       ELSE IF e.op = "root" /\ c = 1 /\ k \in DOMAIN e.d THEN e.d[k]
       ELSE DLocalFrom(h, i - 1, c, k)
DLocal(h, c, k) == DLocalFrom(h, Len(h), c, k)

\* nearest context on the path to the root that has k; behind the root sit the built-in helpers, and
\* behind those whatever the context.Context the root was built around answers
RECURSIVE DValue(_, _, _)
DValue(h, c, k) ==
  IF c = 0 THEN (IF k \in HelperKeys THEN Builtin ELSE IF k \in DOMAIN h[1].w THEN h[1].w[k] ELSE Nil)
  ELSE IF DLocal(h, c, k) # Absent THEN DLocal(h, c, k)
  ELSE DValue(h, DParent(h, c), k)

Table == [c \in 1..N |-> [k \in Keys |-> DValue(hist, c, k)]]

\* ---------------------------------------------------------------- properties
Agree == \A c \in 1..N, k \in Keys : Lookup(c, k) = DValue(hist, c, k)

\* a Set on one context never changes what its ancestors or siblings observe
Frame == [][ (hist'[Len(hist')].op = "set") =>
               LET c == hist'[Len(hist')].c IN
               \A d \in 1..N : ~DescOrSelf(d, c) =>
                  \A k \in Keys : LookupIn(outer', data', d, k) = Lookup(d, k) ]_vars

\* a user value under a helper name wins in that context and in all descendants that do not rebind it
UserWins == \A c \in 1..N, k \in HelperKeys :
              DLocal(hist, c, k) # Absent =>
                \A d \in 1..N :
                   (DescOrSelf(d, c) /\ \A m \in 1..N : (DescOrSelf(d, m) /\ DescOrSelf(m, c) /\ m # c) => DLocal(hist, m, k) = Absent)
                      => Lookup(d, k) = DLocal(hist, c, k)

Emit == ~EmitCases \/ PrintT("CASE " \o ToJson([hist |-> hist, table |-> Table]))
=============================================================================
