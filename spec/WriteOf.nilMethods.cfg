CONSTANTS
  MaxLen = 1
  Order = "nilMethods"
  EmitCases = FALSE
SPECIFICATION Spec
INVARIANTS Agree DataEscaped
CHECK_DEADLOCK FALSE
