------------------------------- MODULE CacheMC -------------------------------
(* Bounded histories of cache / template operations, emitted as cases.      *)
EXTENDS Cache, Json

CONSTANTS MaxOps, EmitCases

MCTexts == {"t1", "t2", "bad"}
MCBad   == {"bad"}
Datas   == {"d1", "d2"}

VARIABLES hist,      \* operations with their outcomes
          results    \* set of <<text, data, template id>> rendered so far
vars == <<enabled, cache, tmpl, planted, hist, results>>

Init == enabled = FALSE /\ cache = [x \in {} |-> 0] /\ tmpl = <<>> /\ planted = {} /\ hist = <<>> /\ results = {}

Good(t) == tmpl[t].text \notin BadTexts
Step(e) == hist' = Append(hist, e)

Parse(x) == \E out \in {"uncached", "hit", "miss", "missfail"} :
              ParseCore(x, out) /\ Step([op |-> "parse", x |-> x, out |-> out, t |-> Parsed(x, out)]) /\ UNCHANGED results
Render(x, d) == \E out \in {"uncached", "hit", "miss", "missfail"} :
              ParseCore(x, out) /\ Step([op |-> "render", x |-> x, d |-> d, out |-> out, t |-> Parsed(x, out)])
              /\ results' = results \cup {<<x, d, Parsed(x, out)>>}
Exec(t, d) == ExecCore(t) /\ Step([op |-> "exec", t |-> t, d |-> d]) /\ results' = results \cup {<<tmpl[t].text, d, t>>}
Clone(t) == CloneCore(t) /\ Step([op |-> "clone", t |-> t, nt |-> NewId]) /\ UNCHANGED results
Toggle == ToggleCore /\ Step([op |-> "toggle"]) /\ UNCHANGED results
CacheSet(x, t) == CacheSetCore(x, t) /\ Step([op |-> "cacheset", x |-> x, t |-> t]) /\ UNCHANGED results

Next == /\ Len(hist) < MaxOps
        /\ \/ \E x \in Texts : Parse(x)
           \/ \E x \in Texts, d \in Datas : Render(x, d)
           \/ \E t \in 1..Len(tmpl), d \in Datas : Good(t) /\ Exec(t, d)
           \/ \E t \in 1..Len(tmpl) : Good(t) /\ Clone(t)
           \/ Toggle
Spec == Init /\ [][Next]_vars

\* ---- properties
\* executing (or anything else) never changes a parsed program
Immutable == [][\A t \in 1..Len(tmpl) : tmpl'[t] = tmpl[t]]_vars
\* without CacheSet every template a render used was built from the rendered text: the result is a
\* function of (text, data) whatever path (fresh, cached cold / warm, clone) produced the template
SameSource == \A r \in results : tmpl[r[3]].text = r[1]

Emit == ~EmitCases \/ PrintT("CASE " \o ToJson([gen |-> "CacheMC", hist |-> hist]))
=============================================================================
