CONSTANTS
  MaxOps = 2
  Pool = "full"
  MinSize = 0
SPECIFICATION Spec
INVARIANTS EmitCase ParenSound ResultShape
CHECK_DEADLOCK FALSE
