CONSTANTS
  Guarded = FALSE
  EmitCases = FALSE
SPECIFICATION Spec
INVARIANTS NoPanic
CHECK_DEADLOCK FALSE
