CONSTANTS
  W = 5
  Overflow = FALSE
  EmitCases = TRUE
SPECIFICATION Spec
INVARIANTS PrefixOK Exact Emit
PROPERTY Terminates
CHECK_DEADLOCK FALSE
