CONSTANTS
  K = 4
  Vocabulary = "small"
SPECIFICATION Spec
INVARIANT Emit
CHECK_DEADLOCK FALSE
