CONSTANTS
  MaxFixed = 1
  MaxArgs = 3
  VariadicNilPtr = TRUE
  EmitCases = FALSE
SPECIFICATION Spec
INVARIANTS Agree
CHECK_DEADLOCK FALSE
