CONSTANTS
  MaxLen = 20
  MaxN = 12
  EmitCases = TRUE
SPECIFICATION Spec
INVARIANTS Partition YieldsAll ErrorIffBadN BuildProgress Emit
PROPERTY Terminates
CHECK_DEADLOCK FALSE
