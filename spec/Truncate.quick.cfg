CONSTANTS
  N = 4
  MaxTrail = 4
  RewritesInvalid = FALSE
  EmitCases = TRUE
SPECIFICATION Spec
INVARIANTS Unchanged PrefixTrail Emit
CHECK_DEADLOCK FALSE
