CONSTANTS
  MaxNodes = 4
  Family = "loops"
  FlattenOne = FALSE
  BreakDrops = TRUE
  RetEndsBlock = FALSE
SPECIFICATION Spec
INVARIANTS Agree Contained
CHECK_DEADLOCK FALSE
