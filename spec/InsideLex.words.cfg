SPECIFICATION Spec
CONSTANTS
  K = 3
  Mode = "words"
  EmitCases = FALSE
INVARIANTS LayoutInsensitive
CHECK_DEADLOCK FALSE
