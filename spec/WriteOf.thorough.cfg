CONSTANTS
  MaxLen = 3
  Order = "code"
  EmitCases = TRUE
SPECIFICATION Spec
INVARIANTS Agree DataEscaped Emit
CHECK_DEADLOCK FALSE
