CONSTANTS
  NP = 2
  OpsPer = 2
  ReadsLocked = TRUE
  ParseAtomic = TRUE
  EmitCases = TRUE
SPECIFICATION Spec
INVARIANTS NoRace InsertOnce MutexOK Emit
PROPERTY Finishes
