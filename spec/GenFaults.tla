------------------------------ MODULE GenFaults ------------------------------
(***************************************************************************)
(* Generator machine for C05: a fault expression F -- a call of a failing  *)
(* Go helper, a division by zero, a call of an unknown function, an index  *)
(* out of range -- placed at one position of a host program.  A position   *)
(* is a statement context applied to a stack of up to MaxNest expression   *)
(* contexts: operand of every operator (both sides, also where short       *)
(* circuit skips it), condition, branch body, loop iterable / body, array  *)
(* and hash element, index, argument of a Go helper / user function,       *)
(* block of a block helper, contentFor block, contentOf default block,     *)
(* partial text, layout, partial data, let / assignment / return value.    *)
(* Theorem: if the failing helper was reached, the render is an error that *)
(* wraps the helper's error and has no output.                             *)
(***************************************************************************)
EXTENDS Unparse, Json

CONSTANT MaxNest

Faults == { [n |-> "fail", e |-> Call("fail", <<IntL(1)>>)],
            \* ... whose last result is declared as a concrete error type / as interface{} (a value that IS an error fails the render)
            [n |-> "failc", e |-> Call("failc", <<IntL(1)>>)],
            [n |-> "faili", e |-> Call("faili", <<IntL(1)>>)],
            [n |-> "div0", e |-> Par(Bin("/", IntL(1), IntL(0)))],
            [n |-> "nofunc", e |-> Call("nosuch", <<IntL(1)>>)],
            [n |-> "range", e |-> Idx(Id("xs"), IntL(5))],
            \* a (value, error) helper that fails, its result used through a member path
            [n |-> "failchain", e |-> Par(Dot(Call("failrec", <<IntL(1)>>), "Name"))],
            \* a (value, error) METHOD of a context value that fails, alone and followed by a member path
            [n |-> "failmeth", e |-> Par(MCall(Id("obj"), "Fail"))],
            [n |-> "failmethchain", e |-> Par(Dot(MCall(Id("obj"), "Fail"), "Name"))] }

BinOps == {"+", "-", "*", "/", "<", "<=", ">", ">=", "==", "!=", "~=", "&&", "||"}

ECs == { [k |-> "binL", op |-> op] : op \in BinOps } \cup { [k |-> "binR", op |-> op] : op \in BinOps }
       \cup { [k |-> "skipR", op |-> "&&"], [k |-> "skipR", op |-> "||"] }
       \* the left operand is an undefined identifier (tolerated: it counts as nil), the hole is the right operand
       \cup { [k |-> "unkL", op |-> op] : op \in {"==", "!=", "||"} }
       \* the other operand is the bare word nil (the usual existence check x == nil / x != nil), on either side
       \cup { [k |-> "nilR", op |-> op] : op \in {"==", "!="} } \cup { [k |-> "nilL", op |-> op] : op \in {"==", "!="} }
       \cup { [k |-> c, op |-> ""] : c \in {"not", "arr", "arrfirst", "hashv", "hashfirst", "idxI", "idxL", "argGo", "argP", "argUser", "argUserExtra", "argVar0", "argVar1", "cond", "elifcond", "iter"} }

\* the other operand is chosen so that the hole is evaluated (binL/binR) or skipped (skipR)
WrapE(c, e) ==
  CASE c.k = "binL"  -> Par(Bin(c.op, e, IF c.op = "||" THEN Bool(FALSE) ELSE IF c.op = "&&" THEN Bool(TRUE) ELSE IntL(1)))
    [] c.k = "binR"  -> Par(Bin(c.op, IF c.op = "||" THEN Bool(FALSE) ELSE IF c.op = "&&" THEN Bool(TRUE) ELSE IntL(1), e))
    [] c.k = "unkL"  -> Par(Bin(c.op, Id("zz"), e))
    [] c.k = "skipR" -> Par(Bin(c.op, IF c.op = "||" THEN Bool(TRUE) ELSE Bool(FALSE), e))
    [] c.k = "nilR"  -> Par(Bin(c.op, e, Id("nil")))
    [] c.k = "nilL"  -> Par(Bin(c.op, Id("nil"), e))
    [] c.k = "not"   -> Not(e)
    [] c.k = "arr"   -> Arr(<<IntL(1), e>>)
    \* ... followed by elements that evaluate fine
    [] c.k = "arrfirst" -> Arr(<<e, Str(<<"b">>), IntL(2)>>)
    [] c.k = "hashfirst" -> Hash(<<"a", "b">>, <<e, IntL(1)>>)
    [] c.k = "hashv" -> Hash(<<"a", "b">>, <<IntL(1), e>>)
    [] c.k = "idxI"  -> Idx(Id("xs"), e)
    [] c.k = "idxL"  -> Idx(e, IntL(0))
    [] c.k = "argGo" -> Call("id", <<e>>)
    [] c.k = "argP"  -> Call("p", <<IntL(2), e>>)
    [] c.k = "argUser" -> Call("f", <<e>>)
    [] c.k = "argUserExtra" -> Call("f", <<IntL(1), e>>)          \* an argument the template function declares no parameter for
    [] c.k = "argVar0" -> Call("vcount", <<e, IntL(2)>>)          \* first / later argument in the variadic tail of a Go helper
    [] c.k = "argVar1" -> Call("vcount", <<IntL(1), e>>)
    [] c.k = "cond"  -> IfElse(e, <<Text(<<"T">>)>>, <<Text(<<"F">>)>>)
    [] c.k = "elifcond" -> IfChain(Bool(FALSE), <<Text(<<"N">>)>>, <<[c |-> e, b |-> <<Text(<<"T">>)>>]>>, <<Text(<<"F">>)>>, TRUE)
    [] c.k = "iter"  -> For("", "v", e, <<Text(<<"i">>)>>)

SCs == {"foriter", "formap", "foriterif", "emit", "silent", "let", "assign", "ifbody", "elsebody", "elifbody", "elifbodynoelse", "forbody", "forsilent", "forsecond", "fnbody", "fnreturn",
        "blk", "blkown", "contentfor", "contentofdefault", "partial", "layout", "partialdata", "nestedpartial", "laidpartial", "laidnested"}

PName(s) == s
WrapS(c, e) ==
  CASE c = "emit"      -> [prog |-> <<Emit(e)>>, parts |-> EmptyScope]
    [] c = "silent"    -> [prog |-> <<Code(e)>>, parts |-> EmptyScope]
    [] c = "let"       -> [prog |-> <<Let("z", e), Text(<<"m">>)>>, parts |-> EmptyScope]
    [] c = "assign"    -> [prog |-> <<Let("z", IntL(1)), Code(Assign("z", e)), Emit(Id("z"))>>, parts |-> EmptyScope]
    [] c = "ifbody"    -> [prog |-> <<Emit(If(Bool(TRUE), <<Text(<<"a">>), Emit(e), Text(<<"b">>)>>))>>, parts |-> EmptyScope]
    [] c = "elsebody"  -> [prog |-> <<Emit(IfElse(Bool(FALSE), <<Text(<<"a">>)>>, <<Text(<<"c">>), Code(e), Text(<<"b">>)>>))>>, parts |-> EmptyScope]
    \* the taken branch is an else-if (with and without an else block after it)
    [] c = "elifbody"  -> [prog |-> <<Emit(IfChain(Bool(FALSE), <<Text(<<"n">>)>>, <<[c |-> Bool(TRUE), b |-> <<Text(<<"a">>), Emit(e), Text(<<"b">>)>>]>>, <<Text(<<"c">>)>>, TRUE))>>, parts |-> EmptyScope]
    [] c = "elifbodynoelse" -> [prog |-> <<Emit(IfChain(Bool(FALSE), <<Text(<<"n">>)>>, <<[c |-> Bool(TRUE), b |-> <<Text(<<"a">>), Code(e), Text(<<"b">>)>>]>>, <<>>, FALSE))>>, parts |-> EmptyScope]
    [] c = "forbody"   -> [prog |-> <<Emit(For("", "v", Arr(<<IntL(1), IntL(2)>>), <<Emit(Id("v")), Emit(e)>>))>>, parts |-> EmptyScope]
    [] c = "foriter"   -> [prog |-> <<Emit(For("", "v", Call("range", <<IntL(1), IntL(2)>>), <<Emit(Id("v")), Emit(e)>>))>>, parts |-> EmptyScope]
    [] c = "foriterif" -> [prog |-> <<Emit(For("", "v", Call("until", <<IntL(3)>>), <<Emit(Id("v")), Code(If(Bin("==", Id("v"), IntL(1)), <<Code(e)>>))>>))>>, parts |-> EmptyScope]
    [] c = "formap"    -> [prog |-> <<Emit(For("k", "v", Hash(<<"a">>, <<IntL(1)>>), <<Emit(Id("v")), Emit(e)>>))>>, parts |-> EmptyScope]
    [] c = "forsilent" -> [prog |-> <<Emit(For("", "v", Arr(<<IntL(1), IntL(2)>>), <<Emit(Id("v")), Code(e)>>))>>, parts |-> EmptyScope]
    [] c = "forsecond" -> [prog |-> <<Emit(For("", "v", Arr(<<IntL(1), IntL(2)>>), <<Emit(Id("v")), Code(If(Bin("==", Id("v"), IntL(2)), <<Emit(e)>>))>>))>>, parts |-> EmptyScope]
    [] c = "fnbody"    -> [prog |-> <<Let("g", FnLit(<<>>, <<Text(<<"a">>), Emit(e)>>)), Emit(Call("g", <<>>))>>, parts |-> EmptyScope]
    [] c = "fnreturn"  -> [prog |-> <<Let("g", FnLit(<<>>, <<Ret(e)>>)), Emit(Call("g", <<>>))>>, parts |-> EmptyScope]
    [] c = "blk"       -> [prog |-> <<Emit(CallB("blk", <<>>, <<Text(<<"a">>), Emit(e)>>))>>, parts |-> EmptyScope]
    [] c = "blkown"    -> [prog |-> <<Emit(CallB("blkown", <<Hash(<<"k">>, <<IntL(1)>>)>>, <<Text(<<"a">>), Code(e)>>))>>, parts |-> EmptyScope]
    [] c = "contentfor" -> [prog |-> <<Code(CallB("contentFor", <<Str(<<"c">>)>>, <<Text(<<"a">>), Emit(e)>>)), Text(<<"m">>), Emit(Call("contentOf", <<Str(<<"c">>)>>))>>, parts |-> EmptyScope]
    [] c = "contentofdefault" -> [prog |-> <<Emit(CallB("contentOf", <<Str(<<"n">>)>>, <<Text(<<"a">>), Emit(e)>>))>>, parts |-> EmptyScope]
    [] c = "partial"   -> [prog |-> <<Emit(Call("partial", <<Str(<<"p">>)>>))>>, parts |-> [p |-> <<Text(<<"a">>), Emit(e)>>]]
    [] c = "nestedpartial" -> [prog |-> <<Emit(Call("partial", <<Str(<<"q">>)>>))>>,
                               parts |-> [q |-> <<Text(<<"o">>), Emit(Call("partial", <<Str(<<"p">>)>>))>>, p |-> <<Text(<<"a">>), Code(e)>>]]
    [] c = "layout"    -> [prog |-> <<Emit(Call("partial", <<Str(<<"p">>), Hash(<<"layout">>, <<Str(<<"l">>)>>)>>))>>,
                           parts |-> [p |-> <<Text(<<"a">>)>>, l |-> <<Text(<<"[">>), Emit(Id("yield")), Emit(e), Text(<<"]">>)>>]]
    \* the fault is in the partial that is then wrapped in a layout (the layout itself is fine), directly and one partial deeper
    [] c = "laidpartial" -> [prog |-> <<Emit(Call("partial", <<Str(<<"p">>), Hash(<<"layout">>, <<Str(<<"l">>)>>)>>))>>,
                           parts |-> [p |-> <<Text(<<"a">>), Emit(e)>>, l |-> <<Text(<<"[">>), Emit(Id("yield")), Text(<<"]">>)>>]]
    [] c = "laidnested" -> [prog |-> <<Emit(Call("partial", <<Str(<<"q">>), Hash(<<"layout">>, <<Str(<<"l">>)>>)>>))>>,
                           parts |-> [q |-> <<Text(<<"o">>), Emit(Call("partial", <<Str(<<"p">>)>>))>>, p |-> <<Text(<<"a">>), Code(e)>>,
                                      l |-> <<Text(<<"[">>), Emit(Id("yield")), Text(<<"]">>)>>]]
    [] c = "partialdata" -> [prog |-> <<Emit(Call("partial", <<Str(<<"p">>), Hash(<<"a">>, <<e>>)>>))>>, parts |-> [p |-> <<Text(<<"a">>)>>]]

Data == [xs |-> A(<<I(1), I(2)>>), obj |-> RecM([Name |-> S(<<"n">>)], [Fail |-> [t |-> "failv"]])]
Preamble == <<Text(<<"b","e","f","o","r","e">>), Let("f", FnLit(<<"q">>, <<Ret(Id("q"))>>))>>

VARIABLES fault, ecs, sc, res
vars == <<fault, ecs, sc, res>>

RECURSIVE Nest(_, _)
Nest(cs, e) == IF cs = <<>> THEN e ELSE WrapE(Head(cs), Nest(Tail(cs), e))
Built == WrapS(sc, Nest(ecs, fault.e))
Prog == Preamble \o Built.prog \o <<Text(<<"a","f","t","e","r">>)>>

Init == /\ fault \in Faults /\ ecs = <<>> /\ sc = "none" /\ res = [k |-> "none"]
\* expressions that carry a block (if / for) are only written as the whole expression of a tag
BlockECs == {"cond", "elifcond", "iter"}
\* the parser accepts as the (first) condition of an if only comparable expressions: no array / hash
\* literal as the condition itself or as an operand of the operators it is built from
\* `for (v) in !f(x) { ...` hands the loop's block to the call f(x): only a call that is the whole
\* iterable may be followed by the loop body
RECURSIVE EndsInCall(_)
EndsInCall(cs) == IF cs = <<>> THEN fault.n \in {"fail", "failc", "faili", "nofunc", "failchain", "failmeth", "failmethchain"}
                  ELSE IF Head(cs).k = "not" THEN EndsInCall(Tail(cs))
                  ELSE Head(cs).k \in {"argGo", "argP", "argUser", "argUserExtra", "argVar0", "argVar1"}
IterOK(cs) == IF cs = <<>> THEN TRUE ELSE IF Head(cs).k = "not" THEN ~EndsInCall(cs) ELSE TRUE
RECURSIVE CondOK(_)
CondOK(cs) == IF cs = <<>> THEN TRUE
              ELSE IF Head(cs).k \in {"arr", "hashv", "arrfirst", "hashfirst"} THEN FALSE
              ELSE IF Head(cs).k \in {"binL", "binR", "skipR", "unkL", "not", "nilR", "nilL"} THEN CondOK(Tail(cs))
              ELSE TRUE
AddEC == /\ sc = "none" /\ Len(ecs) < MaxNest
         /\ (IF ecs = <<>> THEN TRUE ELSE Head(ecs).k \notin BlockECs)
         /\ \E c \in ECs : (c.k = "cond" => CondOK(ecs)) /\ (c.k = "iter" => IterOK(ecs)) /\ ecs' = <<c>> \o ecs
         /\ UNCHANGED <<fault, sc, res>>
Finish == /\ sc = "none"
          /\ \E c \in SCs : (IF ecs = <<>> THEN TRUE ELSE (Head(ecs).k \in BlockECs => c # "partialdata")) /\ sc' = c /\ res' = LET b == WrapS(c, Nest(ecs, fault.e)) IN
                                              Run(Preamble \o b.prog \o <<Text(<<"a","f","t","e","r">>)>>, WithHelpers(Data), b.parts, "")
          /\ UNCHANGED <<fault, ecs>>
Next == AddEC \/ Finish
Spec == Init /\ [][Next]_vars

\* ---- theorem: no silent failure
Reached == res.k \in {"out", "err"} /\ \E i \in 1..Len(res.log) : res.log[i].f = "fail"
NoSilentFailure == (res.k # "none" /\ Reached) => (res.k = "err" /\ res.w)

Expect(r) == CASE r.k = "out" -> [k |-> "out", pieces |-> r.pieces, log |-> r.log]
               [] r.k = "err" -> [k |-> "err", w |-> r.w, log |-> r.log]
               [] OTHER       -> [k |-> "unspec"]
RECURSIVE ECNames(_)
ECNames(cs) == IF cs = <<>> THEN "" ELSE Head(cs).k \o Head(cs).op \o "/" \o ECNames(Tail(cs))

EmitCase == res.k = "none" \/
            PrintT("CASE " \o ToJson([gen |-> "GenFaults", src |-> Unparse(Prog), data |-> Data,
                                       parts |-> [nm \in DOMAIN Built.parts |-> Unparse(Built.parts[nm])],
                                       shape |-> fault.n \o ":" \o sc \o ":" \o ECNames(ecs), expect |-> Expect(res)]))
=============================================================================
