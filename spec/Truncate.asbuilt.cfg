CONSTANTS
  N = 4
  MaxTrail = 4
  RewritesInvalid = TRUE
  EmitCases = FALSE
SPECIFICATION Spec
INVARIANTS Unchanged PrefixTrail
CHECK_DEADLOCK FALSE
