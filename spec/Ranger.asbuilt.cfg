CONSTANTS
  W = 4
  Overflow = TRUE
  EmitCases = FALSE
SPECIFICATION Spec
INVARIANTS PrefixOK Exact
PROPERTY Terminates
CHECK_DEADLOCK FALSE
