CONSTANTS
  MaxLen = 2
  Order = "code"
  EmitCases = TRUE
SPECIFICATION Spec
INVARIANTS Agree DataEscaped Emit
CHECK_DEADLOCK FALSE
