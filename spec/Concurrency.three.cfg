CONSTANTS
  NP = 3
  OpsPer = 1
  ReadsLocked = TRUE
  ParseAtomic = TRUE
  EmitCases = TRUE
SPECIFICATION Spec
INVARIANTS NoRace InsertOnce MutexOK Emit
PROPERTY Finishes
