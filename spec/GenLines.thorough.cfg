CONSTANTS
  MaxPre = 3
SPECIFICATION Spec
INVARIANTS ErrTheorem ShiftTheorem EmitCase
CHECK_DEADLOCK FALSE
