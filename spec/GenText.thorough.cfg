CONSTANTS
  MaxItems = 3
SPECIFICATION Spec
INVARIANTS SourceOrder EmitCase
CHECK_DEADLOCK FALSE
