------------------------------ MODULE GenFuncs ------------------------------
(***************************************************************************)
(* Generator machine for C16: user-defined functions whose bodies are      *)
(* if/return decision chains over their parameters x argument tuples       *)
(* (including caller variables named like the callee's parameters) x the   *)
(* ways a result can be used (emitted, tested, compared, bound, passed on, *)
(* called through a parameter), plus recursive functions.                  *)
(* Theorem: the reference semantics' value of the call equals the direct   *)
(* declarative reading of the chain (first i with cond_i(args) => ret_i),  *)
(* and nothing after the first return reached is evaluated.                *)
(***************************************************************************)
EXTENDS Unparse, Json

CONSTANTS MaxParams, MaxLinks

PNames == <<"a", "b", "c">>
\* the caller's variables carry the callee's parameter names
CallerLets == <<Let("a", Str(<<"A">>)), Let("b", Str(<<"B">>)), Let("c", Str(<<"C">>))>>
CallerVal(n) == CASE n = "a" -> S(<<"A">>) [] n = "b" -> S(<<"B">>) [] n = "c" -> S(<<"C">>)

\* (nil as an argument: the parameter is bound to nil and hides the caller's variable of the same name)
ArgPool == { Bool(TRUE), Bool(FALSE), Str(<<"x">>), Str(<<>>), IntL(1), Id("a"), Id("b"), Id("nil") }
ArgVal(e) == CASE e.t = "bool" -> B(e.b) [] e.t = "str" -> S(e.s) [] e.t = "int" -> I(e.n) [] e.t = "id" -> (IF e.id = "nil" THEN Nil ELSE CallerVal(e.id))

\* conditions and results of chain links, over parameter positions
Conds(n) == { [t |-> "p", i |-> i] : i \in 1..n } \cup { [t |-> "np", i |-> i] : i \in 1..n }
            \cup { [t |-> "eq", i |-> pr[1], j |-> pr[2]] : pr \in { q \in (1..n) \X (1..n) : q[1] # q[2] } }
Rets(n)  == { [t |-> "p", i |-> i] : i \in 1..n } \cup { [t |-> "lit"] }

CondExpr(c) == CASE c.t = "p"  -> Id(PNames[c.i])
                 [] c.t = "np" -> Not(Id(PNames[c.i]))
                 [] c.t = "eq" -> Bin("==", Id(PNames[c.i]), Id(PNames[c.j]))
RetExpr(r) == IF r.t = "p" THEN Id(PNames[r.i]) ELSE Str(<<"L">>)

\* body: link i is `if (cond) { return ret }`, each followed by a probe that must only run when the
\* link did not return; then the default return; then a probe that must never run
Body(links, dflt) ==
  Flat([i \in 1..Len(links) |-> <<Code(If(CondExpr(links[i].c), <<Ret(RetExpr(links[i].r))>>)), Code(Call("p", <<IntL(i), IntL(0)>>))>>])
  \o <<Ret(RetExpr(dflt)), Code(Call("p", <<IntL(9), IntL(0)>>))>>

Uses == {"emit", "cond", "cmp", "let", "arg", "hof"}
CallF(args) == Call("f", args)
UseProg(u, n, args) ==
  CASE u = "emit" -> <<Text(<<"[">>), Emit(CallF(args)), Text(<<"]">>)>>
    [] u = "cond" -> <<Emit(IfElse(CallF(args), <<Text(<<"T">>)>>, <<Text(<<"F">>)>>))>>
    [] u = "cmp"  -> <<Emit(Bin("==", CallF(args), Str(<<"A">>)))>>
    [] u = "let"  -> <<Let("r", CallF(args)), Text(<<"[">>), Emit(Id("r")), Text(<<"]">>)>>
    [] u = "arg"  -> <<Text(<<"[">>), Emit(Call("id", <<CallF(args)>>)), Text(<<"]">>)>>
    [] u = "hof"  -> <<Let("h", FnLit(<<"q">> \o [i \in 1..n |-> <<"x", "y", "z">>[i]],
                                      <<Ret(Call("q", [i \in 1..n |-> Id(<<"x", "y", "z">>[i])]))>>)),
                       Text(<<"[">>), Emit(Call("h", <<Id("f")>> \o args)), Text(<<"]">>)>>

\* recursive functions (a parameter is used after the recursive call returns; nested and repeated calls)
RecProgs(k) ==
  [ sum  |-> <<Let("s", FnLit(<<"m">>, <<Code(If(Bin("==", Id("m"), IntL(0)), <<Ret(IntL(0))>>)), Ret(Bin("+", Call("s", <<Bin("-", Id("m"), IntL(1))>>), Id("m")))>>)),
               Text(<<"[">>), Emit(Call("s", <<IntL(k)>>)), Text(<<"]">>)>>,
    down |-> <<Let("c", FnLit(<<"m">>, <<Code(If(Bin("==", Id("m"), IntL(0)), <<Ret(Str(<<"d","o","n","e">>))>>)), Ret(Call("c", <<Bin("-", Id("m"), IntL(1))>>))>>)),
               Text(<<"[">>), Emit(Call("c", <<IntL(k)>>)), Text(<<"]">>)>>,
    fib  |-> <<Let("b", FnLit(<<"m">>, <<Code(If(Bin("<", Id("m"), IntL(2)), <<Ret(Id("m"))>>)),
                                          Ret(Bin("+", Call("b", <<Bin("-", Id("m"), IntL(1))>>), Call("b", <<Bin("-", Id("m"), IntL(2))>>)))>>)),
               Text(<<"[">>), Emit(Call("b", <<IntL(k)>>)), Text(<<"]">>)>>,
    after |-> <<Let("g", FnLit(<<"m", "t">>, <<Code(If(Bin("==", Id("m"), IntL(0)), <<Ret(Id("t"))>>)),
                                               Let("r", Call("g", <<Bin("-", Id("m"), IntL(1)), Str(<<"i">>)>>)),
                                               Ret(Bin("+", Id("t"), Id("r")))>>)),
               Text(<<"[">>), Emit(Call("g", <<IntL(k), Str(<<"o">>)>>)), Text(<<"]">>)>>,
    twice |-> <<Let("e", FnLit(<<"m">>, <<Ret(Id("m"))>>)),
               Text(<<"[">>), Emit(Call("e", <<Call("e", <<IntL(k)>>)>>)), Emit(Call("e", <<Str(<<"x">>)>>)), Emit(Call("e", <<IntL(k)>>)), Text(<<"]">>)>>,
    \* first-class use: ONE call site (q(v) inside a) that is reached with different function values
    apply |-> <<Let("a", FnLit(<<"q", "v">>, <<Ret(Call("q", <<Id("v")>>))>>)),
                Let("inc", FnLit(<<"m">>, <<Ret(Bin("+", Id("m"), IntL(1)))>>)), Let("dbl", FnLit(<<"m">>, <<Ret(Bin("*", Id("m"), IntL(2)))>>)),
                Text(<<"[">>), Emit(Call("a", <<Id("inc"), IntL(k)>>)), Text(<<",">>), Emit(Call("a", <<Id("dbl"), IntL(k)>>)), Text(<<",">>), Emit(Call("a", <<Id("inc"), IntL(k)>>)), Text(<<"]">>)>>,
    compose |-> <<Let("c", FnLit(<<"p", "q", "v">>, <<Ret(Call("p", <<Call("q", <<Id("v")>>)>>))>>)),
                Let("inc", FnLit(<<"m">>, <<Ret(Bin("+", Id("m"), IntL(1)))>>)), Let("dbl", FnLit(<<"m">>, <<Ret(Bin("*", Id("m"), IntL(2)))>>)),
                Text(<<"[">>), Emit(Call("c", <<Id("inc"), Id("dbl"), IntL(k)>>)), Text(<<",">>), Emit(Call("c", <<Id("dbl"), Id("inc"), IntL(k)>>)), Text(<<"]">>)>>,
    \* calls nested in the arguments of calls: every argument value evaluated earlier must survive the inner call
    nestarg |-> <<Let("pair", FnLit(<<"x", "y">>, <<Ret(Bin("+", Bin("+", Id("x"), Str(<<"-">>)), Id("y")))>>)),
                  Let("up", FnLit(<<"s">>, <<Ret(Bin("+", Id("s"), Str(<<"!">>)))>>)),
                  Text(<<"[">>), Emit(Call("pair", <<Str(<<"k">>), Call("up", <<Str(<<"x">>)>>)>>)), Text(<<",">>),
                  Emit(Call("pair", <<Call("up", <<Str(<<"a">>)>>), Call("up", <<Str(<<"b">>)>>)>>)), Text(<<",">>),
                  Emit(Call("pair", <<Str(<<"k">>), Call("pair", <<Str(<<"m">>), Call("up", <<Str(<<"n">>)>>)>>)>>)), Text(<<"]">>)>>,
    \* sibling calls of different functions from one scope: the parameters of the earlier call are gone in the later one
    siblings |-> <<Let("inc", FnLit(<<"m">>, <<Ret(Bin("+", Id("m"), IntL(1)))>>)), Let("dbl", FnLit(<<"m">>, <<Ret(Bin("*", Id("m"), IntL(2)))>>)),
                   Let("ap", FnLit(<<"inc", "v">>, <<Ret(Call("inc", <<Id("v")>>))>>)), Let("nx", FnLit(<<"v">>, <<Ret(Call("inc", <<Id("v")>>))>>)),
                   Text(<<"[">>), Emit(Call("ap", <<Id("dbl"), IntL(k)>>)), Text(<<"|">>), Emit(Call("nx", <<IntL(k)>>)), Text(<<"|">>), Emit(Call("ap", <<Id("dbl"), IntL(k)>>)), Text(<<"]">>)>>,
    \* very many calls in one render (k = 5: 1200 of them), each returning a value
    manycalls |-> <<Let("sq", FnLit(<<"m">>, <<Code(If(Bin("==", Id("m"), IntL(0)), <<Ret(IntL(0))>>)), Ret(IntL(1))>>)),
                    Text(<<"[">>), Emit(For("", "i", Call("range", <<IntL(1), IntL(IF k = 5 THEN 1200 ELSE k + 1)>>), <<Emit(Call("sq", <<Id("i")>>))>>)), Text(<<"]">>)>>,
    \* a returned array is the call's value as it is: one element, nested arrays
    retarr |-> <<Let("wrap", FnLit(<<"x">>, <<Ret(Arr(<<Id("x")>>))>>)), Let("rows", FnLit(<<"p", "q">>, <<Ret(Arr(<<Arr(<<Id("p")>>), Arr(<<Id("q")>>)>>))>>)),
                 Let("w", Call("wrap", <<IntL(k)>>)), Let("r", Call("rows", <<IntL(k), IntL(9)>>)),
                 Text(<<"[">>), Emit(Call("len", <<Id("w")>>)), Text(<<",">>), Emit(For("", "v", Call("wrap", <<IntL(k)>>), <<Text(<<"(">>), Emit(Id("v")), Text(<<")">>)>>)), Text(<<",">>),
                 Emit(Call("len", <<Id("r")>>)), Text(<<",">>), Emit(Call("len", <<Idx(Id("r"), IntL(1))>>)), Text(<<",">>), Emit(Idx(Idx(Id("r"), IntL(1)), IntL(0))), Text(<<"]">>)>>,
    \* a reached `return nil`: the call's value IS nil (tested, compared, passed on, bound)
    retnil |-> <<Let("find", FnLit(<<"m">>, <<Code(If(Bin("==", Id("m"), IntL(1)), <<Ret(Str(<<"o", "n", "e">>))>>)), Ret(Id("nil"))>>)),
                 Let("desc", FnLit(<<"v">>, <<Code(If(Id("v"), <<Ret(Str(<<"s">>))>>)), Ret(Str(<<"n">>))>>)),
                 Text(<<"[">>), Emit(IfElse(Call("find", <<IntL(k)>>), <<Text(<<"T">>)>>, <<Text(<<"F">>)>>)), Text(<<",">>),
                 Emit(Bin("==", Call("find", <<IntL(k)>>), Id("nil"))), Text(<<",">>), Emit(Call("desc", <<Call("find", <<IntL(k)>>)>>)), Text(<<",">>),
                 Let("r", Call("find", <<IntL(k)>>)), Emit(IfElse(Id("r"), <<Text(<<"T">>)>>, <<Text(<<"F">>)>>)), Text(<<",">>), Emit(Call("find", <<IntL(k)>>)), Text(<<"]">>)>>,
    \* a function WITHOUT parameters: its body still runs in a scope of its own (its lets are gone afterwards, the caller's
    \* variable of the same name is untouched, a second call starts afresh)
    zeroparam |-> <<Let("n", IntL(k)), Let("nx", FnLit(<<>>, <<Code(If(Id("q"), <<Ret(Str(<<"a", "g", "a", "i", "n">>))>>)), Let("n", IntL(50)), Let("q", IntL(7)), Ret(Bin("+", Id("n"), IntL(1)))>>)),
                    Text(<<"[">>), Emit(Call("nx", <<>>)), Text(<<"|">>), Emit(Id("n")), Text(<<"|">>), Emit(IfElse(Id("q"), <<Text(<<"L">>)>>, <<Text(<<"-">>)>>)), Text(<<"|">>), Emit(Call("nx", <<>>)), Text(<<"]">>)>>,
    \* a call that reaches NO return (its value is nothing): the caller's scope is current again all the same
    noret |-> <<Let("x", Str(<<"o", "u", "t">>)), Let("pick", FnLit(<<"x">>, <<Code(If(Bin("==", Id("x"), Str(<<"a">>)), <<Ret(Str(<<"A">>))>>))>>)),
                Text(<<"[">>), Emit(Call("pick", <<Str(<<"b">>)>>)), Text(<<"|">>), Emit(Id("x")), Text(<<"|">>), Emit(Call("pick", <<Str(<<"a">>)>>)), Text(<<"|">>), Emit(Id("x")), Text(<<"|">>),
                Emit(Call("id", <<Id("x")>>)), Text(<<"]">>)>>,
    \* a parameter named _ is a parameter like any other: arguments are bound by position
    underscore |-> <<Let("snd", FnLit(<<"_", "v">>, <<Ret(Id("v"))>>)), Let("trd", FnLit(<<"_", "w", "n">>, <<Code(If(Id("w"), <<Ret(Id("n"))>>)), Ret(Str(<<"z">>))>>)),
                     Text(<<"[">>), Emit(Call("snd", <<Str(<<"a">>), IntL(k)>>)), Text(<<"|">>), Emit(Call("trd", <<IntL(1), Bool(TRUE), IntL(k)>>)), Text(<<"|">>), Emit(Call("trd", <<IntL(1), Bool(FALSE), IntL(k)>>)), Text(<<"]">>)>>,
    \* ONE decision chain with else-if links whose conditions overlap: the FIRST link that holds decides
    elif |-> <<Let("cl", FnLit(<<"m">>, <<Code(IfChain(Bin("<", Id("m"), IntL(1)), <<Ret(Str(<<"z">>))>>,
                                                      <<[c |-> Bin("<", Id("m"), IntL(3)), b |-> <<Ret(Str(<<"s">>))>>], [c |-> Bin("<", Id("m"), IntL(5)), b |-> <<Ret(Str(<<"m">>))>>],
                                                        [c |-> Bin("<", Id("m"), IntL(9)), b |-> <<Ret(Str(<<"l">>))>>]>>,
                                                      <<Ret(Str(<<"b">>))>>, TRUE))>>)),
               Text(<<"[">>), Emit(Call("cl", <<IntL(k)>>)), Text(<<"|">>), Emit(Call("cl", <<IntL(k + 4)>>)), Text(<<"]">>)>>,
    \* an argument that is a field path: evaluated in the caller's scope as the path it is, although a variable (and the
    \* caller's own parameter) named like its last segment is visible there
    patharg |-> <<Let("Name", Str(<<"o", "t">>)),
                  Let("greet", FnLit(<<"w">>, <<Ret(Bin("+", Str(<<"h", "i">>), Id("w")))>>)),
                  Let("card", FnLit(<<"Name", "v">>, <<Ret(Call("greet", <<Dot(Id("v"), "Name")>>))>>)),
                  Text(<<"[">>), Emit(Call("greet", <<Dot(Id("u"), "Name")>>)), Text(<<"|">>), Emit(Call("card", <<IntL(k), Id("u")>>)), Text(<<"|">>), Emit(Call("greet", <<Id("Name")>>)), Text(<<"]">>)>>,
    \* the name at a call site is bound to another function between two executions of that call (loop variable)
    rebind |-> <<Let("inc", FnLit(<<"m">>, <<Ret(Bin("+", Id("m"), IntL(1)))>>)), Let("dbl", FnLit(<<"m">>, <<Ret(Bin("*", Id("m"), IntL(2)))>>)),
                Text(<<"[">>), Emit(For("", "w", Arr(<<Id("inc"), Id("dbl"), Id("inc")>>), <<Emit(Call("w", <<IntL(k)>>)), Text(<<";">>)>>)), Text(<<"]">>)>> ]
\* u: a struct value with a field Name (patharg)
RecData == [u |-> Rec([Name |-> S(<<"m", "k">>)])]
RecNames == {"sum", "down", "fib", "after", "twice", "apply", "compose", "rebind", "nestarg", "retarr", "siblings", "manycalls", "retnil", "zeroparam", "noret", "underscore", "elif", "patharg"}
RECURSIVE Fib(_)
Fib(k) == IF k < 2 THEN k ELSE Fib(k - 1) + Fib(k - 2)
RECURSIVE Rep(_, _)
Rep(c, k) == IF k = 0 THEN <<>> ELSE <<c>> \o Rep(c, k - 1)
RecText(nm, k) ==
  CASE nm = "sum"  -> <<"[">> \o IntChars((k * (k + 1)) \div 2) \o <<"]">>
    [] nm = "down" -> <<"[", "d", "o", "n", "e", "]">>
    [] nm = "fib"  -> <<"[">> \o IntChars(Fib(k)) \o <<"]">>
    [] nm = "after" -> <<"[">> \o (IF k = 0 THEN <<"o">> ELSE <<"o">> \o Rep("i", k)) \o <<"]">>
    [] nm = "twice" -> <<"[">> \o IntChars(k) \o <<"x">> \o IntChars(k) \o <<"]">>
    [] nm = "apply" -> <<"[">> \o IntChars(k + 1) \o <<",">> \o IntChars(2 * k) \o <<",">> \o IntChars(k + 1) \o <<"]">>
    [] nm = "compose" -> <<"[">> \o IntChars(2 * k + 1) \o <<",">> \o IntChars(2 * (k + 1)) \o <<"]">>
    [] nm = "nestarg" -> <<"[", "k", "-", "x", "!", ",", "a", "!", "-", "b", "!", ",", "k", "-", "m", "-", "n", "!", "]">>
    [] nm = "siblings" -> <<"[">> \o IntChars(2 * k) \o <<"|">> \o IntChars(k + 1) \o <<"|">> \o IntChars(2 * k) \o <<"]">>
    [] nm = "manycalls" -> <<"[">> \o Rep("1", IF k = 5 THEN 1200 ELSE k + 1) \o <<"]">>
    [] nm = "retarr" -> <<"[", "1", ",", "(">> \o IntChars(k) \o <<")", ",", "2", ",", "1", ",", "9", "]">>
    [] nm = "retnil" -> IF k = 1 THEN <<"[", "T", ",", "f", "a", "l", "s", "e", ",", "s", ",", "T", ",", "o", "n", "e", "]">>
                        ELSE <<"[", "F", ",", "t", "r", "u", "e", ",", "n", ",", "F", ",", "]">>
    [] nm = "noret" -> <<"[", "|", "o", "u", "t", "|", "A", "|", "o", "u", "t", "|", "o", "u", "t", "]">>
    [] nm = "underscore" -> <<"[">> \o IntChars(k) \o <<"|">> \o IntChars(k) \o <<"|", "z", "]">>
    [] nm = "zeroparam" -> <<"[", "5", "1", "|">> \o IntChars(k) \o <<"|", "-", "|", "5", "1", "]">>
    [] nm = "elif" -> LET Cl(m) == IF m < 1 THEN "z" ELSE IF m < 3 THEN "s" ELSE IF m < 5 THEN "m" ELSE IF m < 9 THEN "l" ELSE "b" IN <<"[", Cl(k), "|", Cl(k + 4), "]">>
    [] nm = "patharg" -> <<"[", "h", "i", "m", "k", "|", "h", "i", "m", "k", "|", "h", "i", "o", "t", "]">>
    [] nm = "rebind" -> <<"[">> \o IntChars(k + 1) \o <<";">> \o IntChars(2 * k) \o <<";">> \o IntChars(k + 1) \o <<";", "]">>

VARIABLES n, links, dflt, args, use, res
vars == <<n, links, dflt, args, use, res>>
NoRet == [t |-> "none"]

Prog == CallerLets \o <<Let("f", FnLit(SubSeq(PNames, 1, n), Body(links, dflt)))>> \o UseProg(use, n, args)

Init == \/ /\ n \in 0..MaxParams /\ links = <<>> /\ dflt = NoRet /\ args = <<>> /\ use = "none" /\ res = [k |-> "none"]
        \/ \E nm \in RecNames, k \in 0..5 :      \* recursion family: n = -1, use = name, args = <<k>>
              /\ n = -1 /\ links = <<>> /\ dflt = NoRet /\ args = <<k>> /\ use = nm
              /\ res = Run(RecProgs(k)[nm], WithHelpers(RecData), EmptyScope, "")
AddLink == /\ n >= 0 /\ dflt = NoRet /\ Len(links) < MaxLinks /\ (n = 3 => Len(links) < 1)
           /\ \E c \in Conds(n), r \in Rets(n) : links' = Append(links, [c |-> c, r |-> r])
           /\ UNCHANGED <<n, dflt, args, use, res>>
SetDefault == /\ n >= 0 /\ dflt = NoRet /\ \E r \in Rets(n) : dflt' = r
              /\ UNCHANGED <<n, links, args, use, res>>
AddArg == /\ dflt # NoRet /\ Len(args) < n /\ \E a \in ArgPool : args' = Append(args, a)
          /\ UNCHANGED <<n, links, dflt, use, res>>
Finish == /\ dflt # NoRet /\ Len(args) = n /\ res.k = "none"
          /\ \E u \in Uses : use' = u /\ res' = Run(CallerLets \o <<Let("f", FnLit(SubSeq(PNames, 1, n), Body(links, dflt)))>> \o UseProg(u, n, args),
                                                   WithHelpers(EmptyScope), EmptyScope, "")
          /\ UNCHANGED <<n, links, dflt, args>>
Next == AddLink \/ SetDefault \/ AddArg \/ Finish
Spec == Init /\ [][Next]_vars

\* ---- the declarative reading of a decision chain
ArgVals == [i \in 1..n |-> ArgVal(args[i])]
CondHolds(c, vs) == CASE c.t = "p"  -> Truthy(vs[c.i])
                      [] c.t = "np" -> ~Truthy(vs[c.i])
                      [] c.t = "eq" -> vs[c.i] = vs[c.j]
\* == between values of different kinds is not specified
CondSpecified(c, vs) == c.t # "eq" \/ vs[c.i].t = vs[c.j].t
RetVal(r, vs) == IF r.t = "p" THEN vs[r.i] ELSE S(<<"L">>)
FirstLink(vs) == IF \E i \in 1..Len(links) : CondHolds(links[i].c, vs)
                 THEN CHOOSE i \in 1..Len(links) : CondHolds(links[i].c, vs) /\ \A j \in 1..(i-1) : ~CondHolds(links[j].c, vs)
                 ELSE 0
ChainValue(vs) == IF FirstLink(vs) > 0 THEN RetVal(links[FirstLink(vs)].r, vs) ELSE RetVal(dflt, vs)
\* (a parameter bound to nil reads as nil in a condition; returning it or comparing it is not specified)
RetSpecified(r, vs) == r.t # "p" \/ vs[r.i].t # "nil"
ChainSpecified(vs) == /\ \A i \in 1..Len(links) : (FirstLink(vs) = 0 \/ i <= FirstLink(vs)) =>
                            (CondSpecified(links[i].c, vs) /\ (links[i].c.t = "eq" => vs[links[i].c.i].t # "nil" /\ vs[links[i].c.j].t # "nil"))
                      /\ RetSpecified(IF FirstLink(vs) > 0 THEN links[FirstLink(vs)].r ELSE dflt, vs)
\* probes that run: one after every link that did not return
ChainProbes(vs) == IF FirstLink(vs) > 0 THEN FirstLink(vs) - 1 ELSE Len(links)

RECURSIVE PieceText(_)
PieceText(ps) == IF ps = <<>> THEN <<>> ELSE Head(ps).s \o PieceText(Tail(ps))
UseText(u, v) ==
  CASE u \in {"emit", "let", "arg", "hof"} -> <<"[">> \o PieceText(Pieces(v)) \o <<"]">>
    [] u = "cond" -> IF Truthy(v) THEN <<"T">> ELSE <<"F">>
    [] u = "cmp"  -> IF v = S(<<"A">>) THEN <<"t","r","u","e">> ELSE <<"f","a","l","s","e">>

RecTheorem == n = -1 => (res.k = "out" /\ PieceText(res.pieces) = RecText(use, args[1]) /\ res.depth = 1)
ChainTheorem ==
  (n >= 0 /\ res.k # "none" /\ ChainSpecified(ArgVals) /\ ~(use = "cmp" /\ ChainValue(ArgVals).t # "str")
     /\ ~(use = "hof" /\ \E i \in 1..n : ArgVals[i].t = "nil")) =>      \* (passing a nil-bound parameter on is not specified)
     /\ res.k = "out"
     /\ PieceText(res.pieces) = UseText(use, ChainValue(ArgVals))
     /\ Len(res.log) = ChainProbes(ArgVals)
     /\ \A i \in 1..Len(res.log) : res.log[i].id = i
     /\ res.depth = 1

Expect(r) == CASE r.k = "out" -> [k |-> "out", pieces |-> r.pieces, log |-> r.log]
               [] r.k = "err" -> [k |-> "err", w |-> r.w, log |-> r.log]
               [] OTHER       -> [k |-> "unspec"]

EmitCase == res.k = "none" \/
            PrintT("CASE " \o ToJson([gen |-> "GenFuncs", src |-> Unparse(IF n = -1 THEN RecProgs(args[1])[use] ELSE Prog), data |-> IF n = -1 THEN RecData ELSE EmptyScope,
                                       shape |-> use \o ":" \o ToString(n) \o ":" \o ToString(IF n = -1 THEN args[1] ELSE Len(links)), expect |-> Expect(res)]))
=============================================================================
