CONSTANTS
  Table = "doc"
  MaxOps = 6
  Pool = "full"
  MinSize = 3
  Family = "tree"
  WordLen = 0
SPECIFICATION Spec
INVARIANTS PrattAgree Reprint EmitCase
CHECK_DEADLOCK FALSE
