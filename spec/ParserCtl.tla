----------------------------- MODULE ParserCtl -----------------------------
(***************************************************************************)
(* Layer B: the CONTROL SKELETON of plush's recursive-descent / Pratt      *)
(* parser (parser/parser.go) as a PlusCal algorithm, one procedure per     *)
(* parse function, a label at every loop head and after every call, so     *)
(* that each loop iteration and each nextToken() is one action.            *)
(*                                                                         *)
(* The input is a sequence of TOKEN CLASSES; past its end the lexer yields *)
(* EOF forever, so the cursor saturates there (cur = peek = EOF).  A parse *)
(* function's result is abstracted to what later control flow depends on:  *)
(* nil or not, and the node kind (for the type switches of assignCallee,   *)
(* parseForExpression, confrimIfCondition) -- global `node`.               *)
(* `panicked` is raised wherever the Go code calls a method on a node that *)
(* may be nil (Guards = FALSE: the pinned commit, without the nil guards   *)
(* in parseCallExpression / parseIndexExpression and with the comment loop *)
(* that ignores EOF).                                                      *)
(*                                                                         *)
(* Properties: NoPanic (invariant), Termination (liveness, fair            *)
(* algorithm): for EVERY token sequence up to length K the parser reaches  *)
(* Done.  `errs` (some syntax error was recorded) is the model's           *)
(* prediction of "Parse returns an error"; the conformance step compares   *)
(* it with the real parser on every sequence.                              *)
(***************************************************************************)
EXTENDS Integers, Sequences, TLC, Json

CONSTANTS K, Vocab, Guards, EmitCases

Tok(ts, i) == IF i >= 1 /\ i <= Len(ts) THEN ts[i] ELSE "EOF"

\* precedences (parser/precedences.go)
LOWEST == 1
Prec(t) == CASE t \in {"OPA"} -> 2                 \* && ||
             [] t \in {"OPE"} -> 3                 \* == != ~=
             [] t \in {"OPC"} -> 4                 \* < <= > >=
             [] t \in {"OPL", "MINUS"} -> 5        \* + -
             [] t \in {"OPH"} -> 6                 \* * /
             [] t = "LP" -> 8
             [] t = "LK" -> 9
             [] OTHER -> LOWEST
PREFIX == 7
InfixToks == {"OPA", "OPE", "OPC", "OPL", "MINUS", "OPH", "LP", "LK"}
PrefixToks == {"ID", "BRK", "ATOM", "BAD", "BANG", "MINUS", "LP", "IF", "FOR", "FN", "LK", "LB", "HTML", "CST", "END"}

\* node: kind, kind of Left (index expressions), call has a block, cond = acceptable to confrimIfCondition
\* (an ast.Comparable all of whose infix / prefix operands are acceptable)
Nil == [k |-> "nil", lk |-> "", blk |-> FALSE, cond |-> FALSE]
N(kind) == [k |-> kind, lk |-> "", blk |-> FALSE, cond |-> kind \in {"ident", "atom", "call", "index"}]
Comparable(n) == n.cond

\* inputs: a code tag opener, up to K tokens of the vocabulary (which holds no END / HTML: after `%>` the lexer is back in
\* text mode), then one of the ways the input may go on
Tails == { <<>>, <<"END">>, <<"END", "HTML">>, <<"END", "HTML", "EST", "ID", "END">> }
Inputs == { <<"SST">> \o t \o f : t \in UNION {[1..n -> Vocab] : n \in 0..K}, f \in Tails }

(* --fair algorithm parser
variables toks \in Inputs,
          pos = 1,                 \* index of curToken (peekToken is pos + 1)
          node = Nil,              \* result of the parse function that returned last
          list = <<>>,             \* result of parseExpressionList: kinds of the elements, or "nil" for a nil list
          errs = FALSE,            \* p.errors is not empty
          inFor = FALSE,           \* p.inForBlock
          panicked = FALSE;
define
  \* (no Tok(toks, pos) / Tok(toks, pos + 1) operators here: a defined operator reads the variables as they were at the BEGINNING of the
  \*  step; the cursor is read after it has moved within a step, so Tok(toks, pos) is written out)
  Adv(p) == IF p > Len(toks) THEN p ELSE p + 1       \* nextToken(): at EOF nothing moves any more
end define;

\* ---------------------------------------------------------------- statements
procedure parseProgram()
begin
PG0: while Tok(toks, pos) # "EOF" do
       call parseStatement();
PG1:   pos := Adv(pos);                                  \* p.nextToken() (stmt.String() is nil-safe)
     end while;
     return;
end procedure;

procedure parseStatement()
begin
ST0: if Tok(toks, pos) = "LET" then
       call parseLetStatement();
ST1:   return;
     elsif Tok(toks, pos) = "SST" then
       pos := Adv(pos);
       call parseStatement();
ST2:   return;
     elsif Tok(toks, pos) \in {"RET", "EST"} then
       pos := Adv(pos);
       call parseExpression(LOWEST);
ST3:   if Tok(toks, pos + 1) = "SEMI" then pos := Adv(pos); end if;
       node := N("stmt");
       return;
     elsif Tok(toks, pos) \in {"RB", "EOF"} then
       node := Nil;
       return;
     else
       call parseExpression(LOWEST);                     \* parseExpressionStatement
ST4:   if Tok(toks, pos + 1) = "SEMI" then pos := Adv(pos); end if;
       node := N("stmt");
       return;
     end if;
end procedure;

procedure parseLetStatement()
begin
LS0: if Tok(toks, pos + 1) # "ID" then errs := TRUE; node := N("stmt"); return; end if;      \* expectPeek(IDENT)
LS1: pos := Adv(pos);
     if Tok(toks, pos + 1) # "ASSIGN" then errs := TRUE; node := N("stmt"); return; end if;  \* expectPeek(ASSIGN)
LS2: pos := Adv(Adv(pos));
     call parseExpression(LOWEST);
LS3: if Tok(toks, pos + 1) = "SEMI" then pos := Adv(pos); end if;
     node := N("stmt");
     return;
end procedure;

procedure parseBlockStatement()
begin
BL0: pos := Adv(pos);
BL1: while Tok(toks, pos) # "RB" /\ Tok(toks, pos) # "EOF" do
       if Tok(toks, pos) \in {"SST", "END"} then
         pos := Adv(pos);
       else
         call parseStatement();
BL2:     pos := Adv(pos);
       end if;
     end while;
     node := N("block");
     return;
end procedure;

\* ---------------------------------------------------------------- expressions
procedure parseExpression(prec)
variables left = Nil;
begin
EX0: if Tok(toks, pos) = "LET" then node := Nil; return; end if;
EX1: if Tok(toks, pos) \notin PrefixToks then errs := TRUE; node := Nil; return; end if;    \* noPrefixParseFnError
EX2: call prefix();
EX3: left := node;
EX4: while Tok(toks, pos + 1) # "SEMI" /\ prec < Prec(Tok(toks, pos + 1)) do
       \* every token with a precedence has an infix function
       pos := Adv(pos);
       if Tok(toks, pos) = "LP" then call parseCallExpression(left);
       elsif Tok(toks, pos) = "LK" then call parseIndexExpression(left);
       else call parseInfixExpression(left);
       end if;
EX5:   left := node;
     end while;
     node := left;
     return;
end procedure;

procedure prefix()
begin
PF0: if Tok(toks, pos) = "ID" then
       if Tok(toks, pos + 1) = "ASSIGN" then
         call parseAssignExpression();
PF1:     return;
       else
         node := N("ident"); return;
       end if;
     elsif Tok(toks, pos) = "BRK" then
       if ~inFor then errs := TRUE; node := Nil; else node := N("ctl"); end if;
       return;
     elsif Tok(toks, pos) = "ATOM" then node := N("atom"); return;
     elsif Tok(toks, pos) = "BAD" then errs := TRUE; node := Nil; return;          \* strconv.Atoi fails
     elsif Tok(toks, pos) \in {"BANG", "MINUS"} then
       pos := Adv(pos);
       call parseExpression(PREFIX);
PF2:   node := [N("prefix") EXCEPT !.cond = node.cond];
       return;
     elsif Tok(toks, pos) = "LP" then                                              \* parseGroupedExpression
       pos := Adv(pos);
       call parseExpression(LOWEST);
PF3:   if Tok(toks, pos + 1) # "RP" then errs := TRUE; node := Nil; else pos := Adv(pos); end if;
       return;
     elsif Tok(toks, pos) = "IF" then call parseIfExpression();
PF4:   return;
     elsif Tok(toks, pos) = "FOR" then call parseForExpression();
PF5:   return;
     elsif Tok(toks, pos) = "FN" then call parseFunctionLiteral();
PF6:   return;
     elsif Tok(toks, pos) = "LK" then                                              \* parseArrayLiteral
       call parseExpressionList("RK");
PF7:   node := N("array");
       return;
     elsif Tok(toks, pos) = "LB" then call parseHashLiteral();
PF8:   return;
     elsif Tok(toks, pos) = "HTML" then node := N("html"); return;
     elsif Tok(toks, pos) = "CST" then                                             \* parseCommentLiteral
PF9:   while Tok(toks, pos) # "END" /\ (Guards => Tok(toks, pos) # "EOF") do
         pos := Adv(pos);
       end while;
       node := N("comment");
       return;
     else                                                               \* E_END: func() { return nil }
       node := Nil; return;
     end if;
end procedure;

procedure parseAssignExpression()
begin
AS0: pos := Adv(Adv(pos));            \* expectPeek(ASSIGN) holds (checked by the caller), then nextToken
     call parseExpression(LOWEST);
AS1: if Tok(toks, pos + 1) = "SEMI" then pos := Adv(pos); end if;
     node := N("assign");
     return;
end procedure;

procedure parseInfixExpression(l)
variables p = LOWEST;
begin
IN0: p := Prec(Tok(toks, pos));
     pos := Adv(pos);
     call parseExpression(p);
IN1: node := [N("infix") EXCEPT !.cond = l.cond /\ node.cond];
     return;
end procedure;

procedure parseExpressionList(endTok)
variables acc = <<>>;
begin
EL0: if Tok(toks, pos + 1) = endTok then pos := Adv(pos); list := <<>>; return; end if;
EL1: pos := Adv(pos);
     call parseExpression(LOWEST);
EL2: acc := Append(acc, node.k);
EL3: while Tok(toks, pos + 1) = "COMMA" do
       pos := Adv(Adv(pos));
       call parseExpression(LOWEST);
EL4:   acc := Append(acc, node.k);
     end while;
     if Tok(toks, pos + 1) # endTok then errs := TRUE; list := <<"nil-list">>; else pos := Adv(pos); list := acc; end if;
     return;
end procedure;

procedure parseCallExpression(fnode)
variables res = Nil;
begin
CA0: if fnode.k = "nil" then
       if Guards then node := Nil; return;
       else panicked := TRUE; node := Nil; return;       \* function.String() on nil
       end if;
     end if;
CA1: call parseExpressionList("RP");
CA2: res := N("call");
     if Tok(toks, pos + 1) = "LB" then
       pos := Adv(pos);
       call parseBlockStatement();
CA3:   res := [res EXCEPT !.blk = TRUE];
     end if;
CA4: if Tok(toks, pos + 1) = "DOT" then
       pos := Adv(Adv(pos));
       call parseExpression(LOWEST);
CA5:   \* assignCallee: index (with identifier left), call, identifier are accepted
       if (node.k = "index" /\ node.lk = "ident") \/ node.k \in {"call", "ident"} then node := res;
       else errs := TRUE; node := Nil;
       end if;
       return;
     else
       node := res;
       return;
     end if;
end procedure;

procedure parseIndexExpression(lnode)
variables res = Nil;
begin
IX0: if lnode.k = "nil" /\ Guards then node := Nil; return; end if;
IX1: pos := Adv(pos);
     call parseExpression(LOWEST);
IX2: if Tok(toks, pos + 1) # "RK" then errs := TRUE; node := Nil; return; end if;
IX3: pos := Adv(pos);
     res := [N("index") EXCEPT !.lk = lnode.k];
IX3b: if Tok(toks, pos + 1) = "DOT" then
       if lnode.k = "nil" then panicked := TRUE; end if;        \* left.String() on nil
       pos := Adv(Adv(pos));
       call parseExpression(LOWEST);
IX4:   if ~((node.k = "index" /\ node.lk = "ident") \/ node.k \in {"call", "ident"}) then
         errs := TRUE; node := Nil; return;
       end if;
     end if;
IX5: if Tok(toks, pos + 1) = "ASSIGN" then
       pos := Adv(Adv(pos));
       call parseExpression(LOWEST);
     end if;
IX6: node := res;
     return;
end procedure;

procedure parseIfExpression()
begin
IF0: if Tok(toks, pos + 1) # "LP" then errs := TRUE; node := Nil; return; end if;
IF1: pos := Adv(Adv(pos));
     call parseExpression(LOWEST);
IF2: \* confrimIfCondition (one level: the model does not keep operands)
     if ~Comparable(node) then errs := TRUE; node := Nil; return; end if;
IF3: if Tok(toks, pos + 1) # "RP" then errs := TRUE; node := Nil; return; end if;
IF4: pos := Adv(pos);
     if Tok(toks, pos + 1) # "LB" then errs := TRUE; node := Nil; return; end if;
IF5: pos := Adv(pos);
     call parseBlockStatement();
IF6: while Tok(toks, pos + 1) = "ELSE" do
       pos := Adv(pos);
IF6b:  if Tok(toks, pos + 1) = "IF" then
         pos := Adv(pos);
         \* parseElseIfExpression
         if Tok(toks, pos + 1) # "LP" then errs := TRUE; node := Nil; return; end if;
IF7:     pos := Adv(Adv(pos));
         call parseExpression(LOWEST);
IF8:     if Tok(toks, pos + 1) # "RP" then errs := TRUE; node := Nil; return; end if;
IF9:     pos := Adv(pos);
         if Tok(toks, pos + 1) # "LB" then errs := TRUE; node := Nil; return; end if;
IFA:     pos := Adv(pos);
         call parseBlockStatement();
       else
         if Tok(toks, pos + 1) # "LB" then errs := TRUE; node := Nil; return; end if;
IFB:     pos := Adv(pos);
         call parseBlockStatement();
       end if;
     end while;
     node := N("if");
     return;
end procedure;

procedure parseForExpression()
variables was = FALSE;
begin
FO0: if Tok(toks, pos + 1) # "LP" then errs := TRUE; node := Nil; return; end if;
FO1: pos := Adv(pos);
     was := inFor;
     inFor := TRUE;
FO2: while Tok(toks, pos) # "RP" do
       if Tok(toks, pos + 1) \in {"LB", "EOF"} then errs := TRUE; inFor := was; node := Nil; return; end if;
FO3:   pos := Adv(pos);
     end while;
     pos := Adv(pos);
     if Tok(toks, pos) # "IN" then inFor := was; node := Nil; return; end if;
FO4: pos := Adv(pos);
     call parseExpression(LOWEST);
FO5: if node.k = "call" /\ node.blk then inFor := was; node := N("for"); return; end if;   \* the call took the loop's block
FO6: if Tok(toks, pos + 1) # "LB" then errs := TRUE; inFor := was; node := Nil; return; end if;
FO7: pos := Adv(pos);
     call parseBlockStatement();
FO8: inFor := was;
     node := N("for");
     return;
end procedure;

procedure parseFunctionLiteral()
variables was = FALSE;
begin
FN0: if Tok(toks, pos + 1) # "LP" then errs := TRUE; node := Nil; return; end if;
FN1: pos := Adv(pos);
     was := inFor;
     \* parseFunctionParameters
FN1b: if Tok(toks, pos + 1) = "RP" then
       pos := Adv(pos);
     else
       pos := Adv(pos);
FN2:   while Tok(toks, pos + 1) = "COMMA" do
         pos := Adv(Adv(pos));
       end while;
       if Tok(toks, pos + 1) # "RP" then errs := TRUE; else pos := Adv(pos); end if;
     end if;
FN3: if Tok(toks, pos + 1) # "LB" then errs := TRUE; node := Nil; return; end if;
FN4: inFor := FALSE;
     pos := Adv(pos);
     call parseBlockStatement();
FN5: inFor := was;
     node := N("fn");
     return;
end procedure;

procedure parseHashLiteral()
begin
HA0: while Tok(toks, pos + 1) # "RB" do
       pos := Adv(pos);
       call parseExpression(LOWEST);
HA1:   if Tok(toks, pos + 1) # "COLON" then errs := TRUE; node := Nil; return; end if;
HA2:   pos := Adv(Adv(pos));
       call parseExpression(LOWEST);
HA3:   if Tok(toks, pos + 1) # "RB" then
         if Tok(toks, pos + 1) # "COMMA" then errs := TRUE; node := Nil; return; else pos := Adv(pos); end if;
       end if;
     end while;
     pos := Adv(pos);
     node := N("hash");
     return;
end procedure;

begin
MAIN: call parseProgram();
FIN:  skip;
end algorithm; *)
\* BEGIN TRANSLATION (chksum(pcal) = "7c28162a" /\ chksum(tla) = "db209ac3")
\* Procedure variable res of procedure parseCallExpression at line 237 col 11 changed to res_
\* Procedure variable was of procedure parseForExpression at line 326 col 11 changed to was_
CONSTANT defaultInitValue
VARIABLES pc, toks, pos, node, list, errs, inFor, panicked, stack

(* define statement *)
Adv(p) == IF p > Len(toks) THEN p ELSE p + 1

VARIABLES prec, left, l, p, endTok, acc, fnode, res_, lnode, res, was_, was

vars == << pc, toks, pos, node, list, errs, inFor, panicked, stack, prec, 
           left, l, p, endTok, acc, fnode, res_, lnode, res, was_, was >>

Init == (* Global variables *)
        /\ toks \in Inputs
        /\ pos = 1
        /\ node = Nil
        /\ list = <<>>
        /\ errs = FALSE
        /\ inFor = FALSE
        /\ panicked = FALSE
        (* Procedure parseExpression *)
        /\ prec = defaultInitValue
        /\ left = Nil
        (* Procedure parseInfixExpression *)
        /\ l = defaultInitValue
        /\ p = LOWEST
        (* Procedure parseExpressionList *)
        /\ endTok = defaultInitValue
        /\ acc = <<>>
        (* Procedure parseCallExpression *)
        /\ fnode = defaultInitValue
        /\ res_ = Nil
        (* Procedure parseIndexExpression *)
        /\ lnode = defaultInitValue
        /\ res = Nil
        (* Procedure parseForExpression *)
        /\ was_ = FALSE
        (* Procedure parseFunctionLiteral *)
        /\ was = FALSE
        /\ stack = << >>
        /\ pc = "MAIN"

PG0 == /\ pc = "PG0"
       /\ IF Tok(toks, pos) # "EOF"
             THEN /\ stack' = << [ procedure |->  "parseStatement",
                                   pc        |->  "PG1" ] >>
                               \o stack
                  /\ pc' = "ST0"
             ELSE /\ pc' = Head(stack).pc
                  /\ stack' = Tail(stack)
       /\ UNCHANGED << toks, pos, node, list, errs, inFor, panicked, prec, 
                       left, l, p, endTok, acc, fnode, res_, lnode, res, was_, 
                       was >>

PG1 == /\ pc = "PG1"
       /\ pos' = Adv(pos)
       /\ pc' = "PG0"
       /\ UNCHANGED << toks, node, list, errs, inFor, panicked, stack, prec, 
                       left, l, p, endTok, acc, fnode, res_, lnode, res, was_, 
                       was >>

parseProgram == PG0 \/ PG1

ST0 == /\ pc = "ST0"
       /\ IF Tok(toks, pos) = "LET"
             THEN /\ stack' = << [ procedure |->  "parseLetStatement",
                                   pc        |->  "ST1" ] >>
                               \o stack
                  /\ pc' = "LS0"
                  /\ UNCHANGED << pos, node, prec, left >>
             ELSE /\ IF Tok(toks, pos) = "SST"
                        THEN /\ pos' = Adv(pos)
                             /\ stack' = << [ procedure |->  "parseStatement",
                                              pc        |->  "ST2" ] >>
                                          \o stack
                             /\ pc' = "ST0"
                             /\ UNCHANGED << node, prec, left >>
                        ELSE /\ IF Tok(toks, pos) \in {"RET", "EST"}
                                   THEN /\ pos' = Adv(pos)
                                        /\ /\ prec' = LOWEST
                                           /\ stack' = << [ procedure |->  "parseExpression",
                                                            pc        |->  "ST3",
                                                            left      |->  left,
                                                            prec      |->  prec ] >>
                                                        \o stack
                                        /\ left' = Nil
                                        /\ pc' = "EX0"
                                        /\ node' = node
                                   ELSE /\ IF Tok(toks, pos) \in {"RB", "EOF"}
                                              THEN /\ node' = Nil
                                                   /\ pc' = Head(stack).pc
                                                   /\ stack' = Tail(stack)
                                                   /\ UNCHANGED << prec, left >>
                                              ELSE /\ /\ prec' = LOWEST
                                                      /\ stack' = << [ procedure |->  "parseExpression",
                                                                       pc        |->  "ST4",
                                                                       left      |->  left,
                                                                       prec      |->  prec ] >>
                                                                   \o stack
                                                   /\ left' = Nil
                                                   /\ pc' = "EX0"
                                                   /\ node' = node
                                        /\ pos' = pos
       /\ UNCHANGED << toks, list, errs, inFor, panicked, l, p, endTok, acc, 
                       fnode, res_, lnode, res, was_, was >>

ST1 == /\ pc = "ST1"
       /\ pc' = Head(stack).pc
       /\ stack' = Tail(stack)
       /\ UNCHANGED << toks, pos, node, list, errs, inFor, panicked, prec, 
                       left, l, p, endTok, acc, fnode, res_, lnode, res, was_, 
                       was >>

ST2 == /\ pc = "ST2"
       /\ pc' = Head(stack).pc
       /\ stack' = Tail(stack)
       /\ UNCHANGED << toks, pos, node, list, errs, inFor, panicked, prec, 
                       left, l, p, endTok, acc, fnode, res_, lnode, res, was_, 
                       was >>

ST3 == /\ pc = "ST3"
       /\ IF Tok(toks, pos + 1) = "SEMI"
             THEN /\ pos' = Adv(pos)
             ELSE /\ TRUE
                  /\ pos' = pos
       /\ node' = N("stmt")
       /\ pc' = Head(stack).pc
       /\ stack' = Tail(stack)
       /\ UNCHANGED << toks, list, errs, inFor, panicked, prec, left, l, p, 
                       endTok, acc, fnode, res_, lnode, res, was_, was >>

ST4 == /\ pc = "ST4"
       /\ IF Tok(toks, pos + 1) = "SEMI"
             THEN /\ pos' = Adv(pos)
             ELSE /\ TRUE
                  /\ pos' = pos
       /\ node' = N("stmt")
       /\ pc' = Head(stack).pc
       /\ stack' = Tail(stack)
       /\ UNCHANGED << toks, list, errs, inFor, panicked, prec, left, l, p, 
                       endTok, acc, fnode, res_, lnode, res, was_, was >>

parseStatement == ST0 \/ ST1 \/ ST2 \/ ST3 \/ ST4

LS0 == /\ pc = "LS0"
       /\ IF Tok(toks, pos + 1) # "ID"
             THEN /\ errs' = TRUE
                  /\ node' = N("stmt")
                  /\ pc' = Head(stack).pc
                  /\ stack' = Tail(stack)
             ELSE /\ pc' = "LS1"
                  /\ UNCHANGED << node, errs, stack >>
       /\ UNCHANGED << toks, pos, list, inFor, panicked, prec, left, l, p, 
                       endTok, acc, fnode, res_, lnode, res, was_, was >>

LS1 == /\ pc = "LS1"
       /\ pos' = Adv(pos)
       /\ IF Tok(toks, pos' + 1) # "ASSIGN"
             THEN /\ errs' = TRUE
                  /\ node' = N("stmt")
                  /\ pc' = Head(stack).pc
                  /\ stack' = Tail(stack)
             ELSE /\ pc' = "LS2"
                  /\ UNCHANGED << node, errs, stack >>
       /\ UNCHANGED << toks, list, inFor, panicked, prec, left, l, p, endTok, 
                       acc, fnode, res_, lnode, res, was_, was >>

LS2 == /\ pc = "LS2"
       /\ pos' = Adv(Adv(pos))
       /\ /\ prec' = LOWEST
          /\ stack' = << [ procedure |->  "parseExpression",
                           pc        |->  "LS3",
                           left      |->  left,
                           prec      |->  prec ] >>
                       \o stack
       /\ left' = Nil
       /\ pc' = "EX0"
       /\ UNCHANGED << toks, node, list, errs, inFor, panicked, l, p, endTok, 
                       acc, fnode, res_, lnode, res, was_, was >>

LS3 == /\ pc = "LS3"
       /\ IF Tok(toks, pos + 1) = "SEMI"
             THEN /\ pos' = Adv(pos)
             ELSE /\ TRUE
                  /\ pos' = pos
       /\ node' = N("stmt")
       /\ pc' = Head(stack).pc
       /\ stack' = Tail(stack)
       /\ UNCHANGED << toks, list, errs, inFor, panicked, prec, left, l, p, 
                       endTok, acc, fnode, res_, lnode, res, was_, was >>

parseLetStatement == LS0 \/ LS1 \/ LS2 \/ LS3

BL0 == /\ pc = "BL0"
       /\ pos' = Adv(pos)
       /\ pc' = "BL1"
       /\ UNCHANGED << toks, node, list, errs, inFor, panicked, stack, prec, 
                       left, l, p, endTok, acc, fnode, res_, lnode, res, was_, 
                       was >>

BL1 == /\ pc = "BL1"
       /\ IF Tok(toks, pos) # "RB" /\ Tok(toks, pos) # "EOF"
             THEN /\ IF Tok(toks, pos) \in {"SST", "END"}
                        THEN /\ pos' = Adv(pos)
                             /\ pc' = "BL1"
                             /\ stack' = stack
                        ELSE /\ stack' = << [ procedure |->  "parseStatement",
                                              pc        |->  "BL2" ] >>
                                          \o stack
                             /\ pc' = "ST0"
                             /\ pos' = pos
                  /\ node' = node
             ELSE /\ node' = N("block")
                  /\ pc' = Head(stack).pc
                  /\ stack' = Tail(stack)
                  /\ pos' = pos
       /\ UNCHANGED << toks, list, errs, inFor, panicked, prec, left, l, p, 
                       endTok, acc, fnode, res_, lnode, res, was_, was >>

BL2 == /\ pc = "BL2"
       /\ pos' = Adv(pos)
       /\ pc' = "BL1"
       /\ UNCHANGED << toks, node, list, errs, inFor, panicked, stack, prec, 
                       left, l, p, endTok, acc, fnode, res_, lnode, res, was_, 
                       was >>

parseBlockStatement == BL0 \/ BL1 \/ BL2

EX0 == /\ pc = "EX0"
       /\ IF Tok(toks, pos) = "LET"
             THEN /\ node' = Nil
                  /\ pc' = Head(stack).pc
                  /\ left' = Head(stack).left
                  /\ prec' = Head(stack).prec
                  /\ stack' = Tail(stack)
             ELSE /\ pc' = "EX1"
                  /\ UNCHANGED << node, stack, prec, left >>
       /\ UNCHANGED << toks, pos, list, errs, inFor, panicked, l, p, endTok, 
                       acc, fnode, res_, lnode, res, was_, was >>

EX1 == /\ pc = "EX1"
       /\ IF Tok(toks, pos) \notin PrefixToks
             THEN /\ errs' = TRUE
                  /\ node' = Nil
                  /\ pc' = Head(stack).pc
                  /\ left' = Head(stack).left
                  /\ prec' = Head(stack).prec
                  /\ stack' = Tail(stack)
             ELSE /\ pc' = "EX2"
                  /\ UNCHANGED << node, errs, stack, prec, left >>
       /\ UNCHANGED << toks, pos, list, inFor, panicked, l, p, endTok, acc, 
                       fnode, res_, lnode, res, was_, was >>

EX2 == /\ pc = "EX2"
       /\ stack' = << [ procedure |->  "prefix",
                        pc        |->  "EX3" ] >>
                    \o stack
       /\ pc' = "PF0"
       /\ UNCHANGED << toks, pos, node, list, errs, inFor, panicked, prec, 
                       left, l, p, endTok, acc, fnode, res_, lnode, res, was_, 
                       was >>

EX3 == /\ pc = "EX3"
       /\ left' = node
       /\ pc' = "EX4"
       /\ UNCHANGED << toks, pos, node, list, errs, inFor, panicked, stack, 
                       prec, l, p, endTok, acc, fnode, res_, lnode, res, was_, 
                       was >>

EX4 == /\ pc = "EX4"
       /\ IF Tok(toks, pos + 1) # "SEMI" /\ prec < Prec(Tok(toks, pos + 1))
             THEN /\ pos' = Adv(pos)
                  /\ IF Tok(toks, pos') = "LP"
                        THEN /\ /\ fnode' = left
                                /\ stack' = << [ procedure |->  "parseCallExpression",
                                                 pc        |->  "EX5",
                                                 res_      |->  res_,
                                                 fnode     |->  fnode ] >>
                                             \o stack
                             /\ res_' = Nil
                             /\ pc' = "CA0"
                             /\ UNCHANGED << l, p, lnode, res >>
                        ELSE /\ IF Tok(toks, pos') = "LK"
                                   THEN /\ /\ lnode' = left
                                           /\ stack' = << [ procedure |->  "parseIndexExpression",
                                                            pc        |->  "EX5",
                                                            res       |->  res,
                                                            lnode     |->  lnode ] >>
                                                        \o stack
                                        /\ res' = Nil
                                        /\ pc' = "IX0"
                                        /\ UNCHANGED << l, p >>
                                   ELSE /\ /\ l' = left
                                           /\ stack' = << [ procedure |->  "parseInfixExpression",
                                                            pc        |->  "EX5",
                                                            p         |->  p,
                                                            l         |->  l ] >>
                                                        \o stack
                                        /\ p' = LOWEST
                                        /\ pc' = "IN0"
                                        /\ UNCHANGED << lnode, res >>
                             /\ UNCHANGED << fnode, res_ >>
                  /\ UNCHANGED << node, prec, left >>
             ELSE /\ node' = left
                  /\ pc' = Head(stack).pc
                  /\ left' = Head(stack).left
                  /\ prec' = Head(stack).prec
                  /\ stack' = Tail(stack)
                  /\ UNCHANGED << pos, l, p, fnode, res_, lnode, res >>
       /\ UNCHANGED << toks, list, errs, inFor, panicked, endTok, acc, was_, 
                       was >>

EX5 == /\ pc = "EX5"
       /\ left' = node
       /\ pc' = "EX4"
       /\ UNCHANGED << toks, pos, node, list, errs, inFor, panicked, stack, 
                       prec, l, p, endTok, acc, fnode, res_, lnode, res, was_, 
                       was >>

parseExpression == EX0 \/ EX1 \/ EX2 \/ EX3 \/ EX4 \/ EX5

PF0 == /\ pc = "PF0"
       /\ IF Tok(toks, pos) = "ID"
             THEN /\ IF Tok(toks, pos + 1) = "ASSIGN"
                        THEN /\ stack' = << [ procedure |->  "parseAssignExpression",
                                              pc        |->  "PF1" ] >>
                                          \o stack
                             /\ pc' = "AS0"
                             /\ node' = node
                        ELSE /\ node' = N("ident")
                             /\ pc' = Head(stack).pc
                             /\ stack' = Tail(stack)
                  /\ UNCHANGED << pos, errs, prec, left, endTok, acc, was_, 
                                  was >>
             ELSE /\ IF Tok(toks, pos) = "BRK"
                        THEN /\ IF ~inFor
                                   THEN /\ errs' = TRUE
                                        /\ node' = Nil
                                   ELSE /\ node' = N("ctl")
                                        /\ errs' = errs
                             /\ pc' = Head(stack).pc
                             /\ stack' = Tail(stack)
                             /\ UNCHANGED << pos, prec, left, endTok, acc, 
                                             was_, was >>
                        ELSE /\ IF Tok(toks, pos) = "ATOM"
                                   THEN /\ node' = N("atom")
                                        /\ pc' = Head(stack).pc
                                        /\ stack' = Tail(stack)
                                        /\ UNCHANGED << pos, errs, prec, left, 
                                                        endTok, acc, was_, was >>
                                   ELSE /\ IF Tok(toks, pos) = "BAD"
                                              THEN /\ errs' = TRUE
                                                   /\ node' = Nil
                                                   /\ pc' = Head(stack).pc
                                                   /\ stack' = Tail(stack)
                                                   /\ UNCHANGED << pos, prec, 
                                                                   left, 
                                                                   endTok, acc, 
                                                                   was_, was >>
                                              ELSE /\ IF Tok(toks, pos) \in {"BANG", "MINUS"}
                                                         THEN /\ pos' = Adv(pos)
                                                              /\ /\ prec' = PREFIX
                                                                 /\ stack' = << [ procedure |->  "parseExpression",
                                                                                  pc        |->  "PF2",
                                                                                  left      |->  left,
                                                                                  prec      |->  prec ] >>
                                                                              \o stack
                                                              /\ left' = Nil
                                                              /\ pc' = "EX0"
                                                              /\ UNCHANGED << node, 
                                                                              endTok, 
                                                                              acc, 
                                                                              was_, 
                                                                              was >>
                                                         ELSE /\ IF Tok(toks, pos) = "LP"
                                                                    THEN /\ pos' = Adv(pos)
                                                                         /\ /\ prec' = LOWEST
                                                                            /\ stack' = << [ procedure |->  "parseExpression",
                                                                                             pc        |->  "PF3",
                                                                                             left      |->  left,
                                                                                             prec      |->  prec ] >>
                                                                                         \o stack
                                                                         /\ left' = Nil
                                                                         /\ pc' = "EX0"
                                                                         /\ UNCHANGED << node, 
                                                                                         endTok, 
                                                                                         acc, 
                                                                                         was_, 
                                                                                         was >>
                                                                    ELSE /\ IF Tok(toks, pos) = "IF"
                                                                               THEN /\ stack' = << [ procedure |->  "parseIfExpression",
                                                                                                     pc        |->  "PF4" ] >>
                                                                                                 \o stack
                                                                                    /\ pc' = "IF0"
                                                                                    /\ UNCHANGED << node, 
                                                                                                    endTok, 
                                                                                                    acc, 
                                                                                                    was_, 
                                                                                                    was >>
                                                                               ELSE /\ IF Tok(toks, pos) = "FOR"
                                                                                          THEN /\ stack' = << [ procedure |->  "parseForExpression",
                                                                                                                pc        |->  "PF5",
                                                                                                                was_      |->  was_ ] >>
                                                                                                            \o stack
                                                                                               /\ was_' = FALSE
                                                                                               /\ pc' = "FO0"
                                                                                               /\ UNCHANGED << node, 
                                                                                                               endTok, 
                                                                                                               acc, 
                                                                                                               was >>
                                                                                          ELSE /\ IF Tok(toks, pos) = "FN"
                                                                                                     THEN /\ stack' = << [ procedure |->  "parseFunctionLiteral",
                                                                                                                           pc        |->  "PF6",
                                                                                                                           was       |->  was ] >>
                                                                                                                       \o stack
                                                                                                          /\ was' = FALSE
                                                                                                          /\ pc' = "FN0"
                                                                                                          /\ UNCHANGED << node, 
                                                                                                                          endTok, 
                                                                                                                          acc >>
                                                                                                     ELSE /\ IF Tok(toks, pos) = "LK"
                                                                                                                THEN /\ /\ endTok' = "RK"
                                                                                                                        /\ stack' = << [ procedure |->  "parseExpressionList",
                                                                                                                                         pc        |->  "PF7",
                                                                                                                                         acc       |->  acc,
                                                                                                                                         endTok    |->  endTok ] >>
                                                                                                                                     \o stack
                                                                                                                     /\ acc' = <<>>
                                                                                                                     /\ pc' = "EL0"
                                                                                                                     /\ node' = node
                                                                                                                ELSE /\ IF Tok(toks, pos) = "LB"
                                                                                                                           THEN /\ stack' = << [ procedure |->  "parseHashLiteral",
                                                                                                                                                 pc        |->  "PF8" ] >>
                                                                                                                                             \o stack
                                                                                                                                /\ pc' = "HA0"
                                                                                                                                /\ node' = node
                                                                                                                           ELSE /\ IF Tok(toks, pos) = "HTML"
                                                                                                                                      THEN /\ node' = N("html")
                                                                                                                                           /\ pc' = Head(stack).pc
                                                                                                                                           /\ stack' = Tail(stack)
                                                                                                                                      ELSE /\ IF Tok(toks, pos) = "CST"
                                                                                                                                                 THEN /\ pc' = "PF9"
                                                                                                                                                      /\ UNCHANGED << node, 
                                                                                                                                                                      stack >>
                                                                                                                                                 ELSE /\ node' = Nil
                                                                                                                                                      /\ pc' = Head(stack).pc
                                                                                                                                                      /\ stack' = Tail(stack)
                                                                                                                     /\ UNCHANGED << endTok, 
                                                                                                                                     acc >>
                                                                                                          /\ was' = was
                                                                                               /\ was_' = was_
                                                                         /\ UNCHANGED << pos, 
                                                                                         prec, 
                                                                                         left >>
                                                   /\ errs' = errs
       /\ UNCHANGED << toks, list, inFor, panicked, l, p, fnode, res_, lnode, 
                       res >>

PF1 == /\ pc = "PF1"
       /\ pc' = Head(stack).pc
       /\ stack' = Tail(stack)
       /\ UNCHANGED << toks, pos, node, list, errs, inFor, panicked, prec, 
                       left, l, p, endTok, acc, fnode, res_, lnode, res, was_, 
                       was >>

PF2 == /\ pc = "PF2"
       /\ node' = [N("prefix") EXCEPT !.cond = node.cond]
       /\ pc' = Head(stack).pc
       /\ stack' = Tail(stack)
       /\ UNCHANGED << toks, pos, list, errs, inFor, panicked, prec, left, l, 
                       p, endTok, acc, fnode, res_, lnode, res, was_, was >>

PF3 == /\ pc = "PF3"
       /\ IF Tok(toks, pos + 1) # "RP"
             THEN /\ errs' = TRUE
                  /\ node' = Nil
                  /\ pos' = pos
             ELSE /\ pos' = Adv(pos)
                  /\ UNCHANGED << node, errs >>
       /\ pc' = Head(stack).pc
       /\ stack' = Tail(stack)
       /\ UNCHANGED << toks, list, inFor, panicked, prec, left, l, p, endTok, 
                       acc, fnode, res_, lnode, res, was_, was >>

PF4 == /\ pc = "PF4"
       /\ pc' = Head(stack).pc
       /\ stack' = Tail(stack)
       /\ UNCHANGED << toks, pos, node, list, errs, inFor, panicked, prec, 
                       left, l, p, endTok, acc, fnode, res_, lnode, res, was_, 
                       was >>

PF5 == /\ pc = "PF5"
       /\ pc' = Head(stack).pc
       /\ stack' = Tail(stack)
       /\ UNCHANGED << toks, pos, node, list, errs, inFor, panicked, prec, 
                       left, l, p, endTok, acc, fnode, res_, lnode, res, was_, 
                       was >>

PF6 == /\ pc = "PF6"
       /\ pc' = Head(stack).pc
       /\ stack' = Tail(stack)
       /\ UNCHANGED << toks, pos, node, list, errs, inFor, panicked, prec, 
                       left, l, p, endTok, acc, fnode, res_, lnode, res, was_, 
                       was >>

PF7 == /\ pc = "PF7"
       /\ node' = N("array")
       /\ pc' = Head(stack).pc
       /\ stack' = Tail(stack)
       /\ UNCHANGED << toks, pos, list, errs, inFor, panicked, prec, left, l, 
                       p, endTok, acc, fnode, res_, lnode, res, was_, was >>

PF8 == /\ pc = "PF8"
       /\ pc' = Head(stack).pc
       /\ stack' = Tail(stack)
       /\ UNCHANGED << toks, pos, node, list, errs, inFor, panicked, prec, 
                       left, l, p, endTok, acc, fnode, res_, lnode, res, was_, 
                       was >>

PF9 == /\ pc = "PF9"
       /\ IF Tok(toks, pos) # "END" /\ (Guards => Tok(toks, pos) # "EOF")
             THEN /\ pos' = Adv(pos)
                  /\ pc' = "PF9"
                  /\ UNCHANGED << node, stack >>
             ELSE /\ node' = N("comment")
                  /\ pc' = Head(stack).pc
                  /\ stack' = Tail(stack)
                  /\ pos' = pos
       /\ UNCHANGED << toks, list, errs, inFor, panicked, prec, left, l, p, 
                       endTok, acc, fnode, res_, lnode, res, was_, was >>

prefix == PF0 \/ PF1 \/ PF2 \/ PF3 \/ PF4 \/ PF5 \/ PF6 \/ PF7 \/ PF8
             \/ PF9

AS0 == /\ pc = "AS0"
       /\ pos' = Adv(Adv(pos))
       /\ /\ prec' = LOWEST
          /\ stack' = << [ procedure |->  "parseExpression",
                           pc        |->  "AS1",
                           left      |->  left,
                           prec      |->  prec ] >>
                       \o stack
       /\ left' = Nil
       /\ pc' = "EX0"
       /\ UNCHANGED << toks, node, list, errs, inFor, panicked, l, p, endTok, 
                       acc, fnode, res_, lnode, res, was_, was >>

AS1 == /\ pc = "AS1"
       /\ IF Tok(toks, pos + 1) = "SEMI"
             THEN /\ pos' = Adv(pos)
             ELSE /\ TRUE
                  /\ pos' = pos
       /\ node' = N("assign")
       /\ pc' = Head(stack).pc
       /\ stack' = Tail(stack)
       /\ UNCHANGED << toks, list, errs, inFor, panicked, prec, left, l, p, 
                       endTok, acc, fnode, res_, lnode, res, was_, was >>

parseAssignExpression == AS0 \/ AS1

IN0 == /\ pc = "IN0"
       /\ p' = Prec(Tok(toks, pos))
       /\ pos' = Adv(pos)
       /\ /\ prec' = p'
          /\ stack' = << [ procedure |->  "parseExpression",
                           pc        |->  "IN1",
                           left      |->  left,
                           prec      |->  prec ] >>
                       \o stack
       /\ left' = Nil
       /\ pc' = "EX0"
       /\ UNCHANGED << toks, node, list, errs, inFor, panicked, l, endTok, acc, 
                       fnode, res_, lnode, res, was_, was >>

IN1 == /\ pc = "IN1"
       /\ node' = [N("infix") EXCEPT !.cond = l.cond /\ node.cond]
       /\ pc' = Head(stack).pc
       /\ p' = Head(stack).p
       /\ l' = Head(stack).l
       /\ stack' = Tail(stack)
       /\ UNCHANGED << toks, pos, list, errs, inFor, panicked, prec, left, 
                       endTok, acc, fnode, res_, lnode, res, was_, was >>

parseInfixExpression == IN0 \/ IN1

EL0 == /\ pc = "EL0"
       /\ IF Tok(toks, pos + 1) = endTok
             THEN /\ pos' = Adv(pos)
                  /\ list' = <<>>
                  /\ pc' = Head(stack).pc
                  /\ acc' = Head(stack).acc
                  /\ endTok' = Head(stack).endTok
                  /\ stack' = Tail(stack)
             ELSE /\ pc' = "EL1"
                  /\ UNCHANGED << pos, list, stack, endTok, acc >>
       /\ UNCHANGED << toks, node, errs, inFor, panicked, prec, left, l, p, 
                       fnode, res_, lnode, res, was_, was >>

EL1 == /\ pc = "EL1"
       /\ pos' = Adv(pos)
       /\ /\ prec' = LOWEST
          /\ stack' = << [ procedure |->  "parseExpression",
                           pc        |->  "EL2",
                           left      |->  left,
                           prec      |->  prec ] >>
                       \o stack
       /\ left' = Nil
       /\ pc' = "EX0"
       /\ UNCHANGED << toks, node, list, errs, inFor, panicked, l, p, endTok, 
                       acc, fnode, res_, lnode, res, was_, was >>

EL2 == /\ pc = "EL2"
       /\ acc' = Append(acc, node.k)
       /\ pc' = "EL3"
       /\ UNCHANGED << toks, pos, node, list, errs, inFor, panicked, stack, 
                       prec, left, l, p, endTok, fnode, res_, lnode, res, was_, 
                       was >>

EL3 == /\ pc = "EL3"
       /\ IF Tok(toks, pos + 1) = "COMMA"
             THEN /\ pos' = Adv(Adv(pos))
                  /\ /\ prec' = LOWEST
                     /\ stack' = << [ procedure |->  "parseExpression",
                                      pc        |->  "EL4",
                                      left      |->  left,
                                      prec      |->  prec ] >>
                                  \o stack
                  /\ left' = Nil
                  /\ pc' = "EX0"
                  /\ UNCHANGED << list, errs, endTok, acc >>
             ELSE /\ IF Tok(toks, pos + 1) # endTok
                        THEN /\ errs' = TRUE
                             /\ list' = <<"nil-list">>
                             /\ pos' = pos
                        ELSE /\ pos' = Adv(pos)
                             /\ list' = acc
                             /\ errs' = errs
                  /\ pc' = Head(stack).pc
                  /\ acc' = Head(stack).acc
                  /\ endTok' = Head(stack).endTok
                  /\ stack' = Tail(stack)
                  /\ UNCHANGED << prec, left >>
       /\ UNCHANGED << toks, node, inFor, panicked, l, p, fnode, res_, lnode, 
                       res, was_, was >>

EL4 == /\ pc = "EL4"
       /\ acc' = Append(acc, node.k)
       /\ pc' = "EL3"
       /\ UNCHANGED << toks, pos, node, list, errs, inFor, panicked, stack, 
                       prec, left, l, p, endTok, fnode, res_, lnode, res, was_, 
                       was >>

parseExpressionList == EL0 \/ EL1 \/ EL2 \/ EL3 \/ EL4

CA0 == /\ pc = "CA0"
       /\ IF fnode.k = "nil"
             THEN /\ IF Guards
                        THEN /\ node' = Nil
                             /\ pc' = Head(stack).pc
                             /\ res_' = Head(stack).res_
                             /\ fnode' = Head(stack).fnode
                             /\ stack' = Tail(stack)
                             /\ UNCHANGED panicked
                        ELSE /\ panicked' = TRUE
                             /\ node' = Nil
                             /\ pc' = Head(stack).pc
                             /\ res_' = Head(stack).res_
                             /\ fnode' = Head(stack).fnode
                             /\ stack' = Tail(stack)
             ELSE /\ pc' = "CA1"
                  /\ UNCHANGED << node, panicked, stack, fnode, res_ >>
       /\ UNCHANGED << toks, pos, list, errs, inFor, prec, left, l, p, endTok, 
                       acc, lnode, res, was_, was >>

CA1 == /\ pc = "CA1"
       /\ /\ endTok' = "RP"
          /\ stack' = << [ procedure |->  "parseExpressionList",
                           pc        |->  "CA2",
                           acc       |->  acc,
                           endTok    |->  endTok ] >>
                       \o stack
       /\ acc' = <<>>
       /\ pc' = "EL0"
       /\ UNCHANGED << toks, pos, node, list, errs, inFor, panicked, prec, 
                       left, l, p, fnode, res_, lnode, res, was_, was >>

CA2 == /\ pc = "CA2"
       /\ res_' = N("call")
       /\ IF Tok(toks, pos + 1) = "LB"
             THEN /\ pos' = Adv(pos)
                  /\ stack' = << [ procedure |->  "parseBlockStatement",
                                   pc        |->  "CA3" ] >>
                               \o stack
                  /\ pc' = "BL0"
             ELSE /\ pc' = "CA4"
                  /\ UNCHANGED << pos, stack >>
       /\ UNCHANGED << toks, node, list, errs, inFor, panicked, prec, left, l, 
                       p, endTok, acc, fnode, lnode, res, was_, was >>

CA3 == /\ pc = "CA3"
       /\ res_' = [res_ EXCEPT !.blk = TRUE]
       /\ pc' = "CA4"
       /\ UNCHANGED << toks, pos, node, list, errs, inFor, panicked, stack, 
                       prec, left, l, p, endTok, acc, fnode, lnode, res, was_, 
                       was >>

CA4 == /\ pc = "CA4"
       /\ IF Tok(toks, pos + 1) = "DOT"
             THEN /\ pos' = Adv(Adv(pos))
                  /\ /\ prec' = LOWEST
                     /\ stack' = << [ procedure |->  "parseExpression",
                                      pc        |->  "CA5",
                                      left      |->  left,
                                      prec      |->  prec ] >>
                                  \o stack
                  /\ left' = Nil
                  /\ pc' = "EX0"
                  /\ UNCHANGED << node, fnode, res_ >>
             ELSE /\ node' = res_
                  /\ pc' = Head(stack).pc
                  /\ res_' = Head(stack).res_
                  /\ fnode' = Head(stack).fnode
                  /\ stack' = Tail(stack)
                  /\ UNCHANGED << pos, prec, left >>
       /\ UNCHANGED << toks, list, errs, inFor, panicked, l, p, endTok, acc, 
                       lnode, res, was_, was >>

CA5 == /\ pc = "CA5"
       /\ IF (node.k = "index" /\ node.lk = "ident") \/ node.k \in {"call", "ident"}
             THEN /\ node' = res_
                  /\ errs' = errs
             ELSE /\ errs' = TRUE
                  /\ node' = Nil
       /\ pc' = Head(stack).pc
       /\ res_' = Head(stack).res_
       /\ fnode' = Head(stack).fnode
       /\ stack' = Tail(stack)
       /\ UNCHANGED << toks, pos, list, inFor, panicked, prec, left, l, p, 
                       endTok, acc, lnode, res, was_, was >>

parseCallExpression == CA0 \/ CA1 \/ CA2 \/ CA3 \/ CA4 \/ CA5

IX0 == /\ pc = "IX0"
       /\ IF lnode.k = "nil" /\ Guards
             THEN /\ node' = Nil
                  /\ pc' = Head(stack).pc
                  /\ res' = Head(stack).res
                  /\ lnode' = Head(stack).lnode
                  /\ stack' = Tail(stack)
             ELSE /\ pc' = "IX1"
                  /\ UNCHANGED << node, stack, lnode, res >>
       /\ UNCHANGED << toks, pos, list, errs, inFor, panicked, prec, left, l, 
                       p, endTok, acc, fnode, res_, was_, was >>

IX1 == /\ pc = "IX1"
       /\ pos' = Adv(pos)
       /\ /\ prec' = LOWEST
          /\ stack' = << [ procedure |->  "parseExpression",
                           pc        |->  "IX2",
                           left      |->  left,
                           prec      |->  prec ] >>
                       \o stack
       /\ left' = Nil
       /\ pc' = "EX0"
       /\ UNCHANGED << toks, node, list, errs, inFor, panicked, l, p, endTok, 
                       acc, fnode, res_, lnode, res, was_, was >>

IX2 == /\ pc = "IX2"
       /\ IF Tok(toks, pos + 1) # "RK"
             THEN /\ errs' = TRUE
                  /\ node' = Nil
                  /\ pc' = Head(stack).pc
                  /\ res' = Head(stack).res
                  /\ lnode' = Head(stack).lnode
                  /\ stack' = Tail(stack)
             ELSE /\ pc' = "IX3"
                  /\ UNCHANGED << node, errs, stack, lnode, res >>
       /\ UNCHANGED << toks, pos, list, inFor, panicked, prec, left, l, p, 
                       endTok, acc, fnode, res_, was_, was >>

IX3 == /\ pc = "IX3"
       /\ pos' = Adv(pos)
       /\ res' = [N("index") EXCEPT !.lk = lnode.k]
       /\ pc' = "IX3b"
       /\ UNCHANGED << toks, node, list, errs, inFor, panicked, stack, prec, 
                       left, l, p, endTok, acc, fnode, res_, lnode, was_, was >>

IX3b == /\ pc = "IX3b"
        /\ IF Tok(toks, pos + 1) = "DOT"
              THEN /\ IF lnode.k = "nil"
                         THEN /\ panicked' = TRUE
                         ELSE /\ TRUE
                              /\ UNCHANGED panicked
                   /\ pos' = Adv(Adv(pos))
                   /\ /\ prec' = LOWEST
                      /\ stack' = << [ procedure |->  "parseExpression",
                                       pc        |->  "IX4",
                                       left      |->  left,
                                       prec      |->  prec ] >>
                                   \o stack
                   /\ left' = Nil
                   /\ pc' = "EX0"
              ELSE /\ pc' = "IX5"
                   /\ UNCHANGED << pos, panicked, stack, prec, left >>
        /\ UNCHANGED << toks, node, list, errs, inFor, l, p, endTok, acc, 
                        fnode, res_, lnode, res, was_, was >>

IX4 == /\ pc = "IX4"
       /\ IF ~((node.k = "index" /\ node.lk = "ident") \/ node.k \in {"call", "ident"})
             THEN /\ errs' = TRUE
                  /\ node' = Nil
                  /\ pc' = Head(stack).pc
                  /\ res' = Head(stack).res
                  /\ lnode' = Head(stack).lnode
                  /\ stack' = Tail(stack)
             ELSE /\ pc' = "IX5"
                  /\ UNCHANGED << node, errs, stack, lnode, res >>
       /\ UNCHANGED << toks, pos, list, inFor, panicked, prec, left, l, p, 
                       endTok, acc, fnode, res_, was_, was >>

IX5 == /\ pc = "IX5"
       /\ IF Tok(toks, pos + 1) = "ASSIGN"
             THEN /\ pos' = Adv(Adv(pos))
                  /\ /\ prec' = LOWEST
                     /\ stack' = << [ procedure |->  "parseExpression",
                                      pc        |->  "IX6",
                                      left      |->  left,
                                      prec      |->  prec ] >>
                                  \o stack
                  /\ left' = Nil
                  /\ pc' = "EX0"
             ELSE /\ pc' = "IX6"
                  /\ UNCHANGED << pos, stack, prec, left >>
       /\ UNCHANGED << toks, node, list, errs, inFor, panicked, l, p, endTok, 
                       acc, fnode, res_, lnode, res, was_, was >>

IX6 == /\ pc = "IX6"
       /\ node' = res
       /\ pc' = Head(stack).pc
       /\ res' = Head(stack).res
       /\ lnode' = Head(stack).lnode
       /\ stack' = Tail(stack)
       /\ UNCHANGED << toks, pos, list, errs, inFor, panicked, prec, left, l, 
                       p, endTok, acc, fnode, res_, was_, was >>

parseIndexExpression == IX0 \/ IX1 \/ IX2 \/ IX3 \/ IX3b \/ IX4 \/ IX5
                           \/ IX6

IF0 == /\ pc = "IF0"
       /\ IF Tok(toks, pos + 1) # "LP"
             THEN /\ errs' = TRUE
                  /\ node' = Nil
                  /\ pc' = Head(stack).pc
                  /\ stack' = Tail(stack)
             ELSE /\ pc' = "IF1"
                  /\ UNCHANGED << node, errs, stack >>
       /\ UNCHANGED << toks, pos, list, inFor, panicked, prec, left, l, p, 
                       endTok, acc, fnode, res_, lnode, res, was_, was >>

IF1 == /\ pc = "IF1"
       /\ pos' = Adv(Adv(pos))
       /\ /\ prec' = LOWEST
          /\ stack' = << [ procedure |->  "parseExpression",
                           pc        |->  "IF2",
                           left      |->  left,
                           prec      |->  prec ] >>
                       \o stack
       /\ left' = Nil
       /\ pc' = "EX0"
       /\ UNCHANGED << toks, node, list, errs, inFor, panicked, l, p, endTok, 
                       acc, fnode, res_, lnode, res, was_, was >>

IF2 == /\ pc = "IF2"
       /\ IF ~Comparable(node)
             THEN /\ errs' = TRUE
                  /\ node' = Nil
                  /\ pc' = Head(stack).pc
                  /\ stack' = Tail(stack)
             ELSE /\ pc' = "IF3"
                  /\ UNCHANGED << node, errs, stack >>
       /\ UNCHANGED << toks, pos, list, inFor, panicked, prec, left, l, p, 
                       endTok, acc, fnode, res_, lnode, res, was_, was >>

IF3 == /\ pc = "IF3"
       /\ IF Tok(toks, pos + 1) # "RP"
             THEN /\ errs' = TRUE
                  /\ node' = Nil
                  /\ pc' = Head(stack).pc
                  /\ stack' = Tail(stack)
             ELSE /\ pc' = "IF4"
                  /\ UNCHANGED << node, errs, stack >>
       /\ UNCHANGED << toks, pos, list, inFor, panicked, prec, left, l, p, 
                       endTok, acc, fnode, res_, lnode, res, was_, was >>

IF4 == /\ pc = "IF4"
       /\ pos' = Adv(pos)
       /\ IF Tok(toks, pos' + 1) # "LB"
             THEN /\ errs' = TRUE
                  /\ node' = Nil
                  /\ pc' = Head(stack).pc
                  /\ stack' = Tail(stack)
             ELSE /\ pc' = "IF5"
                  /\ UNCHANGED << node, errs, stack >>
       /\ UNCHANGED << toks, list, inFor, panicked, prec, left, l, p, endTok, 
                       acc, fnode, res_, lnode, res, was_, was >>

IF5 == /\ pc = "IF5"
       /\ pos' = Adv(pos)
       /\ stack' = << [ procedure |->  "parseBlockStatement",
                        pc        |->  "IF6" ] >>
                    \o stack
       /\ pc' = "BL0"
       /\ UNCHANGED << toks, node, list, errs, inFor, panicked, prec, left, l, 
                       p, endTok, acc, fnode, res_, lnode, res, was_, was >>

IF6 == /\ pc = "IF6"
       /\ IF Tok(toks, pos + 1) = "ELSE"
             THEN /\ pos' = Adv(pos)
                  /\ pc' = "IF6b"
                  /\ UNCHANGED << node, stack >>
             ELSE /\ node' = N("if")
                  /\ pc' = Head(stack).pc
                  /\ stack' = Tail(stack)
                  /\ pos' = pos
       /\ UNCHANGED << toks, list, errs, inFor, panicked, prec, left, l, p, 
                       endTok, acc, fnode, res_, lnode, res, was_, was >>

IF6b == /\ pc = "IF6b"
        /\ IF Tok(toks, pos + 1) = "IF"
              THEN /\ pos' = Adv(pos)
                   /\ IF Tok(toks, pos' + 1) # "LP"
                         THEN /\ errs' = TRUE
                              /\ node' = Nil
                              /\ pc' = Head(stack).pc
                              /\ stack' = Tail(stack)
                         ELSE /\ pc' = "IF7"
                              /\ UNCHANGED << node, errs, stack >>
              ELSE /\ IF Tok(toks, pos + 1) # "LB"
                         THEN /\ errs' = TRUE
                              /\ node' = Nil
                              /\ pc' = Head(stack).pc
                              /\ stack' = Tail(stack)
                         ELSE /\ pc' = "IFB"
                              /\ UNCHANGED << node, errs, stack >>
                   /\ pos' = pos
        /\ UNCHANGED << toks, list, inFor, panicked, prec, left, l, p, endTok, 
                        acc, fnode, res_, lnode, res, was_, was >>

IF7 == /\ pc = "IF7"
       /\ pos' = Adv(Adv(pos))
       /\ /\ prec' = LOWEST
          /\ stack' = << [ procedure |->  "parseExpression",
                           pc        |->  "IF8",
                           left      |->  left,
                           prec      |->  prec ] >>
                       \o stack
       /\ left' = Nil
       /\ pc' = "EX0"
       /\ UNCHANGED << toks, node, list, errs, inFor, panicked, l, p, endTok, 
                       acc, fnode, res_, lnode, res, was_, was >>

IF8 == /\ pc = "IF8"
       /\ IF Tok(toks, pos + 1) # "RP"
             THEN /\ errs' = TRUE
                  /\ node' = Nil
                  /\ pc' = Head(stack).pc
                  /\ stack' = Tail(stack)
             ELSE /\ pc' = "IF9"
                  /\ UNCHANGED << node, errs, stack >>
       /\ UNCHANGED << toks, pos, list, inFor, panicked, prec, left, l, p, 
                       endTok, acc, fnode, res_, lnode, res, was_, was >>

IF9 == /\ pc = "IF9"
       /\ pos' = Adv(pos)
       /\ IF Tok(toks, pos' + 1) # "LB"
             THEN /\ errs' = TRUE
                  /\ node' = Nil
                  /\ pc' = Head(stack).pc
                  /\ stack' = Tail(stack)
             ELSE /\ pc' = "IFA"
                  /\ UNCHANGED << node, errs, stack >>
       /\ UNCHANGED << toks, list, inFor, panicked, prec, left, l, p, endTok, 
                       acc, fnode, res_, lnode, res, was_, was >>

IFA == /\ pc = "IFA"
       /\ pos' = Adv(pos)
       /\ stack' = << [ procedure |->  "parseBlockStatement",
                        pc        |->  "IF6" ] >>
                    \o stack
       /\ pc' = "BL0"
       /\ UNCHANGED << toks, node, list, errs, inFor, panicked, prec, left, l, 
                       p, endTok, acc, fnode, res_, lnode, res, was_, was >>

IFB == /\ pc = "IFB"
       /\ pos' = Adv(pos)
       /\ stack' = << [ procedure |->  "parseBlockStatement",
                        pc        |->  "IF6" ] >>
                    \o stack
       /\ pc' = "BL0"
       /\ UNCHANGED << toks, node, list, errs, inFor, panicked, prec, left, l, 
                       p, endTok, acc, fnode, res_, lnode, res, was_, was >>

parseIfExpression == IF0 \/ IF1 \/ IF2 \/ IF3 \/ IF4 \/ IF5 \/ IF6 \/ IF6b
                        \/ IF7 \/ IF8 \/ IF9 \/ IFA \/ IFB

FO0 == /\ pc = "FO0"
       /\ IF Tok(toks, pos + 1) # "LP"
             THEN /\ errs' = TRUE
                  /\ node' = Nil
                  /\ pc' = Head(stack).pc
                  /\ was_' = Head(stack).was_
                  /\ stack' = Tail(stack)
             ELSE /\ pc' = "FO1"
                  /\ UNCHANGED << node, errs, stack, was_ >>
       /\ UNCHANGED << toks, pos, list, inFor, panicked, prec, left, l, p, 
                       endTok, acc, fnode, res_, lnode, res, was >>

FO1 == /\ pc = "FO1"
       /\ pos' = Adv(pos)
       /\ was_' = inFor
       /\ inFor' = TRUE
       /\ pc' = "FO2"
       /\ UNCHANGED << toks, node, list, errs, panicked, stack, prec, left, l, 
                       p, endTok, acc, fnode, res_, lnode, res, was >>

FO2 == /\ pc = "FO2"
       /\ IF Tok(toks, pos) # "RP"
             THEN /\ IF Tok(toks, pos + 1) \in {"LB", "EOF"}
                        THEN /\ errs' = TRUE
                             /\ inFor' = was_
                             /\ node' = Nil
                             /\ pc' = Head(stack).pc
                             /\ was_' = Head(stack).was_
                             /\ stack' = Tail(stack)
                        ELSE /\ pc' = "FO3"
                             /\ UNCHANGED << node, errs, inFor, stack, was_ >>
                  /\ pos' = pos
             ELSE /\ pos' = Adv(pos)
                  /\ IF Tok(toks, pos') # "IN"
                        THEN /\ inFor' = was_
                             /\ node' = Nil
                             /\ pc' = Head(stack).pc
                             /\ was_' = Head(stack).was_
                             /\ stack' = Tail(stack)
                        ELSE /\ pc' = "FO4"
                             /\ UNCHANGED << node, inFor, stack, was_ >>
                  /\ errs' = errs
       /\ UNCHANGED << toks, list, panicked, prec, left, l, p, endTok, acc, 
                       fnode, res_, lnode, res, was >>

FO3 == /\ pc = "FO3"
       /\ pos' = Adv(pos)
       /\ pc' = "FO2"
       /\ UNCHANGED << toks, node, list, errs, inFor, panicked, stack, prec, 
                       left, l, p, endTok, acc, fnode, res_, lnode, res, was_, 
                       was >>

FO4 == /\ pc = "FO4"
       /\ pos' = Adv(pos)
       /\ /\ prec' = LOWEST
          /\ stack' = << [ procedure |->  "parseExpression",
                           pc        |->  "FO5",
                           left      |->  left,
                           prec      |->  prec ] >>
                       \o stack
       /\ left' = Nil
       /\ pc' = "EX0"
       /\ UNCHANGED << toks, node, list, errs, inFor, panicked, l, p, endTok, 
                       acc, fnode, res_, lnode, res, was_, was >>

FO5 == /\ pc = "FO5"
       /\ IF node.k = "call" /\ node.blk
             THEN /\ inFor' = was_
                  /\ node' = N("for")
                  /\ pc' = Head(stack).pc
                  /\ was_' = Head(stack).was_
                  /\ stack' = Tail(stack)
             ELSE /\ pc' = "FO6"
                  /\ UNCHANGED << node, inFor, stack, was_ >>
       /\ UNCHANGED << toks, pos, list, errs, panicked, prec, left, l, p, 
                       endTok, acc, fnode, res_, lnode, res, was >>

FO6 == /\ pc = "FO6"
       /\ IF Tok(toks, pos + 1) # "LB"
             THEN /\ errs' = TRUE
                  /\ inFor' = was_
                  /\ node' = Nil
                  /\ pc' = Head(stack).pc
                  /\ was_' = Head(stack).was_
                  /\ stack' = Tail(stack)
             ELSE /\ pc' = "FO7"
                  /\ UNCHANGED << node, errs, inFor, stack, was_ >>
       /\ UNCHANGED << toks, pos, list, panicked, prec, left, l, p, endTok, 
                       acc, fnode, res_, lnode, res, was >>

FO7 == /\ pc = "FO7"
       /\ pos' = Adv(pos)
       /\ stack' = << [ procedure |->  "parseBlockStatement",
                        pc        |->  "FO8" ] >>
                    \o stack
       /\ pc' = "BL0"
       /\ UNCHANGED << toks, node, list, errs, inFor, panicked, prec, left, l, 
                       p, endTok, acc, fnode, res_, lnode, res, was_, was >>

FO8 == /\ pc = "FO8"
       /\ inFor' = was_
       /\ node' = N("for")
       /\ pc' = Head(stack).pc
       /\ was_' = Head(stack).was_
       /\ stack' = Tail(stack)
       /\ UNCHANGED << toks, pos, list, errs, panicked, prec, left, l, p, 
                       endTok, acc, fnode, res_, lnode, res, was >>

parseForExpression == FO0 \/ FO1 \/ FO2 \/ FO3 \/ FO4 \/ FO5 \/ FO6 \/ FO7
                         \/ FO8

FN0 == /\ pc = "FN0"
       /\ IF Tok(toks, pos + 1) # "LP"
             THEN /\ errs' = TRUE
                  /\ node' = Nil
                  /\ pc' = Head(stack).pc
                  /\ was' = Head(stack).was
                  /\ stack' = Tail(stack)
             ELSE /\ pc' = "FN1"
                  /\ UNCHANGED << node, errs, stack, was >>
       /\ UNCHANGED << toks, pos, list, inFor, panicked, prec, left, l, p, 
                       endTok, acc, fnode, res_, lnode, res, was_ >>

FN1 == /\ pc = "FN1"
       /\ pos' = Adv(pos)
       /\ was' = inFor
       /\ pc' = "FN1b"
       /\ UNCHANGED << toks, node, list, errs, inFor, panicked, stack, prec, 
                       left, l, p, endTok, acc, fnode, res_, lnode, res, was_ >>

FN1b == /\ pc = "FN1b"
        /\ IF Tok(toks, pos + 1) = "RP"
              THEN /\ pos' = Adv(pos)
                   /\ pc' = "FN3"
              ELSE /\ pos' = Adv(pos)
                   /\ pc' = "FN2"
        /\ UNCHANGED << toks, node, list, errs, inFor, panicked, stack, prec, 
                        left, l, p, endTok, acc, fnode, res_, lnode, res, was_, 
                        was >>

FN2 == /\ pc = "FN2"
       /\ IF Tok(toks, pos + 1) = "COMMA"
             THEN /\ pos' = Adv(Adv(pos))
                  /\ pc' = "FN2"
                  /\ errs' = errs
             ELSE /\ IF Tok(toks, pos + 1) # "RP"
                        THEN /\ errs' = TRUE
                             /\ pos' = pos
                        ELSE /\ pos' = Adv(pos)
                             /\ errs' = errs
                  /\ pc' = "FN3"
       /\ UNCHANGED << toks, node, list, inFor, panicked, stack, prec, left, l, 
                       p, endTok, acc, fnode, res_, lnode, res, was_, was >>

FN3 == /\ pc = "FN3"
       /\ IF Tok(toks, pos + 1) # "LB"
             THEN /\ errs' = TRUE
                  /\ node' = Nil
                  /\ pc' = Head(stack).pc
                  /\ was' = Head(stack).was
                  /\ stack' = Tail(stack)
             ELSE /\ pc' = "FN4"
                  /\ UNCHANGED << node, errs, stack, was >>
       /\ UNCHANGED << toks, pos, list, inFor, panicked, prec, left, l, p, 
                       endTok, acc, fnode, res_, lnode, res, was_ >>

FN4 == /\ pc = "FN4"
       /\ inFor' = FALSE
       /\ pos' = Adv(pos)
       /\ stack' = << [ procedure |->  "parseBlockStatement",
                        pc        |->  "FN5" ] >>
                    \o stack
       /\ pc' = "BL0"
       /\ UNCHANGED << toks, node, list, errs, panicked, prec, left, l, p, 
                       endTok, acc, fnode, res_, lnode, res, was_, was >>

FN5 == /\ pc = "FN5"
       /\ inFor' = was
       /\ node' = N("fn")
       /\ pc' = Head(stack).pc
       /\ was' = Head(stack).was
       /\ stack' = Tail(stack)
       /\ UNCHANGED << toks, pos, list, errs, panicked, prec, left, l, p, 
                       endTok, acc, fnode, res_, lnode, res, was_ >>

parseFunctionLiteral == FN0 \/ FN1 \/ FN1b \/ FN2 \/ FN3 \/ FN4 \/ FN5

HA0 == /\ pc = "HA0"
       /\ IF Tok(toks, pos + 1) # "RB"
             THEN /\ pos' = Adv(pos)
                  /\ /\ prec' = LOWEST
                     /\ stack' = << [ procedure |->  "parseExpression",
                                      pc        |->  "HA1",
                                      left      |->  left,
                                      prec      |->  prec ] >>
                                  \o stack
                  /\ left' = Nil
                  /\ pc' = "EX0"
                  /\ node' = node
             ELSE /\ pos' = Adv(pos)
                  /\ node' = N("hash")
                  /\ pc' = Head(stack).pc
                  /\ stack' = Tail(stack)
                  /\ UNCHANGED << prec, left >>
       /\ UNCHANGED << toks, list, errs, inFor, panicked, l, p, endTok, acc, 
                       fnode, res_, lnode, res, was_, was >>

HA1 == /\ pc = "HA1"
       /\ IF Tok(toks, pos + 1) # "COLON"
             THEN /\ errs' = TRUE
                  /\ node' = Nil
                  /\ pc' = Head(stack).pc
                  /\ stack' = Tail(stack)
             ELSE /\ pc' = "HA2"
                  /\ UNCHANGED << node, errs, stack >>
       /\ UNCHANGED << toks, pos, list, inFor, panicked, prec, left, l, p, 
                       endTok, acc, fnode, res_, lnode, res, was_, was >>

HA2 == /\ pc = "HA2"
       /\ pos' = Adv(Adv(pos))
       /\ /\ prec' = LOWEST
          /\ stack' = << [ procedure |->  "parseExpression",
                           pc        |->  "HA3",
                           left      |->  left,
                           prec      |->  prec ] >>
                       \o stack
       /\ left' = Nil
       /\ pc' = "EX0"
       /\ UNCHANGED << toks, node, list, errs, inFor, panicked, l, p, endTok, 
                       acc, fnode, res_, lnode, res, was_, was >>

HA3 == /\ pc = "HA3"
       /\ IF Tok(toks, pos + 1) # "RB"
             THEN /\ IF Tok(toks, pos + 1) # "COMMA"
                        THEN /\ errs' = TRUE
                             /\ node' = Nil
                             /\ pc' = Head(stack).pc
                             /\ stack' = Tail(stack)
                             /\ pos' = pos
                        ELSE /\ pos' = Adv(pos)
                             /\ pc' = "HA0"
                             /\ UNCHANGED << node, errs, stack >>
             ELSE /\ pc' = "HA0"
                  /\ UNCHANGED << pos, node, errs, stack >>
       /\ UNCHANGED << toks, list, inFor, panicked, prec, left, l, p, endTok, 
                       acc, fnode, res_, lnode, res, was_, was >>

parseHashLiteral == HA0 \/ HA1 \/ HA2 \/ HA3

MAIN == /\ pc = "MAIN"
        /\ stack' = << [ procedure |->  "parseProgram",
                         pc        |->  "FIN" ] >>
                     \o stack
        /\ pc' = "PG0"
        /\ UNCHANGED << toks, pos, node, list, errs, inFor, panicked, prec, 
                        left, l, p, endTok, acc, fnode, res_, lnode, res, was_, 
                        was >>

FIN == /\ pc = "FIN"
       /\ TRUE
       /\ pc' = "Done"
       /\ UNCHANGED << toks, pos, node, list, errs, inFor, panicked, stack, 
                       prec, left, l, p, endTok, acc, fnode, res_, lnode, res, 
                       was_, was >>

(* Allow infinite stuttering to prevent deadlock on termination. *)
Terminating == pc = "Done" /\ UNCHANGED vars

Next == parseProgram \/ parseStatement \/ parseLetStatement
           \/ parseBlockStatement \/ parseExpression \/ prefix
           \/ parseAssignExpression \/ parseInfixExpression
           \/ parseExpressionList \/ parseCallExpression \/ parseIndexExpression
           \/ parseIfExpression \/ parseForExpression \/ parseFunctionLiteral
           \/ parseHashLiteral \/ MAIN \/ FIN
           \/ Terminating

Spec == /\ Init /\ [][Next]_vars
        /\ WF_vars(Next)

Termination == <>(pc = "Done")

\* END TRANSLATION 
 
 

\* (the translation is appended below by `pcal`; it is committed so that checks need no translator)
=============================================================================
