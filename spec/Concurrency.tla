---------------------------- MODULE Concurrency ----------------------------
(***************************************************************************)
(* Layer B model of plush's shared state under concurrent use (C14):       *)
(*   - one SHARED parent context P with its data map and mutex;            *)
(*   - one OWN child context of P per goroutine (private to it);           *)
(*   - the template cache map with its mutex;                              *)
(*   - the parsed program (tree) of a shared template: only ever read.     *)
(* Every public operation is expanded into the micro-steps the code        *)
(* performs: lock / unlock of a mutex and BEGIN / END of a (non-atomic)    *)
(* read or write of a shared location.  Goroutines interleave at every     *)
(* micro-step; TLC explores all interleavings.                             *)
(*                                                                         *)
(* ReadsLocked = FALSE is the pinned commit: Context.Value / Has read the  *)
(* data map without the mutex (and the constructors called them).          *)
(* ReadsLocked = TRUE is the repaired code: the map read happens under the *)
(* context's mutex.                                                        *)
(* ParseAtomic = TRUE: Parse holds the cache mutex from the lookup to the  *)
(* insertion (as the code does).                                           *)
(*                                                                         *)
(* Properties: NoRace (never two goroutines inside accesses to the same    *)
(* location with a writer among them), InsertOnce (a text is inserted into *)
(* the cache at most once), no deadlock, every goroutine finishes.         *)
(***************************************************************************)
EXTENDS Integers, Sequences, FiniteSets, TLC, Json

CONSTANTS NP,            \* goroutines
          OpsPer,        \* operations per goroutine
          ReadsLocked, ParseAtomic, EmitCases

Procs == 1..NP
Ops == {"set_shared", "value_shared", "new_shared", "set_own", "value_own", "parse", "exec_own", "render_cached"}

\* locations: "P" shared parent's data map, Own(p) = "own<p>" goroutine p's child map, "cache", "tree"
\* mutexes: "P", Own(p), "cache"
Own(p) == "own" \o ToString(p)
Lock(m) == [k |-> "lock", m |-> m]
Unlock(m) == [k |-> "unlock", m |-> m]
Beg(l, rw) == [k |-> "begin", l |-> l, rw |-> rw]
End(l, rw) == [k |-> "end", l |-> l, rw |-> rw]
Access(l, rw) == <<Beg(l, rw), End(l, rw)>>

\* Context.Set(c): lock; write map; unlock
SetSteps(c) == <<Lock(c)>> \o Access(c, "w") \o <<Unlock(c)>>
\* the read of one context's own map inside Value
ReadMap(c) == IF ReadsLocked THEN <<Lock(c)>> \o Access(c, "r") \o <<Unlock(c)>> ELSE Access(c, "r")
\* Context.Value(k) on the shared parent / on an own child (not found locally: goes to the outer context)
ValueShared == ReadMap("P")
ValueOwn(p) == ReadMap(Own(p)) \o ReadMap("P")
\* P.New(): the constructor asks whether each helper name is bound on the new context or its outer chain
NewShared(p) == ReadMap(Own(p)) \o ReadMap("P") \o SetSteps(Own(p))
\* Parse with the cache on: lock; lookup; (miss: parse, insert); unlock
ParseSteps == IF ParseAtomic THEN <<Lock("cache")>> \o Access("cache", "r") \o <<[k |-> "insert_if_missing"]>> \o <<Unlock("cache")>>
              ELSE <<Lock("cache")>> \o Access("cache", "r") \o <<Unlock("cache"), Lock("cache")>> \o <<[k |-> "insert_if_missing"]>> \o <<Unlock("cache")>>
\* Exec of the shared template with the goroutine's own child context: reads the tree, looks names
\* up (own map, then the parent's), binds names in its own map
ExecOwn(p) == Access("tree", "r") \o ValueOwn(p) \o SetSteps(Own(p)) \o Access("tree", "r") \o ValueOwn(p)

Steps(op, p) ==
  CASE op = "set_shared"   -> SetSteps("P")
    [] op = "value_shared" -> ValueShared
    [] op = "new_shared"   -> NewShared(p)
    [] op = "set_own"      -> SetSteps(Own(p))
    [] op = "value_own"    -> ValueOwn(p)
    [] op = "parse"        -> ParseSteps
    [] op = "exec_own"     -> ExecOwn(p)
    [] op = "render_cached" -> ParseSteps \o ExecOwn(p)

VARIABLES ops,       \* ops[p]: the operations goroutine p performs (chosen initially)
          todo,      \* todo[p]: remaining micro-steps
          holder,    \* holder[m]: goroutine holding mutex m, 0 if free
          acc,       \* in-flight accesses <<p, location, rw>>
          cached,    \* whether the text is in the cache, and how often it was inserted
          inserts,
          race       \* a conflicting overlap was seen: [l, rw, by, other]
vars == <<ops, todo, holder, acc, cached, inserts, race>>

Mutexes == {"P", "cache"} \cup {Own(p) : p \in Procs}
RECURSIVE AllSteps(_, _, _)
AllSteps(os, i, p) == IF i > Len(os) THEN <<>> ELSE Steps(os[i], p) \o AllSteps(os, i + 1, p)

Init == /\ ops \in [Procs -> [1..OpsPer -> Ops]]
        /\ todo = [p \in Procs |-> AllSteps(ops[p], 1, p)]
        /\ holder = [m \in Mutexes |-> 0]
        /\ acc = {} /\ cached = FALSE /\ inserts = 0 /\ race = [l |-> "none"]

Conflict(p, l, rw) == \E a \in acc : a[1] # p /\ a[2] = l /\ (rw = "w" \/ a[3] = "w")

Step(p) ==
  /\ todo[p] # <<>>
  /\ LET s == Head(todo[p]) IN
     /\ CASE s.k = "lock"   -> holder[s.m] = 0 /\ holder' = [holder EXCEPT ![s.m] = p] /\ UNCHANGED <<acc, cached, inserts, race>>
          [] s.k = "unlock" -> holder' = [holder EXCEPT ![s.m] = 0] /\ UNCHANGED <<acc, cached, inserts, race>>
          [] s.k = "begin"  -> /\ acc' = acc \cup {<<p, s.l, s.rw>>}
                               /\ race' = IF race.l = "none" /\ Conflict(p, s.l, s.rw) THEN [l |-> s.l, rw |-> s.rw, by |-> p] ELSE race
                               /\ UNCHANGED <<holder, cached, inserts>>
          [] s.k = "end"    -> acc' = acc \ {<<p, s.l, s.rw>>} /\ UNCHANGED <<holder, cached, inserts, race>>
          [] s.k = "insert_if_missing" ->
                               /\ IF cached /\ ParseAtomic THEN UNCHANGED <<cached, inserts, acc, race>>
                                  ELSE /\ cached' = TRUE /\ inserts' = inserts + (IF ParseAtomic THEN 1 ELSE 1)
                                       /\ race' = IF race.l = "none" /\ Conflict(p, "cache", "w") THEN [l |-> "cache", rw |-> "w", by |-> p] ELSE race
                                       /\ UNCHANGED acc
                               /\ UNCHANGED holder
     /\ todo' = [todo EXCEPT ![p] = Tail(@)]
  /\ UNCHANGED ops

Done == (\A p \in Procs : todo[p] = <<>>) /\ UNCHANGED vars
Next == (\E p \in Procs : Step(p)) \/ Done
Spec == Init /\ [][Next]_vars /\ WF_vars(\E p \in Procs : Step(p))

NoRace == race.l = "none"
InsertOnce == inserts <= 1
MutexOK == \A m \in Mutexes : holder[m] \in 0..NP
Finishes == <>(\A p \in Procs : todo[p] = <<>>)

\* one case per choice of operations (printed from the initial states)
IsInitial == \A p \in Procs : todo[p] = AllSteps(ops[p], 1, p)
Emit == ~(EmitCases /\ IsInitial /\ holder = [m \in Mutexes |-> 0]) \/
        PrintT("CASE " \o ToJson([gen |-> "Concurrency", ops |-> ops]))
=============================================================================
