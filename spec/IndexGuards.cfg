CONSTANTS
  Guarded = TRUE
  EmitCases = TRUE
SPECIFICATION Spec
INVARIANTS NoPanic Emit
CHECK_DEADLOCK FALSE
