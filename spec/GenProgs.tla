------------------------------ MODULE GenProgs ------------------------------
(***************************************************************************)
(* Generator machine for C04, second half of its quantifier: "random       *)
(* well-formed programs whose leaves are drawn from the kind pool".        *)
(*                                                                         *)
(* The state is a SENTENTIAL FORM of plush's grammar: a sequence of tokens *)
(* in which "<S>" stands for a statement still to be derived and "<E>" for *)
(* an expression.  One action rewrites the leftmost non-terminal by one    *)
(* production (so a behaviour is a leftmost derivation); when none is left *)
(* the free variables a, b, c get value kinds and the program is emitted.  *)
(* While fewer than MinExp productions were applied only growing           *)
(* productions are enabled, after MaxExp only closing ones: simulation     *)
(* (-simulate) draws random derivations of bounded size.                   *)
(*                                                                         *)
(* What the specification says of every derived program is what C04 says:  *)
(* executing it returns output or an error.                                *)
(*                                                                         *)
(* Names: a b c are context values of the drawn kinds; x is let-bound by   *)
(* the program, k v are loop variables, p q are parameters of a template   *)
(* function, f is that function.  Member paths are only derived after      *)
(* names (plush's grammar has no (expr).Name).                             *)
(***************************************************************************)
EXTENDS Integers, Sequences, TLC, Json, FiniteSets

CONSTANTS MinExp, MaxExp

\* the kind pool of GenKinds.tla (kept in step by the harness: every name here must be materialisable)
Kinds == { "nil", "bool", "int", "int_neg", "int8", "int64", "uint", "uint8", "float64", "float32", "str", "empty_str", "html", "htmler",
           "stringer", "time", "slice_any", "slice_str", "slice_int", "slice_struct", "empty_slice", "nil_slice", "array_int", "ptr_slice",
           "map_str_any", "map_str_str", "map_int_str", "map_any_any", "map_str_struct", "nil_map", "struct", "ptr_struct", "nilptr_struct",
           "func0", "func_str", "func_err", "func_variadic", "func_help", "iter", "unknown",
           "ptr_map", "ptr_array", "ptr_str", "ptr_int", "nil_func", "nilptr_time", "ptr_time", "struct_embedded_nil", "slice_stringer", "slice_ptr_struct",
           "float_nan", "map_float_nan", "struct_iface_slice", "nilptr_stringer", "ptr_stringer", "str_mb", "int3",
           "nilptr_htmler", "nilptr_interfaceable", "struct_promotes_nil_ptr", "struct_promotes_nil_iface",
           "func_void", "func_void_variadic", "slice_stringer1", "map_str_error", "map_stringer_int",
           "struct_embeds_nil_time", "struct_embeds_nil_stringer", "struct_embeds_nil_htmler", "ptr_struct_embeds_nil_duration" }

Ops == { <<"+">>, <<"-">>, <<"*">>, <<"/">>, <<"<">>, <<"<=">>, <<">">>, <<">=">>, <<"==">>, <<"!=">>, <<"~=">>, <<"AMP", "AMP">>, <<"||">> }
Names == { "a", "b", "c", "x", "k", "v", "p" }
Members == { <<".", "Name">>, <<".", "Nope">>, <<".", "Kid", ".", "Name">>, <<".", "NilKid", ".", "Name">>, <<".", "Hello", "(", ")">>, <<".", "Shout", "(", ")">>,
             <<".", "Touch", "(", ")">>, <<".", "Kids">>, <<".", "Inner">> }
Builtins1 == { "len", "raw", "toJSON", "capitalize", "until", "inspect", "htmlEscape", "jsEscape", "contentOf", "partial", "pluralize", "markdown" }
Builtins2 == { "range", "between", "groupBy", "truncate", "envOr" }

O(ts) == <<"<%=", " ">> \o ts \o <<" ", "%>">>     \* output tag
Q(ts) == <<"<%", " ">> \o ts \o <<" ", "%>">>      \* silent tag

\* productions that close an expression / a statement (no non-terminal on the right)
ECloses == { <<n>> : n \in Names } \cup { <<"1">>, <<"0">>, <<"QUOT", "s", "QUOT">>, <<"nil">>, <<"true">> }
           \cup { <<n>> \o m : n \in {"a", "b", "x", "v"}, m \in Members }
SCloses == { <<"t">>, O(<<"a">>), O(<<"x">>), O(<<"v">>) }

\* productions that grow
EGrows ==
  { <<"<E>", " ">> \o op \o <<" ", "<E>">> : op \in Ops }
  \cup { <<"!", "<E>">>, <<"(", "<E>", ")">>, <<"[", "<E>", ",", " ", "<E>", "]">>, <<"LBR", "k", ":", " ", "<E>", ",", " ", "j", ":", " ", "<E>", "RBR">> }
  \cup { <<n, "[", "<E>", "]">> : n \in {"a", "b", "x", "v"} }
  \cup { <<n, "[", "<E>", "]">> \o m : n \in {"a", "x"}, m \in { <<".", "Name">>, <<".", "Hello", "(", ")">>, <<"[", "0", "]">> } }
  \cup { <<n, "(", "<E>", ")">> : n \in {"a", "b", "x", "f"} }
  \cup { <<n, "(", "<E>", ",", " ", "<E>", ")">> : n \in {"a", "f"} }
  \cup { <<"a", "(", "<E>", ")", ".", "Name">>, <<"a", ".", "Greet", "(", "<E>", ")">>, <<"a", ".", "Kids", "[", "<E>", "]", ".", "Name">> }
  \cup { <<h, "(", "<E>", ")">> : h \in Builtins1 }
  \cup { <<h, "(", "<E>", ",", " ", "<E>", ")">> : h \in Builtins2 }
  \cup { <<"truncate", "(", "<E>", ",", " ", "LBR", "size", ":", " ", "<E>", ",", " ", "trail", ":", " ", "<E>", "RBR", ")">> }
SGrows ==
  { O(<<"<E>">>), Q(<<"<E>">>), Q(<<"let", " ", "x", " ", "=", " ", "<E>">>), Q(<<"x", " ", "=", " ", "<E>">>),
    Q(<<"x", "[", "<E>", "]", " ", "=", " ", "<E>">>), Q(<<"a", "[", "<E>", "]", " ", "=", " ", "<E>">>),
    O(<<"if", " ", "(", "(", "<E>", ")", ")", " ", "LBR", " ", "%>", "<S>", "<%", " ", "RBR", " ", "else", " ", "LBR", " ", "%>", "<S>", "<%", " ", "RBR">>),
    O(<<"if", " ", "(", "(", "<E>", ")", ")", " ", "LBR", " ", "%>", "<S>", "<%", " ", "RBR", " ", "else", " ", "if", " ", "(", "(", "<E>", ")", ")", " ", "LBR", " ", "%>", "<S>", "<%", " ", "RBR">>),
    O(<<"for", " ", "(", "k", ",", " ", "v", ")", " ", "in", " ", "<E>", " ", "LBR", " ", "%>", "<S>", "<%", " ", "RBR">>),
    O(<<"for", " ", "(", "v", ")", " ", "in", " ", "<E>", " ", "LBR", " ", "%>", "<S>">> \o Q(<<"if", " ", "(", "(", "<E>", ")", ")", " ", "LBR", " ", "break", " ", "RBR">>) \o <<"<S>", "<%", " ", "RBR">>),
    Q(<<"let", " ", "f", " ", "=", " ", "fn", "(", "p", ",", " ", "q", ")", " ", "LBR", " ", "if", " ", "(", "(", "<E>", ")", ")", " ", "LBR", " ", "return", " ", "<E>", " ", "RBR", " ", "return", " ", "p", " ", "RBR">>) \o <<"<S>">>,
    O(<<"a", "(", ")", " ", "LBR", " ", "%>", "<S>", "<%", " ", "RBR">>),
    Q(<<"contentFor", "(", "QUOT", "n", "QUOT", ")", " ", "LBR", " ", "%>", "<S>", "<%", " ", "RBR">>) \o O(<<"contentOf", "(", "QUOT", "n", "QUOT", ",", " ", "LBR", "x", ":", " ", "<E>", "RBR", ")">>),
    <<"<S>", "<S>">> }

VARIABLES form, n, ks
vars == <<form, n, ks>>

IsNT(t) == t \in {"<S>", "<E>"}
HasNT == \E i \in 1..Len(form) : IsNT(form[i])
FirstNT == CHOOSE i \in 1..Len(form) : IsNT(form[i]) /\ \A j \in 1..(i - 1) : ~IsNT(form[j])
Rewrite(i, rhs) == SubSeq(form, 1, i - 1) \o rhs \o SubSeq(form, i + 1, Len(form))
\* (a form cannot grow without bound: every growing production is counted)
NTCount == Cardinality({i \in 1..Len(form) : IsNT(form[i])})

Init == form = <<"<S>">> /\ n = 0 /\ ks = <<>>
Expand == /\ HasNT /\ ks = <<>>
          /\ LET i == FirstNT IN
             \/ /\ n < MaxExp /\ NTCount < 12
                /\ \E r \in (IF form[i] = "<S>" THEN SGrows ELSE EGrows) : form' = Rewrite(i, r)
                /\ n' = n + 1
             \/ /\ n >= MinExp
                /\ \E r \in (IF form[i] = "<S>" THEN SCloses ELSE ECloses) : form' = Rewrite(i, r)
                /\ n' = n
          /\ UNCHANGED ks
Pick == /\ ~HasNT /\ Len(ks) < 3
        /\ \E kd \in Kinds : ks' = Append(ks, kd)
        /\ UNCHANGED <<form, n>>
Next == Expand \/ Pick
Spec == Init /\ [][Next]_vars

\* ---- what the machine guarantees about its own output (checked by TLC on every state)
\* the derivation is well-formed: tags alternate (every "<%" / "<%=" is closed by "%>" before the next opens)
RECURSIVE Balanced(_, _)
Balanced(ts, open) == IF ts = <<>> THEN ~open
                      ELSE IF Head(ts) \in {"<%", "<%="} THEN ~open /\ Balanced(Tail(ts), TRUE)
                      ELSE IF Head(ts) = "%>" THEN open /\ Balanced(Tail(ts), FALSE)
                      ELSE Balanced(Tail(ts), open)
\* ... and braces, brackets and parentheses nest
RECURSIVE Nests(_, _)
Nests(ts, st) == IF ts = <<>> THEN st = <<>>
                 ELSE IF Head(ts) \in {"LBR", "[", "("} THEN Nests(Tail(ts), <<Head(ts)>> \o st)
                 ELSE IF Head(ts) \in {"RBR", "]", ")"}
                      THEN st # <<>> /\ Head(st) = (CASE Head(ts) = "RBR" -> "LBR" [] Head(ts) = "]" -> "[" [] OTHER -> "(") /\ Nests(Tail(ts), Tail(st))
                 ELSE Nests(Tail(ts), st)
WellFormed == HasNT \/ (Balanced(form, FALSE) /\ Nests(form, <<>>))
Bounded == n <= MaxExp /\ NTCount <= 14

Names3 == <<"a", "b", "c">>
Emit == Len(ks) < 3 \/
        PrintT("CASE " \o ToJson([gen |-> "GenKinds", form |-> "prog", src |-> form, kinds |-> [i \in 1..3 |-> <<Names3[i], ks[i]>>]]))
=============================================================================
