-------------------------------- MODULE Soup --------------------------------
(***************************************************************************)
(* Generator machine for C03: token soup.  Every sequence of up to K       *)
(* tokens over the full token vocabulary of the lexer (one representative  *)
(* spelling per token class), in every tag framing: inside a closed code   *)
(* tag, a closed output tag, an unclosed tag, a tag followed by a nested   *)
(* opener, and after literal text.  BFS = exhaustive; -simulate = seeded   *)
(* long random soup.  The expectation is only what C03 states: Parse and   *)
(* Render return (a template or an error); no panic, no hang.              *)
(***************************************************************************)
EXTENDS Integers, Sequences, TLC, Json

CONSTANTS K, Vocabulary

\* one spelling per token class (character names for quotes etc.)
Full == << <<"x">>, <<"a", ".", "b">>, <<"1">>, <<"2", ".", "5">>, <<"9","9","9","9","9","9","9","9","9","9","9","9","9","9","9","9","9","9","9","9">>, <<"1", ".", "2", ".", "3">>,
           <<"QUOT", "s", "QUOT">>, <<"BQ", "s", "BQ">>, <<"QUOT", "u">>, <<"true">>, <<"nil">>,
           <<"let">>, <<"if">>, <<"else">>, <<"for">>, <<"in">>, <<"fn">>, <<"return">>, <<"break">>, <<"continue">>,
           <<"=">>, <<"=", "=">>, <<"!", "=">>, <<"!">>, <<"+">>, <<"-">>, <<"*">>, <<"/">>, <<"<">>, <<">", "=">>, <<"~", "=">>, <<"AMP", "AMP">>, <<"|", "|">>,
           <<"(">>, <<")">>, <<"LBR">>, <<"RBR">>, <<"[">>, <<"]">>, <<",">>, <<":">>, <<";">>, <<".">>, <<"HASH", "c", "NL">>,
           <<"BSL">>, <<"BSL", "BSL">>, <<"BSL", "<">>, <<"AMP">>, <<"@">>, <<"PCT", ">">>, <<"<", "PCT">>, <<"<", "PCT", "=">>, <<"<", "PCT", "HASH">>, <<"t", "x", "t">> >>
\* a reduced vocabulary (one token per parser-relevant class) for the longer exhaustive run
Small == << <<"x">>, <<"1">>, <<"9","9","9","9","9","9","9","9","9","9","9","9","9","9","9","9","9","9","9","9">>, <<"QUOT", "s", "QUOT">>,
            <<"let">>, <<"if">>, <<"else">>, <<"for">>, <<"in">>, <<"fn">>, <<"return">>, <<"break">>,
            <<"=">>, <<"!">>, <<"+">>, <<"-">>, <<"(">>, <<")">>, <<"LBR">>, <<"RBR">>, <<"[">>, <<"]">>, <<",">>, <<":">>, <<".">>,
            <<"PCT", ">">>, <<"<", "PCT">>, <<"<", "PCT", "=">>, <<"<", "PCT", "HASH">>, <<"t">>, <<"BSL">>, <<"BSL", "<">> >>
\* the pieces paths and their uses are made of, spelled WITHOUT separators: names, calls, members, indexes, a loop head and its
\* body, a let, an assignment
Paths == << <<"a">>, <<"f", "(", ")">>, <<".", "b">>, <<"[", "0", "]">>, <<"(", ")">>, <<"(", "1", ")">>,
            <<"for", " ", "(", "v", ")", " ", "in", " ">>, <<" ", "LBR", " ", "PCT", ">", "x", "<", "PCT", " ", "RBR", " ">>, <<"let", " ", "z", " ", "=", " ">>, <<" ", "=", " ", "1">> >>
Vocab == IF Vocabulary = "full" THEN Full ELSE IF Vocabulary = "paths" THEN Paths ELSE Small

VARIABLE toks      \* sequence of indices into Vocab
vars == <<toks>>
Init == toks = <<>>
Next == Len(toks) < K /\ \E i \in 1..Len(Vocab) : toks' = Append(toks, i)
Spec == Init /\ [][Next]_vars

RECURSIVE Tight(_)
Tight(ts) == IF ts = <<>> THEN <<>> ELSE Vocab[Head(ts)] \o Tight(Tail(ts))     \* no separators
RECURSIVE Spell(_)
Spell(ts) == IF ts = <<>> THEN <<>> ELSE Vocab[Head(ts)] \o <<" ">> \o Spell(Tail(ts))

Framings(body) ==
  [ plain    |-> Tight(toks),                                                   \* the tokens as literal text, nothing after them
    aftertag |-> <<"<", "PCT", "=", " ", "1", " ", "PCT", ">">> \o Tight(toks),
    closed   |-> <<"<", "PCT", " ">> \o body \o <<"PCT", ">">>,
    output   |-> <<"<", "PCT", "=", " ">> \o body \o <<"PCT", ">">>,
    unclosed |-> <<"<", "PCT", " ">> \o body,
    nested   |-> <<"<", "PCT", " ">> \o body \o <<"<", "PCT", " ">>,
    text     |-> <<"a", "b">> \o body \o <<"<", "PCT", "=", " ", "1", " ", "PCT", ">">> \o body ]

Emit == PrintT("CASE " \o ToJson([gen |-> "Soup", n |-> Len(toks), srcs |-> Framings(IF Vocabulary = "paths" THEN Tight(toks) \o <<" ">> ELSE Spell(toks))]))
=============================================================================
