CONSTANTS
  MaxOps = 3
  Pool = "cat"
  MinSize = 0
SPECIFICATION Spec
INVARIANTS EmitCase ParenSound ResultShape
CHECK_DEADLOCK FALSE
