CONSTANTS
  N = 3
  EmitCases = TRUE
SPECIFICATION Spec
INVARIANTS HtmlClean JsClean Emit
CHECK_DEADLOCK FALSE
