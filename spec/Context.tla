------------------------------ MODULE Context ------------------------------
(***************************************************************************)
(* Layer B (implementation-shaped) machine of plush.Context (context.go):  *)
(* one `data` map per context, an `outer` link, default-helper injection   *)
(* at construction -- together with the DECLARATIVE meaning of a history   *)
(* of New/Set operations as property C10 states it (a chain of scopes),    *)
(* computed from the history alone.                                        *)
(*                                                                         *)
(*   actions   NewRoot(d)   = NewContextWith(d)                            *)
(*             NewRootCtx(w)= NewContextWithContext(ctx): the root answers *)
(*                            from the wrapped context.Context (`wrapped`) *)
(*                            what no scope of the chain binds             *)
(*             NewChild(c)  = Context.New / NewContextWithOuter({}, c)     *)
(*             Set(c,k,v)   = Context.Set                                  *)
(*   observers Lookup       = Context.Value,  Has = Value # nil            *)
(*                                                                         *)
(* InjectByHas = TRUE models the constructors as they were at the pinned   *)
(* commit (inject a built-in helper when `!Has`, i.e. also when the        *)
(* nearest binding is nil); FALSE models injection by key presence (the    *)
(* repaired constructors).  Agree is an invariant only for FALSE.          *)
(*                                                                         *)
(* The module is instantiated by ContextMC (bounded exploration, case      *)
(* emission) and by ContextTrace (validation of traces recorded from the   *)
(* real code), which reuse the core actions below.                         *)
(***************************************************************************)
EXTENDS Integers, Sequences, TLC, FiniteSets

CONSTANTS Keys,         \* names
          HelperKeys,   \* names under which a built-in helper is registered (subset of Keys)
          InjectByHas   \* deviation switch, see above

Builtin == "BUILTIN"    \* the default helper registered under a helper name
Nil     == "nil"        \* Go nil

VARIABLES outer,   \* outer[c] = parent id, 0 for a root; contexts are 1..Len(outer)
          data,    \* data[c] = partial function name -> value (the context's own map)
          wrapped  \* the values of the context.Context the root was built around (name -> value)
cvars == <<outer, data, wrapped>>

N == Len(outer)

Bind(f, k, v) == [x \in DOMAIN f \cup {k} |-> IF x = k THEN v ELSE f[x]]
EmptyMap == [x \in {} |-> Nil]

\* ---------------------------------------------------------------- as built
RECURSIVE LookupIn(_, _, _, _)
LookupIn(o, d, c, k) ==                         \* Context.Value: own map, then outer, at the root the wrapped context
  IF c = 0 THEN (IF k \in DOMAIN wrapped THEN wrapped[k] ELSE Nil)
  ELSE IF k \in DOMAIN d[c] THEN d[c][k]
  ELSE LookupIn(o, d, o[c], k)
Lookup(c, k) == LookupIn(outer, data, c, k)
Has(c, k)    == Lookup(c, k) # Nil              \* Context.Has

RECURSIVE Bound(_, _)
Bound(c, k) == IF c = 0 THEN FALSE ELSE k \in DOMAIN data[c] \/ Bound(outer[c], k)

\* the constructors' test in `for k, v := range Helpers { if <test> { c.Set(k, v) } }`, for a
\* context under construction with own map d and outer context o
InjectGuard(d, o, k) ==
  IF InjectByHas
    THEN (k \notin DOMAIN d \/ d[k] = Nil) /\ (o = 0 \/ ~Has(o, k))    \* !c.Has(k) && !c.outer.Has(k)
    ELSE k \notin DOMAIN d /\ (o = 0 \/ ~Bound(o, k))                   \* bound nowhere on the chain

Inject(d, o) == [k \in DOMAIN d \cup {h \in HelperKeys : InjectGuard(d, o, h)} |->
                   IF k \in HelperKeys /\ InjectGuard(d, o, k) THEN Builtin ELSE d[k]]

\* core actions (no history): a context with final own map d under outer o; a write
NewCore(o, d) == /\ outer' = Append(outer, o)
                 /\ data'  = Append(data, d)
                 /\ UNCHANGED wrapped
SetCore(c, k, v) == /\ data' = [data EXCEPT ![c] = Bind(@, k, v)]
                    /\ UNCHANGED <<outer, wrapped>>

RECURSIVE DescOrSelf(_, _)
DescOrSelf(d, c) == IF d = 0 THEN FALSE ELSE d = c \/ DescOrSelf(outer[d], c)
=============================================================================
