-------------------------------- MODULE Cache --------------------------------
(***************************************************************************)
(* Layer B machine of the template cache and template objects (plush.go,   *)
(* template.go): CacheEnabled, the cache map text -> template, templates   *)
(* with their text and parsed program.                                     *)
(*   Parse(x)     uncached: a fresh template | hit: the cached one |       *)
(*                miss: a fresh one, inserted | missfail: nothing inserted *)
(*   CacheSet(x,t) plants t under key x (public API)                       *)
(*   Toggle       CacheEnabled := ~CacheEnabled                            *)
(*   Exec(t, d)   renders template t with data d; reads the program only   *)
(*   Clone(t)     a new template object sharing text and program           *)
(* The meaning of a render is a function Res(text, data) of text and data  *)
(* only (C13): the machine records every result and TLC checks that the    *)
(* history never contains two different results for the same (text, data), *)
(* that Exec leaves every program version unchanged, and that a template   *)
(* obtained from Parse(x) was built from x unless CacheSet planted another.*)
(* Core actions are reused by CacheMC (bounded histories, case emission)   *)
(* and CacheTrace (validation of recorded Parse/CacheSet events).          *)
(***************************************************************************)
EXTENDS Integers, Sequences, TLC, FiniteSets

CONSTANTS Texts,       \* template texts
          BadTexts     \* subset of Texts that do not parse

VARIABLES enabled,     \* CacheEnabled
          cache,       \* partial function text -> template id
          tmpl,        \* tmpl[id] = [text, ver]: ver = version of the parsed program (changes iff mutated)
          planted      \* keys written by CacheSet
cvars == <<enabled, cache, tmpl, planted>>

NewId == Len(tmpl) + 1
Bind(f, k, v) == [x \in DOMAIN f \cup {k} |-> IF x = k THEN v ELSE f[x]]

\* outcome of Parse(x) when CacheEnabled has the value en
ParseOutcomeF(en, x) == IF ~en THEN "uncached"
                        ELSE IF x \in DOMAIN cache THEN "hit"
                        ELSE IF x \in BadTexts THEN "missfail" ELSE "miss"

\* Parse(x) with the flag at en (for en # enabled this is Toggle composed with Parse: the flag is a
\* public variable that callers flip between calls)
ParseCoreF(en, x, out) ==
  /\ out = ParseOutcomeF(en, x)
  /\ enabled' = en
  /\ CASE out = "uncached" -> tmpl' = Append(tmpl, [text |-> x, ver |-> 0]) /\ UNCHANGED <<cache, planted>>
       [] out = "hit"      -> UNCHANGED <<cache, tmpl, planted>>
       [] out = "miss"     -> tmpl' = Append(tmpl, [text |-> x, ver |-> 0]) /\ cache' = Bind(cache, x, NewId) /\ UNCHANGED planted
       [] out = "missfail" -> tmpl' = Append(tmpl, [text |-> x, ver |-> 0]) /\ UNCHANGED <<cache, planted>>
ParseCore(x, out) == ParseCoreF(enabled, x, out)
\* the template Parse(x) returns
Parsed(x, out) == IF out = "hit" THEN cache[x] ELSE NewId

CacheSetCore(x, t) == cache' = Bind(cache, x, t) /\ planted' = planted \cup {x} /\ UNCHANGED <<enabled, tmpl>>
ToggleCore == enabled' = ~enabled /\ UNCHANGED <<cache, tmpl, planted>>
CloneCore(t) == tmpl' = Append(tmpl, tmpl[t]) /\ UNCHANGED <<enabled, cache, planted>>
ExecCore(t) == UNCHANGED cvars                       \* executing never writes the program, the cache or the flag

\* a cached template was parsed from its key, unless CacheSet planted the entry
OwnText == \A x \in DOMAIN cache : x \in planted \/ tmpl[cache[x]].text = x
=============================================================================
