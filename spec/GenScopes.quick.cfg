CONSTANTS
  MaxDepth = 2
SPECIFICATION Spec
INVARIANTS ScopeTheorem ProbeTheorem EmitCase
CHECK_DEADLOCK FALSE
