------------------------------- MODULE GenText -------------------------------
(***************************************************************************)
(* Generator machine for C02 (b): a template is a sequence of items --      *)
(* literal text segments (incl. quotes, braces, newlines, multi-byte),     *)
(* output tags holding a string literal with arbitrary contents, output    *)
(* tags of numbers / variables, silent tags (expression, let, assignment,  *)
(* silent if / for whose bodies would print), comment tags -- placed at    *)
(* top level or inside the body of an if / for / function / block helper.  *)
(* Theorem (SourceOrder): the output is the concatenation, in source       *)
(* order, of the literal segments and the values of the output tags;       *)
(* silent and comment tags contribute nothing.                             *)
(***************************************************************************)
EXTENDS Unparse, Json

CONSTANT MaxItems

\* string literal contents: tag delimiters, #, backslashes, newlines, quotes, multi-byte are inert
Contents == { <<"a">>, <<"PCT", ">">>, <<"<", "PCT">>, <<"<", "PCT", "=", " ", "1", " ", "PCT", ">">>, <<"HASH", " ", "x">>,
              <<"BSL", "n">>, <<"NL", "b">>, <<"QUOT">>, <<"QUOT", "QUOT">>, <<"a", "QUOT", "b", "QUOT">>, <<"MB", "BQ">>, <<"LBR", "RBR">>, <<>>,
              <<"a", "BAD", "QUOT", "b", "BAD">>,          \* bytes that are not valid UTF-8 next to an (escaped) quote: bytes are bytes
              <<"c", "BSL">>, <<"BSL", "QUOT", "d">> }     \* only spellable between back quotes: raw, a backslash hides nothing
\* a back-quoted literal cannot contain a back quote; a double-quoted one cannot end in a backslash
\* or contain backslash-quote as two characters of its VALUE (no spelling exists)
DQOK(s) == (s = <<>> \/ s[Len(s)] # "BSL") /\ \A i \in 1..(Len(s) - 1) : ~(s[i] = "BSL" /\ s[i + 1] = "QUOT")
BQOK(s) == \A i \in 1..Len(s) : s[i] # "BQ"

Texts == { <<"t">>, <<" ">>, <<"NL">>, <<"QUOT", "q", "APOS">>, <<"LBR", "x", "RBR">>, <<"MB", "CJK">>, <<"PCT", ">">>, <<"<", "b", ">">>,
           <<"AMP", "a", "m", "p", ";">>, <<"HASH">>, <<"BSL", "n">>,
           <<"n", "NUL", "m">> }       \* a NUL byte is a byte of the text like any other (not the end of the input)

Items ==
  { [k |-> "text", s |-> t] : t \in Texts }
  \cup { [k |-> "dq", s |-> c] : c \in {x \in Contents : DQOK(x)} }
  \cup { [k |-> "bq", s |-> c] : c \in {x \in Contents : BQOK(x)} }
  \* comment tags: their text is not code -- a #, a quote, a back quote, a brace or a keyword in it hides nothing
  \cup { [k |-> "cmt", s |-> c] : c \in { <<"s", "e", "e", " ", "HASH", "1", "2">>, <<"s", "a", "y", " ", "QUOT", "h", "i">>, <<"i", "t", "APOS", "s", " ", "BQ", "x">>,
                                          <<"LBR", " ", "i", "f", " ", "(">>, <<"NL", "HASH", " ", "x", "NL">>, <<"PCT", " ", "RBR", " ", "<">>,
                                          \* ... also after the text mentions a tag opener
                                          <<"t", "h", "e", " ", "<", "PCT", "=", " ", "t", "a", "g", " ", "5", "QUOT", " ", "x">>, <<"s", "e", "e", " ", "<", "PCT", " ", "HASH", "2">> } }
  \cup { [k |-> o, s |-> <<>>] : o \in {"num", "var", "silentexpr", "silentstr", "let", "assign", "silentif", "silentfor", "comment", "silentraw", "silentcall", "fnout", "silentfn",
                                       "escopen", "bslemit", "false", "zero", "emptystr", "nilv", "arrvar", "arrpair", "twoblk", "nestblk", "blkloop", "iterbrk", "arrbrk"} }

\* the statement(s) an item stands for, and what it contributes to the output
ItemStmts(it) ==
  CASE it.k = "text"       -> <<Text(it.s)>>
    [] it.k = "dq"         -> <<Emit(Call("raw", <<Str(it.s)>>))>>        \* raw(): the characters reach the output unescaped
    [] it.k = "bq"         -> <<Emit(Call("raw", <<BStr(it.s)>>))>>
    [] it.k = "num"        -> <<Emit(IntL(42))>>
    [] it.k = "var"        -> <<Emit(Id("w"))>>
    [] it.k = "silentexpr" -> <<Code(Bin("+", IntL(1), IntL(2)))>>
    [] it.k = "silentstr"  -> <<Code(Str(<<"s">>))>>
    [] it.k = "let"        -> <<Let("z", Str(<<"z">>))>>
    [] it.k = "assign"     -> <<Code(Assign("w", Str(<<"W">>)))>>
    [] it.k = "silentif"   -> <<Code(If(Bool(TRUE), <<Text(<<"I">>), Emit(IntL(1))>>))>>
    [] it.k = "silentfor"  -> <<Code(For("", "v", Arr(<<IntL(1), IntL(2)>>), <<Text(<<"F">>), Emit(Id("v"))>>))>>
    [] it.k = "comment"    -> <<Cmt(<<"n", "o", "t", "e">>)>>
    [] it.k = "cmt"        -> <<Cmt(it.s)>>
    [] it.k = "silentraw"  -> <<Code(Call("raw", <<Str(<<"<", "b", ">">>)>>))>>
    [] it.k = "silentcall" -> <<Code(Call("id", <<Str(<<"x">>)>>))>>
    \* a template function whose return is reached inside an if of its body: emitted / called silently
    \* the two escapes of literal text: \<% is a literal <%; \\<% is one backslash and then a live tag
    [] it.k = "escopen"    -> <<EText(<<"BSL", "<", "PCT">>, <<"<", "PCT">>)>>
    [] it.k = "bslemit"    -> <<EText(<<"BSL", "BSL">>, <<"BSL">>), Emit(IntL(7))>>
    \* output tags whose value is falsy: false and 0 are printed, the empty string and nil print nothing
    [] it.k = "false"      -> <<Emit(Bool(FALSE))>>
    [] it.k = "zero"       -> <<Emit(IntL(0))>>
    [] it.k = "emptystr"   -> <<Emit(Str(<<>>))>>
    [] it.k = "nilv"       -> <<Emit(Id("nil"))>>
    \* an array value (every element is written, every time the array is emitted, also twice inside one array)
    [] it.k = "arrvar"     -> <<Emit(Id("ys"))>>
    [] it.k = "arrpair"    -> <<Emit(Arr(<<Id("ys"), Id("ys")>>))>>
    \* several helper blocks rendered inside ONE enclosing block / loop / helper block: each keeps its own text until the
    \* enclosing value is written
    [] it.k = "twoblk"     -> <<Code(CallB("contentFor", <<Str(<<"c", "a">>)>>, <<Text(<<"A", "A", "A">>)>>)), Code(CallB("contentFor", <<Str(<<"c", "b">>)>>, <<Text(<<"B", "B">>)>>)),
                                Emit(If(Bool(TRUE), <<Text(<<"[">>), Emit(Call("contentOf", <<Str(<<"c", "a">>)>>)), Text(<<"|">>), Emit(Call("contentOf", <<Str(<<"c", "b">>)>>)), Text(<<"]">>)>>))>>
    [] it.k = "nestblk"    -> <<Emit(CallB("blk", <<>>, <<Emit(CallB("blk", <<>>, <<Text(<<"o", "n", "e">>)>>)), Text(<<" ">>), Emit(CallB("blk", <<>>, <<Text(<<"t", "w", "o">>)>>)), Text(<<" ">>),
                                                          Emit(CallB("blk", <<>>, <<Text(<<"3">>)>>))>>))>>
    [] it.k = "blkloop"    -> <<Emit(For("", "v", Arr(<<Str(<<"x">>), Str(<<"y", "y">>)>>), <<Text(<<"(">>), Emit(CallB("blk", <<>>, <<Emit(Id("v"))>>)), Text(<<")">>)>>))>>
    \* a loop (over an iterator / an array) left with break AFTER the iteration has produced text and a value: they are output
    [] it.k = "iterbrk"    -> <<Emit(For("", "v", Call("range", <<IntL(1), IntL(5)>>), <<Text(<<"[">>), Emit(Id("v")), Text(<<"]">>), Code(If(Bin("==", Id("v"), IntL(2)), <<Text(<<"s">>), Code(Brk)>>)), Text(<<",">>)>>))>>
    [] it.k = "arrbrk"     -> <<Emit(For("", "v", Arr(<<IntL(1), IntL(2), IntL(3)>>), <<Text(<<"[">>), Emit(Id("v")), Text(<<"]">>), Code(If(Bin("==", Id("v"), IntL(2)), <<Text(<<"s">>), Code(Brk)>>)), Text(<<",">>)>>))>>
    [] it.k = "fnout"      -> <<Emit(Call("pick", <<IntL(1)>>))>>
    [] it.k = "silentfn"   -> <<Code(Call("pick", <<IntL(1)>>))>>
\* contribution according to the statement of C02 (w is "W" once an assign item has run)
ItemOut(it, assigned) ==
  CASE it.k = "text" -> it.s
    [] it.k \in {"dq", "bq"} -> it.s
    [] it.k = "num"  -> <<"4", "2">>
    [] it.k = "var"  -> IF assigned THEN <<"W">> ELSE <<"w">>
    [] it.k = "fnout" -> <<"o", "n", "e">>
    [] it.k = "escopen" -> <<"<", "PCT">>
    [] it.k = "bslemit" -> <<"BSL", "7">>
    [] it.k = "false" -> <<"f", "a", "l", "s", "e">>
    [] it.k = "zero"  -> <<"0">>
    [] it.k = "arrvar" -> <<"x", "y">>
    [] it.k = "arrpair" -> <<"x", "y", "x", "y">>
    [] it.k \in {"iterbrk", "arrbrk"} -> <<"[", "1", "]", ",", "[", "2", "]", "s">>
    [] it.k = "twoblk"  -> <<"[", "A", "A", "A", "|", "B", "B", "]">>
    [] it.k = "nestblk" -> <<"o", "n", "e", " ", "t", "w", "o", " ", "3">>
    [] it.k = "blkloop" -> <<"(", "x", ")", "(", "y", "y", ")">>
    [] OTHER -> <<>>

Places == {"top", "if", "for", "fn", "blk"}
Place(pl, ss) ==
  CASE pl = "top" -> ss
    [] pl = "if"  -> <<Emit(If(Bool(TRUE), ss))>>
    [] pl = "for" -> <<Emit(For("", "i", Arr(<<IntL(1)>>), ss))>>
    [] pl = "fn"  -> <<Let("f", FnLit(<<>>, ss)), Emit(Call("f", <<>>))>>
    [] pl = "blk" -> <<Emit(CallB("blk", <<>>, ss))>>

VARIABLES items, place, res
vars == <<items, place, res>>
Data == [w |-> S(<<"w">>), ys |-> A(<<S(<<"x">>), S(<<"y">>)>>)]

Stmts == Flat([i \in 1..Len(items) |-> ItemStmts(items[i])])
Pick == Let("pick", FnLit(<<"n">>, <<Code(If(Bin("==", Id("n"), IntL(1)), <<Ret(Str(<<"o", "n", "e">>))>>)), Ret(Str(<<"o", "t", "h", "e", "r">>))>>))
UsesPick == \E i \in 1..Len(items) : items[i].k \in {"fnout", "silentfn"}
Whole(pl) == (IF UsesPick THEN <<Pick>> ELSE <<>>) \o Place(pl, Stmts)
Init == items = <<>> /\ place = "none" /\ res = [k |-> "none"]
AddItem == /\ place = "none" /\ Len(items) < MaxItems
           /\ \E it \in Items : items' = Append(items, it)
           /\ UNCHANGED <<place, res>>
Finish == /\ place = "none" /\ Len(items) >= 1
          /\ \E pl \in Places : place' = pl /\ res' = Run(Whole(pl), WithHelpers(Data), EmptyScope, "")
          /\ UNCHANGED items
Next == AddItem \/ Finish
Spec == Init /\ [][Next]_vars

\* ---- theorem: source-order concatenation
RECURSIVE Concat(_, _, _)
Concat(its, i, assigned) == IF i > Len(its) THEN <<>>
                            ELSE ItemOut(its[i], assigned) \o Concat(its, i + 1, assigned \/ its[i].k = "assign")
RECURSIVE PiecesText(_)
PiecesText(ps) == IF ps = <<>> THEN <<>> ELSE Head(ps).s \o PiecesText(Tail(ps))
SourceOrder == res.k \notin {"none", "unspec"} => (res.k = "out" /\ PiecesText(res.pieces) = Concat(items, 1, FALSE))

Expect(r) == CASE r.k = "out" -> [k |-> "out", pieces |-> r.pieces, log |-> r.log]
               [] r.k = "err" -> [k |-> "err", w |-> r.w, log |-> r.log]
               [] OTHER       -> [k |-> "unspec"]
RECURSIVE Kinds(_)
Kinds(its) == IF its = <<>> THEN "" ELSE Head(its).k \o "," \o Kinds(Tail(its))

\* ---- an output tag prints the value its expression has WHEN THE TAG IS REACHED: an array assigned to later in the same block,
\* loop body or stored block does not change what an earlier tag printed.  (Layer A has no mutable values -- index assignment is
\* unspec there -- so these programs carry their results, derived from the sentence above.)
RawOut(cs) == [k |-> "out", pieces |-> <<[k |-> "raw", s |-> cs]>>, log |-> <<>>]
SetA0(v) == Code(IdxAssign(Id("a"), IntL(0), v))
Snapshots ==
  << [n |-> "loop", want |-> <<"1", ";", "2", ";">>,
      prog |-> <<Let("a", Arr(<<IntL(0)>>)), Emit(For("", "x", Arr(<<IntL(1), IntL(2)>>), <<SetA0(Id("x")), Emit(Id("a")), Text(<<";">>)>>))>>],
     [n |-> "if", want |-> <<"1", "|", "2">>,
      prog |-> <<Let("a", Arr(<<IntL(1)>>)), Emit(If(Bool(TRUE), <<Emit(Id("a")), SetA0(IntL(2)), Text(<<"|">>), Emit(Id("a"))>>))>>],
     [n |-> "contentfor", want |-> <<"1", "2">>,
      prog |-> <<Let("a", Arr(<<IntL(1)>>)), Code(CallB("contentFor", <<Str(<<"x">>)>>, <<Emit(Id("a")), SetA0(IntL(2)), Emit(Id("a"))>>)), Emit(Call("contentOf", <<Str(<<"x">>)>>))>>],
     [n |-> "top", want |-> <<"1", "2">>,
      prog |-> <<Let("a", Arr(<<IntL(1)>>)), Emit(Id("a")), SetA0(IntL(2)), Emit(Id("a"))>>],
     [n |-> "fn", want |-> <<"1", "2", "/", "2">>,
      prog |-> <<Let("a", Arr(<<IntL(1)>>)), Let("f", FnLit(<<>>, <<Emit(Id("a")), SetA0(IntL(2)), Emit(Id("a"))>>)), Emit(Call("f", <<>>)), Text(<<"/">>), Emit(Id("a"))>>] >>
EmitSnapshots == ~(items = <<>> /\ place = "none") \/
                 \A i \in 1..Len(Snapshots) :
                    PrintT("CASE " \o ToJson([gen |-> "GenText", src |-> Unparse(Snapshots[i].prog), data |-> Data,
                                               shape |-> "snapshot:" \o Snapshots[i].n, expect |-> RawOut(Snapshots[i].want)]))
EmitCase == EmitSnapshots /\ (res.k = "none" \/
            PrintT("CASE " \o ToJson([gen |-> "GenText", src |-> Unparse(Whole(place)), data |-> Data,
                                       shape |-> place \o ":" \o Kinds(items), expect |-> Expect(res)])))
=============================================================================
