CONSTANTS
  MaxSteps = 7
SPECIFICATION Spec
INVARIANTS NavTheorem FailTheorem EmitCase
CHECK_DEADLOCK FALSE
