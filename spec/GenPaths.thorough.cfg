CONSTANTS
  MaxSteps = 7
SPECIFICATION Spec
INVARIANTS NavTheorem FailTheorem RevisitTheorem EmitCase
CHECK_DEADLOCK FALSE
