CONSTANTS
  K = 4
  AsBuilt = TRUE
  EmitCases = FALSE
SPECIFICATION Spec
INVARIANTS Agree Identity
CHECK_DEADLOCK FALSE
