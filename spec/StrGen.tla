------------------------------- MODULE StrGen -------------------------------
(***************************************************************************)
(* C20: inputs for the escaping helpers and for toJSON.                    *)
(*  family "str":  every string up to length N over character classes      *)
(*     (specials of HTML and JS, quotes, backslash, line breaks incl.       *)
(*     U+2028, multi-byte, combining, an invalid UTF-8 byte), with the     *)
(*     model's htmlEscape result and the per-class statement of what an    *)
(*     escaped string may contain (TLC invariants HtmlClean / JsClean on   *)
(*     the model's escapers);                                              *)
(*  family "json": JSON-representable values from a recursive generator    *)
(*     (depth <= 2): the oracle for fidelity is Go's decoder.              *)
(***************************************************************************)
EXTENDS PlushSem, Json

CONSTANTS N, EmitCases

Classes == {"a", "LT", "GT", "AMP", "APOS", "QUOT", "EQ", "BSL", "NL", "CR", "U2028", "MB", "COMB", "BAD", "SP", "E4"}       \* E4: a character of four bytes (outside the basic plane)

\* jsEscape per character class (template.JSEscapeString): what each class becomes
JsEsc(c) == CASE c = "LT" -> <<"BSL","u","0","0","3","C">> [] c = "GT" -> <<"BSL","u","0","0","3","E">>
              [] c = "AMP" -> <<"BSL","u","0","0","2","6">> [] c = "EQ" -> <<"BSL","u","0","0","3","D">>
              [] c = "APOS" -> <<"BSL","APOS">> [] c = "QUOT" -> <<"BSL","QUOT">> [] c = "BSL" -> <<"BSL","BSL">>
              [] c = "NL" -> <<"BSL","n">> [] c = "CR" -> <<"BSL","r">> [] c = "U2028" -> <<"BSL","u","2","0","2","8">>
              [] c = "BAD" -> <<"BSL","u","F","F","F","D">>
              [] OTHER -> <<c>>
JsEscape(s) == Flat([i \in 1..Len(s) |-> JsEsc(s[i])])

VARIABLES fam, s, v
vars == <<fam, s, v>>

Atoms == { Nil, B(TRUE), I(0), I(-3), F(3, 1), S(<<>>), S(<<"a", "LT", "b", "GT", "AMP">>), S(<<"QUOT", "BSL", "NL">>), S(<<"MB", "U2028", "APOS">>), S(<<"E4", "0", "CJK">>) }
Arrays(V) == { A(<<>>) } \cup { A(<<x>>) : x \in V }
Arrays2(V) == Arrays(V) \cup { A(<<x, y>>) : x \in V, y \in V }
Objects(V) == { M([k |-> x]) : x \in V } \cup { M(EmptyScope) }
Objects2(V) == Objects(V) \cup { M([k |-> x, a |-> y]) : x \in V, y \in V }
V1 == Atoms \cup Arrays2(Atoms) \cup Objects2(Atoms)
V2 == V1 \cup Arrays(V1) \cup Objects(V1)

Init == \/ fam = "str" /\ s = <<>> /\ v = Nil
        \/ fam = "json" /\ s = <<>> /\ v \in V2
Grow == fam = "str" /\ Len(s) < N /\ \E c \in Classes : s' = Append(s, c) /\ UNCHANGED <<fam, v>>
Spec == Init /\ [][Grow]_vars

\* ---- the statement of C20 on the model's escapers
HtmlSpecials == {"LT", "GT", "APOS", "QUOT"}
HtmlClean == fam = "str" => LET e == EscChars(s) IN
               /\ \A i \in 1..Len(e) : e[i] \notin HtmlSpecials
               /\ \A i \in 1..Len(e) : e[i] = "AMP" => (i < Len(e) /\ e[i + 1] \in {"l", "g", "a", "HASH"})
JsClean == fam = "str" => LET e == JsEscape(s) IN
               /\ \A i \in 1..Len(e) : e[i] \notin {"LT", "GT", "AMP", "EQ", "NL", "CR", "U2028"}
               /\ \A i \in 1..Len(e) : e[i] \in {"APOS", "QUOT"} => (i > 1 /\ e[i - 1] = "BSL")

Emit == ~EmitCases \/
        PrintT("CASE " \o ToJson(IF fam = "str" THEN [gen |-> "StrGen", fam |-> fam, s |-> s, html |-> EscChars(s), js |-> JsEscape(s)]
                                                 ELSE [gen |-> "StrGen", fam |-> fam, v |-> v]))
=============================================================================
