------------------------------ MODULE Truncate ------------------------------
(***************************************************************************)
(* Layer B machine of text.Truncate (helpers/text/truncate.go) over        *)
(* sequences of CHARACTER CLASSES: "a" an ASCII character, "MB" a          *)
(* multi-byte character, "COMB" a combining mark (its own rune), "BAD" an  *)
(* invalid UTF-8 byte (one rune U+FFFD after conversion to []rune).        *)
(* The algorithm is transcribed step by step; RewritesInvalid = TRUE is    *)
(* the pinned commit (the kept prefix is converted back from []rune, which *)
(* rewrites invalid bytes), FALSE the repaired version (the prefix is a    *)
(* byte slice of s ending at a character boundary).                        *)
(* Properties (C20): s unchanged when it has at most `size` characters;    *)
(* otherwise a prefix of s followed by trail, at most max(size, len trail) *)
(* characters in total.                                                    *)
(***************************************************************************)
EXTENDS Integers, Sequences, TLC, Json

CONSTANTS N,               \* maximal length of s
          MaxTrail,        \* maximal length of trail
          RewritesInvalid, EmitCases

\* "E4" a four-byte character, "SP" a blank (the kept part is a prefix of s, blanks included)
Classes == {"a", "MB", "COMB", "BAD", "E4", "SP"}
\* trails: ASCII with a multi-byte character at every third place, and trails that are mostly
\* multi-byte (their length in bytes is well above their length in characters)
Trails  == { [i \in 1..n |-> IF i % 3 = 0 THEN "MB" ELSE "."] : n \in 0..MaxTrail }
           \cup { <<"MB">>, <<"CJK">>, <<"MB", "MB">>, <<"CJK", ".">>, <<".", "CJK", "MB">> }

VARIABLES s, size, trail, stage
vars == <<s, size, trail, stage>>

Init == s = <<>> /\ size = 0 /\ trail = <<>> /\ stage = "build"
Grow == /\ stage = "build" /\ Len(s) < N /\ \E c \in Classes : s' = Append(s, c)
        /\ UNCHANGED <<size, trail, stage>>
Choose == /\ stage = "build"
          /\ \E z \in -2..(N + 6), t \in Trails : size' = z /\ trail' = t
          /\ stage' = "done" /\ UNCHANGED s
Next == Grow \/ Choose
Spec == Init /\ [][Next]_vars

\* ---- the algorithm, statement by statement
Rewrite(c) == IF RewritesInvalid /\ c = "BAD" THEN "FFFD" ELSE c
Result ==
  LET runesS == s IN                                            \* runesS := []rune(s)
  IF Len(runesS) <= size THEN s                                 \* if len(runesS) <= size { return s }
  ELSE IF Len(trail) >= size THEN trail                         \* if len(runesTrail) >= size { return trail }
  ELSE [i \in 1..(size - Len(trail)) |-> Rewrite(runesS[i])] \o trail

\* ---- the statement of C20
MaxOf(x, y) == IF x > y THEN x ELSE y
Unchanged   == (stage = "done" /\ Len(s) <= size) => Result = s
PrefixTrail == (stage = "done" /\ Len(s) > size) =>
                 /\ \E k \in 0..Len(s) : Result = SubSeq(s, 1, k) \o trail
                 /\ Len(Result) <= MaxOf(size, Len(trail))

Emit == ~(EmitCases /\ stage = "done") \/
        PrintT("CASE " \o ToJson([gen |-> "Truncate", s |-> s, size |-> size, trail |-> trail, result |-> Result]))
=============================================================================
