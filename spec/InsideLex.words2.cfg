SPECIFICATION Spec
CONSTANTS
  K = 2
  Mode = "words"
  EmitCases = TRUE
INVARIANTS LayoutInsensitive Emit
CHECK_DEADLOCK FALSE
