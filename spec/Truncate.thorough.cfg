CONSTANTS
  N = 6
  MaxTrail = 8
  RewritesInvalid = FALSE
  EmitCases = TRUE
SPECIFICATION Spec
INVARIANTS Unchanged PrefixTrail Emit
CHECK_DEADLOCK FALSE
