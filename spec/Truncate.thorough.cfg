CONSTANTS
  N = 5
  MaxTrail = 8
  RewritesInvalid = FALSE
  EmitCases = TRUE
SPECIFICATION Spec
INVARIANTS Unchanged PrefixTrail Emit
CHECK_DEADLOCK FALSE
