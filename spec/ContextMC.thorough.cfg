CONSTANTS
  Keys <- MCKeys
  HelperKeys <- MCHelperKeys
  MaxCtx = 4
  MaxOps = 4
  InjectByHas = FALSE
  EmitCases = TRUE
SPECIFICATION Spec
INVARIANTS Agree UserWins Emit
PROPERTY Frame
CHECK_DEADLOCK FALSE
