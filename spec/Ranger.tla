------------------------------- MODULE Ranger -------------------------------
(***************************************************************************)
(* Layer B machine of the numeric iterators (helpers/iterators/range.go,   *)
(* between.go, until.go): state (pos, end) of a `ranger`, one action per   *)
(* call of Next().  Integers are W-bit two's complement with wrap-around,  *)
(* so TLC explores ALL argument pairs including the extremes of int, where *)
(* `a - 1` and `b - 1` overflow in the code.                               *)
(*                                                                         *)
(* Overflow = TRUE : the constructors of the pinned commit                 *)
(*            (Range: pos = a-1; Between: end = b-1; Until: end = n-1).    *)
(* Overflow = FALSE: the repaired iterator (next value + done flag).       *)
(*                                                                         *)
(* Properties (C19): the yielded sequence is exactly a..b / a+1..b-1 /     *)
(* 0..n-1, nothing for an empty interval, and the iterator terminates.     *)
(***************************************************************************)
EXTENDS Integers, Sequences, TLC, Json

CONSTANTS W, Overflow, EmitCases

Min == -(2 ^ (W - 1))
Max == (2 ^ (W - 1)) - 1
IntW == Min..Max
Wrap(x) == ((x - Min) % (2 ^ W)) + Min

VARIABLES kind, a, b,       \* the call: range(a,b) / between(a,b) / until(a)
          pos, end, done,   \* iterator state
          out               \* values yielded so far
vars == <<kind, a, b, pos, end, done, out>>

Construct(k, x, y) ==
  IF Overflow THEN
     CASE k = "range"   -> [pos |-> Wrap(x - 1), end |-> y, done |-> FALSE]
       [] k = "between" -> [pos |-> x, end |-> Wrap(y - 1), done |-> FALSE]
       [] k = "until"   -> [pos |-> -1, end |-> Wrap(x - 1), done |-> FALSE]
  ELSE \* repaired: pos is the NEXT value to yield; empty intervals are done from the start
     CASE k = "range"   -> [pos |-> x, end |-> y, done |-> x > y]
       [] k = "between" -> IF x = Max \/ y = Min THEN [pos |-> 0, end |-> 0, done |-> TRUE]
                           ELSE [pos |-> x + 1, end |-> y - 1, done |-> x + 1 > y - 1]
       [] k = "until"   -> IF x = Min THEN [pos |-> 0, end |-> 0, done |-> TRUE]
                           ELSE [pos |-> 0, end |-> x - 1, done |-> 0 > x - 1]

Init == /\ kind \in {"range", "between", "until"} /\ a \in IntW /\ b \in IntW
        /\ (kind = "until" => b = 0)
        /\ LET c == Construct(kind, a, b) IN pos = c.pos /\ end = c.end /\ done = c.done
        /\ out = <<>>

\* one call of Next()
NextCall ==
  /\ ~done
  /\ IF Overflow
       THEN IF pos < end THEN pos' = Wrap(pos + 1) /\ out' = Append(out, Wrap(pos + 1)) /\ done' = FALSE
                         ELSE done' = TRUE /\ UNCHANGED <<pos, out>>
       ELSE /\ out' = Append(out, pos)
            /\ IF pos = end THEN done' = TRUE /\ UNCHANGED pos ELSE pos' = pos + 1 /\ done' = FALSE
  /\ UNCHANGED <<kind, a, b, end>>

Spec == Init /\ [][NextCall]_vars /\ WF_vars(NextCall)

\* ---- declarative meaning
Lo == CASE kind = "range" -> a [] kind = "between" -> a + 1 [] kind = "until" -> 0
Hi == CASE kind = "range" -> b [] kind = "between" -> b - 1 [] kind = "until" -> a - 1
Expected == [i \in 1..(IF Hi >= Lo THEN Hi - Lo + 1 ELSE 0) |-> Lo + i - 1]

\* every prefix of what is yielded is a prefix of the expected sequence, and the whole of it at the end
PrefixOK == Len(out) <= Len(Expected) /\ \A i \in 1..Len(out) : out[i] = Expected[i]
Exact    == done => out = Expected
Terminates == <>done

Emit == ~(EmitCases /\ out = <<>>) \/
        PrintT("CASE " \o ToJson([gen |-> "Ranger", kind |-> kind, a |-> a, b |-> b, min |-> Min, max |-> Max, expected |-> Expected]))
=============================================================================
