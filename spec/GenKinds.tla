------------------------------ MODULE GenKinds ------------------------------
(***************************************************************************)
(* Generator machine for C04: the kind matrices.  A FORM is a template     *)
(* with the free variables a, b, c; every form is instantiated with every  *)
(* tuple of value kinds for its variables (the harness materialises a Go   *)
(* value for each kind name):                                              *)
(*    operator x left kind x right kind;  ! x kind;                        *)
(*    container x index (read);  container x index x assigned value;       *)
(*    receiver x member (field, missing field, unexported field, value and *)
(*    pointer method, chained index / call);  iterable kind;               *)
(*    callee kind x argument list;  built-in helper x argument kinds;      *)
(*    every sink (output tag, condition, let, array / hash element).       *)
(* The specification says of every cell what C04 says: executing it        *)
(* returns output or an error.  (Values are decided by C06/C07/C11.)       *)
(***************************************************************************)
EXTENDS Integers, Sequences, TLC, Json

CONSTANT Family      \* which matrices: "ops" | "index" | "update" | "member" | "call" | "builtin" | "misc"

AllKinds == << "nil", "bool", "int", "int_neg", "int8", "int64", "uint", "uint8", "float64", "float32", "str", "empty_str", "html", "htmler",
               "stringer", "time", "slice_any", "slice_str", "slice_int", "slice_struct", "empty_slice", "nil_slice", "array_int", "ptr_slice",
               "map_str_any", "map_str_str", "map_int_str", "map_any_any", "map_str_struct", "nil_map", "struct", "ptr_struct", "nilptr_struct",
               "func0", "func_str", "func_err", "func_variadic", "func_help", "iter", "userfn_src", "unknown",
               "ptr_map", "ptr_array", "ptr_str", "ptr_int", "nil_func", "nilptr_time", "ptr_time", "struct_embedded_nil", "slice_stringer", "slice_ptr_struct", "func_returns_nilfunc", "nilptr_map",
               \* a float NaN and a map with a NaN key; a comparable struct that holds a slice in an interface field (not hashable
               \* at run time); a nil pointer whose type implements fmt.Stringer; a multi-byte string; a small int above 1
               "float_nan", "map_float_nan", "struct_iface_slice", "nilptr_stringer", "ptr_stringer", "str_mb", "int3",
               \* nil pointers whose types implement HTMLer / Interface() / ToPath() with VALUE receivers; structs that promote a
               \* method from a nil embedded pointer / interface; a function taking a fixed-size array; a function whose last
               \* parameter is a defined type over HelperContext; a typed nil partial feeder; a helper that renders a template
               \* with its own helper context; a slice shared with a function that shortens it
               "nilptr_htmler", "nilptr_interfaceable", "nilptr_pathable", "slice_nilptr_pathable", "struct_promotes_nil_ptr", "struct_promotes_nil_iface",
               "func_array3", "func_myhc", "nil_feeder", "func_rerender", "ptr_slice_shared", "func_shrink_shared",
               \* functions whose (omitted) last parameter implements the helper-context interface without being HelperContext:
               \* a pointer to it, a struct embedding it, a larger interface; containers whose element / key type is a non-empty
               \* interface; two struct types that print the same name with the field Name at index 3 and at index 0
               "func_ptrhc", "func_embhc", "func_bigifacehc", "slice_stringer1", "map_str_error", "map_stringer_int", "twin_big", "twin_small",
               \* functions that return NO value (any number of arguments); a struct with such a method (Touch)
               "func_void", "func_void_variadic",
               \* structs (and a pointer to one) that promote String() / HTML() from an embedded pointer / interface that is nil
               "struct_embeds_nil_time", "struct_embeds_nil_stringer", "struct_embeds_nil_htmler", "ptr_struct_embeds_nil_duration",
               \* functions whose last result is of a NON-pointer type that implements error (a struct, a string kind); returning the zero value / a failure
               "func_valerr_zero", "func_valerr_set", "func_strerr" >>
\* a smaller set for the third variable of three-variable forms
ValueKinds == << "nil", "int", "str", "float64", "bool", "slice_any", "map_str_any", "struct", "ptr_struct", "func0" >>
KindSet(s) == {s[i] : i \in 1..Len(s)}

Ops == << "+", "-", "*", "/", "<", "<=", ">", ">=", "==", "!=", "~=", "AMP AMP", "||" >>
OpToks(o) == IF o = "AMP AMP" THEN <<"AMP", "AMP">> ELSE <<o>>

MaxIntE == <<"9223372036854775807">>
MinIntE == <<"(", "0", " ", "-", " ", "9223372036854775807", " ", "-", " ", "1", ")">>
E(ts) == <<"<%=", " ">> \o ts \o <<" ", "%>">>
C(ts) == <<"<%", " ">> \o ts \o <<" ", "%>">>

\* forms: [n: name, vars: number of free variables, src: tokens]
FormsOf(fam) ==
  CASE fam = "ops" ->
         { [n |-> "op:" \o Ops[i], vars |-> 2, src |-> E(<<"a", " ">> \o OpToks(Ops[i]) \o <<" ", "b">>)] : i \in 1..Len(Ops) }
         \cup { [n |-> "not", vars |-> 1, src |-> E(<<"!", "a">>)],
                [n |-> "notnot", vars |-> 1, src |-> E(<<"!", "!", "a">>)],
                [n |-> "chain", vars |-> 2, src |-> E(<<"a", " ", "+", " ", "b", " ", "+", " ", "a">>)] }
    [] fam = "index" ->
         { [n |-> "idx", vars |-> 2, src |-> E(<<"a", "[", "b", "]">>)],
           [n |-> "idx0", vars |-> 1, src |-> E(<<"a", "[", "0", "]">>)],
           [n |-> "idxneg", vars |-> 1, src |-> E(<<"a", "[", "0", " ", "-", " ", "1", "]">>)],
           [n |-> "idxbig", vars |-> 1, src |-> E(<<"a", "[", "9", "9", "]">>)],
           [n |-> "idxstr", vars |-> 1, src |-> E(<<"a", "[", "QUOT", "k", "QUOT", "]">>)],
           [n |-> "idxidx", vars |-> 2, src |-> E(<<"a", "[", "b", "]", "[", "0", "]">>)],
           [n |-> "idxfield", vars |-> 2, src |-> E(<<"a", "[", "b", "]", ".", "Name">>)],
           [n |-> "idxcall", vars |-> 2, src |-> E(<<"a", "[", "b", "]", ".", "Hello", "(", ")">>)] }
    [] fam = "update" ->
         { [n |-> "set", vars |-> 3, src |-> C(<<"a", "[", "b", "]", " ", "=", " ", "c">>) \o E(<<"QUOT", "o", "k", "QUOT">>)],
           [n |-> "setlit", vars |-> 2, src |-> C(<<"let", " ", "h", " ", "=", " ", "LBR", "k", ":", " ", "1", "RBR">>) \o C(<<"h", "[", "a", "]", " ", "=", " ", "b">>) \o E(<<"h", "[", "QUOT", "k", "QUOT", "]">>)],
           [n |-> "setarr", vars |-> 2, src |-> C(<<"let", " ", "x", " ", "=", " ", "[", "1", ",", " ", "2", "]">>) \o C(<<"x", "[", "a", "]", " ", "=", " ", "b">>) \o E(<<"x">>)],
           [n |-> "assign", vars |-> 2, src |-> C(<<"a", " ", "=", " ", "b">>) \o E(<<"a">>)],
           [n |-> "append", vars |-> 2, src |-> C(<<"let", " ", "x", " ", "=", " ", "a", " ", "+", " ", "b">>) \o E(<<"x">>)],
           \* what a + b gives is used further: indexed, iterated, measured, extended again, asked for a member / method
           \* (the method names are those of the evaluator's reflection handle, which the result once was)
           [n |-> "appendidx", vars |-> 2, src |-> E(<<"(", "a", " ", "+", " ", "b", ")", "[", "0", "]">>)],
           [n |-> "appendlen", vars |-> 2, src |-> E(<<"len", "(", "a", " ", "+", " ", "b", ")">>)],
           [n |-> "appendagain", vars |-> 2, src |-> E(<<"a", " ", "+", " ", "b", " ", "+", " ", "b">>)],
           [n |-> "appenditer", vars |-> 2, src |-> E(<<"for", " ", "(", "v", ")", " ", "in", " ", "(", "a", " ", "+", " ", "b", ")", " ", "LBR", " ", "%>", "<%=", " ", "v", " ", "%>", "<%", " ", "RBR">>)],
           [n |-> "appendfield", vars |-> 2, src |-> C(<<"let", " ", "x", " ", "=", " ", "a", " ", "+", " ", "b">>) \o E(<<"x", ".", "Name">>)],
           [n |-> "appendmeth:MethodByName", vars |-> 2, src |-> C(<<"let", " ", "x", " ", "=", " ", "a", " ", "+", " ", "b">>) \o E(<<"x", ".", "MethodByName", "(", "QUOT", "n", "QUOT", ")">>)],
           [n |-> "appendmeth:Index", vars |-> 2, src |-> C(<<"let", " ", "x", " ", "=", " ", "a", " ", "+", " ", "b">>) \o E(<<"x", ".", "Index", "(", "0", ")", ".", "Elem", "(", ")">>)],
           [n |-> "appendmeth:Len", vars |-> 2, src |-> C(<<"let", " ", "x", " ", "=", " ", "a", " ", "+", " ", "b">>) \o E(<<"x", ".", "Len", "(", ")">>)] }
    [] fam = "member" ->
         { [n |-> "field", vars |-> 1, src |-> E(<<"a", ".", "Name">>)],
           [n |-> "missing", vars |-> 1, src |-> E(<<"a", ".", "Nope">>)],
           [n |-> "unexported", vars |-> 1, src |-> E(<<"a", ".", "secret">>)],
           [n |-> "method", vars |-> 1, src |-> E(<<"a", ".", "Hello", "(", ")">>)],
           [n |-> "ptrmethod", vars |-> 1, src |-> E(<<"a", ".", "Shout", "(", ")">>)],
           [n |-> "methodarg", vars |-> 2, src |-> E(<<"a", ".", "Greet", "(", "b", ")">>)],
           [n |-> "nomethod", vars |-> 1, src |-> E(<<"a", ".", "Nope", "(", ")">>)],
           [n |-> "deep", vars |-> 1, src |-> E(<<"a", ".", "Kid", ".", "Name">>)],
           [n |-> "deepnil", vars |-> 1, src |-> E(<<"a", ".", "NilKid", ".", "Name">>)],
           [n |-> "kids", vars |-> 2, src |-> E(<<"a", ".", "Kids", "[", "b", "]", ".", "Name">>)],
           [n |-> "fieldcall", vars |-> 1, src |-> E(<<"a", ".", "Name", "(", ")">>)],
           [n |-> "nilfieldmethod", vars |-> 1, src |-> E(<<"a", ".", "NilKid", ".", "Hello", "(", ")">>)],
           [n |-> "nilfieldptrmethod", vars |-> 1, src |-> E(<<"a", ".", "NilKid", ".", "Shout", "(", ")">>)],
           [n |-> "promoted", vars |-> 1, src |-> E(<<"a", ".", "Inner">>)],
           [n |-> "funcfield", vars |-> 1, src |-> E(<<"a", ".", "Fn", "(", ")">>)],
           [n |-> "stringmethod", vars |-> 1, src |-> E(<<"a", ".", "String", "(", ")">>)],
           [n |-> "methodvalue", vars |-> 1, src |-> C(<<"let", " ", "m", " ", "=", " ", "a", ".", "Hello">>) \o E(<<"m", "(", ")">>)],
           \* the loop's collection is shortened by a call in its body
           [n |-> "shrinkloop", vars |-> 2, src |-> E(<<"for", " ", "(", "v", ")", " ", "in", " ", "a", " ", "LBR", " ", "%>", "<%=", " ", "v", " ", "%>", "<%", " ", "b", "(", ")", " ", "%>", "<%", " ", "RBR">>)],
           [n |-> "iterate", vars |-> 1, src |-> E(<<"for", " ", "(", "k", ",", " ", "v", ")", " ", "in", " ", "a", " ", "LBR", " ", "%>", "<%=", " ", "k", " ", "%>", "<%=", " ", "v", " ", "%>", "<%", " ", "RBR">>)],
           [n |-> "iterfield", vars |-> 1, src |-> E(<<"for", " ", "(", "v", ")", " ", "in", " ", "a", ".", "Kids", " ", "LBR", " ", "%>", "<%=", " ", "v", ".", "Name", " ", "%>", "<%", " ", "RBR">>)] }
    [] fam = "call" ->
         { [n |-> "call0", vars |-> 1, src |-> E(<<"a", "(", ")">>)],
           [n |-> "call1", vars |-> 2, src |-> E(<<"a", "(", "b", ")">>)],
           [n |-> "call2", vars |-> 3, src |-> E(<<"a", "(", "b", ",", " ", "c", ")">>)],
           [n |-> "call3", vars |-> 2, src |-> E(<<"a", "(", "b", ",", " ", "b", ",", " ", "b", ")">>)],
           [n |-> "callblock", vars |-> 1, src |-> E(<<"a", "(", ")", " ", "LBR", " ", "%>", "x", "<%", " ", "RBR">>)],
           [n |-> "userfn0", vars |-> 1, src |-> C(<<"let", " ", "f", " ", "=", " ", "fn", "(", "p", ",", " ", "q", ")", " ", "LBR", " ", "return", " ", "p", " ", "RBR">>) \o E(<<"f", "(", "a", ")">>)],
           [n |-> "userfn3", vars |-> 1, src |-> C(<<"let", " ", "f", " ", "=", " ", "fn", "(", "p", ")", " ", "LBR", " ", "return", " ", "p", " ", "RBR">>) \o E(<<"f", "(", "a", ",", " ", "a", ",", " ", "a", ")">>)],
           [n |-> "chaincall", vars |-> 2, src |-> E(<<"a", "(", "b", ")", ".", "Name">>)],
           [n |-> "callcall", vars |-> 1, src |-> E(<<"a", "(", ")", "(", ")">>)],
           \* a path continued after a call (the call may return nothing at all)
           [n |-> "chaincall0", vars |-> 1, src |-> E(<<"a", "(", ")", ".", "Name">>)],
           [n |-> "chaincallidx", vars |-> 1, src |-> E(<<"a", "(", ")", "[", "0", "]">>)],
           [n |-> "chaincallmeth", vars |-> 1, src |-> E(<<"a", "(", ")", ".", "Hello", "(", ")">>)],
           [n |-> "chainmethvoid", vars |-> 1, src |-> E(<<"a", ".", "Touch", "(", ")", ".", "Name">>)],
           [n |-> "letvoid", vars |-> 2, src |-> C(<<"let", " ", "x", " ", "=", " ", "a", "(", "b", ")">>) \o E(<<"x">>)] }
    [] fam = "builtin" ->
         { [n |-> "b1:" \o h, vars |-> 1, src |-> E(<<h, "(", "a", ")">>)] :
             h \in {"len", "raw", "htmlEscape", "jsEscape", "toJSON", "json", "until", "inspect", "debug", "env", "capitalize", "pluralize", "ordinalize", "contentOf", "truncate", "partial", "underscore", "pathFor", "form", "formFor", "markdown", "camelize", "singularize", "dasherize", "humanize"} }
         \cup { [n |-> "b2:" \o h, vars |-> 2, src |-> E(<<h, "(", "a", ",", " ", "b", ")">>)] :
             h \in {"truncate", "range", "between", "groupBy", "envOr", "partial", "contentOf", "len", "raw"} }
         \cup { [n |-> "b0:" \o h, vars |-> 0, src |-> E(<<h, "(", ")">>)] : h \in {"len", "raw", "truncate", "range", "partial", "contentFor", "contentOf", "toJSON", "groupBy"} }
         \cup { [n |-> "truncopts", vars |-> 2, src |-> E(<<"truncate", "(", "QUOT", "a", "b", "c", "d", "e", "f", "QUOT", ",", " ", "LBR", "size", ":", " ", "a", ",", " ", "trail", ":", " ", "b", "RBR", ")">>)],
                [n |-> "groupiter", vars |-> 2, src |-> E(<<"for", " ", "(", "g", ")", " ", "in", " ", "groupBy", "(", "a", ",", " ", "b", ")", " ", "LBR", " ", "%>", "<%=", " ", "len", "(", "g", ")", " ", "%>", "<%", " ", "RBR">>)],
                [n |-> "cforblock", vars |-> 1, src |-> C(<<"contentFor", "(", "a", ")", " ", "LBR", " ", "%>", "x", "<%", " ", "RBR">>) \o E(<<"contentOf", "(", "a", ")">>)],
                [n |-> "cofdata", vars |-> 1, src |-> C(<<"contentFor", "(", "QUOT", "n", "QUOT", ")", " ", "LBR", " ", "%>", "x", "<%", " ", "RBR">>) \o E(<<"contentOf", "(", "QUOT", "n", "QUOT", ",", " ", "a", ")">>)],
                [n |-> "partialdata", vars |-> 1, src |-> E(<<"partial", "(", "QUOT", "p", "QUOT", ",", " ", "a", ")">>)],
                \* loops over the numeric iterators at the ends of the int range (nothing qualifies, or exactly one number does)
                [n |-> "iterends:until", vars |-> 0, src |-> E(<<"for", " ", "(", "v", ")", " ", "in", " ", "until", "(">> \o MinIntE \o <<")", " ", "LBR", " ", "%>", "<%=", " ", "v", " ", "%>", "<%", " ", "RBR">>)],
                [n |-> "iterends:betweenmax", vars |-> 1, src |-> E(<<"for", " ", "(", "v", ")", " ", "in", " ", "between", "(">> \o MaxIntE \o <<",", " ", "a", ")", " ", "LBR", " ", "%>", "<%=", " ", "v", " ", "%>", "<%", " ", "RBR">>)],
                [n |-> "iterends:betweenmin", vars |-> 1, src |-> E(<<"for", " ", "(", "v", ")", " ", "in", " ", "between", "(", "a", ",", " ">> \o MinIntE \o <<")", " ", "LBR", " ", "%>", "<%=", " ", "v", " ", "%>", "<%", " ", "RBR">>)],
                [n |-> "iterends:rangemin", vars |-> 0, src |-> E(<<"for", " ", "(", "v", ")", " ", "in", " ", "range", "(">> \o MinIntE \o <<",", " ">> \o MinIntE \o <<")", " ", "LBR", " ", "%>", "<%=", " ", "v", " ", "%>", "<%", " ", "RBR">>)],
                [n |-> "iterends:letuntil", vars |-> 0, src |-> C(<<"let", " ", "r", " ", "=", " ", "until", "(">> \o MinIntE \o <<")">>) \o E(<<"for", " ", "(", "v", ")", " ", "in", " ", "r", " ", "LBR", " ", "%>", "<%=", " ", "v", " ", "%>", "<%", " ", "RBR">>) \o E(<<"r">>)],
                \* the partial feeder of the context is whatever a is
                [n |-> "setfeeder", vars |-> 1, src |-> C(<<"let", " ", "partialFeeder", " ", "=", " ", "a">>) \o E(<<"partial", "(", "QUOT", "p", "QUOT", ")">>)] }
    [] fam = "misc" ->
         { [n |-> "emit", vars |-> 1, src |-> E(<<"a">>)],
           [n |-> "cond", vars |-> 1, src |-> E(<<"if", " ", "(", "a", ")", " ", "LBR", " ", "%>", "T", "<%", " ", "RBR", " ", "else", " ", "LBR", " ", "%>", "F", "<%", " ", "RBR">>)],
           [n |-> "let", vars |-> 1, src |-> C(<<"let", " ", "x", " ", "=", " ", "a">>) \o E(<<"x">>)],
           [n |-> "arr", vars |-> 2, src |-> E(<<"[", "a", ",", " ", "b", "]">>)],
           [n |-> "hash", vars |-> 2, src |-> E(<<"LBR", "k", ":", " ", "a", ",", " ", "j", ":", " ", "b", "RBR">>)],
           [n |-> "arrlen", vars |-> 2, src |-> E(<<"len", "(", "[", "a", ",", " ", "b", "]", ")">>)],
           [n |-> "ret", vars |-> 1, src |-> C(<<"let", " ", "f", " ", "=", " ", "fn", "(", ")", " ", "LBR", " ", "return", " ", "a", " ", "RBR">>) \o E(<<"f", "(", ")">>)],
           [n |-> "concat", vars |-> 1, src |-> E(<<"QUOT", "s", "QUOT", " ", "+", " ", "a">>)],
           \* hash literals whose keys are keywords or other tokens that are not names
           [n |-> "hashkw:let", vars |-> 0, src |-> E(<<"LBR", "let", ":", " ", "1", ",", " ", "b", ":", " ", "2", "RBR">>)],
           [n |-> "hashkw:for", vars |-> 0, src |-> E(<<"LBR", "a", ":", " ", "1", ",", " ", "for", ":", " ", "2", "RBR">>)],
           [n |-> "hashkw:if", vars |-> 0, src |-> E(<<"LBR", "if", ":", " ", "1", "RBR">>)],
           [n |-> "hashkw:return", vars |-> 0, src |-> E(<<"LBR", "return", ":", " ", "1", ",", " ", "b", ":", " ", "2", "RBR">>)],
           [n |-> "hashkw:fn", vars |-> 0, src |-> E(<<"LBR", "fn", ":", " ", "1", "RBR">>)],
           [n |-> "hashkw:true", vars |-> 0, src |-> E(<<"LBR", "true", ":", " ", "1", ",", " ", "nil", ":", " ", "2", "RBR">>)],
           [n |-> "hashkw:num", vars |-> 0, src |-> E(<<"LBR", "1", ":", " ", "1", ",", " ", "b", ":", " ", "2", "RBR">>)],
           [n |-> "hashkw:in", vars |-> 0, src |-> E(<<"LBR", "in", ":", " ", "1", ",", " ", "else", ":", " ", "2", ",", " ", "break", ":", " ", "3", "RBR">>)],
           [n |-> "hashkw:idx", vars |-> 0, src |-> E(<<"LBR", "let", ":", " ", "1", "RBR", "[", "QUOT", "let", "QUOT", "]">>)],
           \* collections made to contain themselves (rendered in a process of their own: a runaway recursion ends the process)
           [n |-> "iso:selfarr", vars |-> 0, src |-> C(<<"let", " ", "x", " ", "=", " ", "[", "1", "]">>) \o C(<<"x", "[", "0", "]", " ", "=", " ", "x">>) \o E(<<"x">>)],
           [n |-> "iso:selfhash", vars |-> 0, src |-> C(<<"let", " ", "h", " ", "=", " ", "LBR", "k", ":", " ", "1", "RBR">>) \o C(<<"h", "[", "QUOT", "k", "QUOT", "]", " ", "=", " ", "h">>) \o E(<<"h">>) \o E(<<"toJSON", "(", "h", ")">>)],
           [n |-> "iso:mutual", vars |-> 0, src |-> C(<<"let", " ", "x", " ", "=", " ", "[", "1", "]">>) \o C(<<"let", " ", "y", " ", "=", " ", "[", "x", "]">>) \o C(<<"x", "[", "0", "]", " ", "=", " ", "y">>) \o E(<<"y">>) \o E(<<"len", "(", "x", ")">>)],
           [n |-> "iso:selfarrjson", vars |-> 0, src |-> C(<<"let", " ", "x", " ", "=", " ", "[", "1", "]">>) \o C(<<"x", "[", "0", "]", " ", "=", " ", "x">>) \o E(<<"toJSON", "(", "x", ")">>) \o E(<<"inspect", "(", "x", ")">>)],
           \* ... and then handed to something that PRINTS them (string +, an error message naming the value, inspect, an index)
           [n |-> "iso:selfcat", vars |-> 0, src |-> C(<<"let", " ", "x", " ", "=", " ", "[", "1", "]">>) \o C(<<"x", "[", "0", "]", " ", "=", " ", "x">>) \o E(<<"QUOT", "s", "QUOT", " ", "+", " ", "x">>)],
           [n |-> "iso:selfinspect", vars |-> 0, src |-> C(<<"let", " ", "x", " ", "=", " ", "[", "1", "]">>) \o C(<<"x", "[", "0", "]", " ", "=", " ", "x">>) \o E(<<"inspect", "(", "x", ")">>)],
           [n |-> "iso:selfidx", vars |-> 0, src |-> C(<<"let", " ", "x", " ", "=", " ", "[", "1", "]">>) \o C(<<"x", "[", "0", "]", " ", "=", " ", "x">>) \o E(<<"x", "[", "x", "]">>)],
           [n |-> "iso:selfarg", vars |-> 0, src |-> C(<<"let", " ", "x", " ", "=", " ", "[", "1", "]">>) \o C(<<"x", "[", "0", "]", " ", "=", " ", "x">>) \o E(<<"capitalize", "(", "x", ")">>)],
           \* a time value printed while TIME_FORMAT is bound to whatever a is
           [n |-> "timefmt", vars |-> 2, src |-> C(<<"let", " ", "TIME_FORMAT", " ", "=", " ", "a">>) \o E(<<"b">>) \o E(<<"[", "b", "]">>)],
           [n |-> "forval", vars |-> 1, src |-> E(<<"for", " ", "(", "v", ")", " ", "in", " ", "[", "a", "]", " ", "LBR", " ", "%>", "<%=", " ", "v", " ", "%>", "<%", " ", "RBR">>)] }

\* ---- family "nested": expression forms composed to depth two, outer(a := (inner(a, c)), b); explored by simulation
XForms ==
  { [n |-> "x:" \o Ops[i], ex |-> <<"a", " ">> \o OpToks(Ops[i]) \o <<" ", "b">>] : i \in 1..Len(Ops) }
  \cup { [n |-> "x:not", ex |-> <<"!", "a">>], [n |-> "x:idx", ex |-> <<"a", "[", "b", "]">>], [n |-> "x:idx0", ex |-> <<"a", "[", "0", "]">>],
         [n |-> "x:field", ex |-> <<"a", ".", "Name">>], [n |-> "x:kid", ex |-> <<"a", ".", "Kid">>], [n |-> "x:kids", ex |-> <<"a", ".", "Kids">>],
         [n |-> "x:method", ex |-> <<"a", ".", "Hello", "(", ")">>], [n |-> "x:call0", ex |-> <<"a", "(", ")">>], [n |-> "x:call1", ex |-> <<"a", "(", "b", ")">>],
         [n |-> "x:len", ex |-> <<"len", "(", "a", ")">>], [n |-> "x:raw", ex |-> <<"raw", "(", "a", ")">>], [n |-> "x:json", ex |-> <<"toJSON", "(", "a", ")">>],
         [n |-> "x:arr", ex |-> <<"[", "a", ",", " ", "b", "]">>], [n |-> "x:hash", ex |-> <<"LBR", "k", ":", " ", "a", "RBR">>],
         [n |-> "x:trunc", ex |-> <<"truncate", "(", "a", ",", " ", "LBR", "size", ":", " ", "b", "RBR", ")">>], [n |-> "x:cap", ex |-> <<"capitalize", "(", "a", ")">>],
         [n |-> "x:until", ex |-> <<"until", "(", "a", ")">>], [n |-> "x:range", ex |-> <<"range", "(", "a", ",", " ", "b", ")">>],
         [n |-> "x:group", ex |-> <<"groupBy", "(", "b", ",", " ", "a", ")">>], [n |-> "x:id", ex |-> <<"a">>] }
RECURSIVE Subst(_, _, _)
Subst(ts, v, repl) == IF ts = <<>> THEN <<>> ELSE (IF Head(ts) = v THEN repl ELSE <<Head(ts)>>) \o Subst(Tail(ts), v, repl)
Nest(o, i) == Subst(o.ex, "a", <<"(">> \o Subst(i.ex, "b", <<"c">>) \o <<")">>)
\* the composed expression as an output tag, as a condition, and as a loop's iterable
NestedForms ==
  UNION { { [n |-> "emit " \o o.n \o " of " \o i.n, vars |-> 3, src |-> E(Nest(o, i))],
            [n |-> "cond " \o o.n \o " of " \o i.n, vars |-> 3, src |-> E(<<"if", " ", "(">> \o Nest(o, i) \o <<")", " ", "LBR", " ", "%>", "T", "<%", " ", "RBR">>)],
            [n |-> "iter " \o o.n \o " of " \o i.n, vars |-> 3,
             src |-> E(<<"for", " ", "(", "v", ")", " ", "in", " ">> \o Nest(o, i) \o <<" ", "LBR", " ", "%>", "<%=", " ", "v", " ", "%>", "<%", " ", "RBR">>)] } : o \in XForms, i \in XForms }

Forms == IF Family = "nested" THEN NestedForms ELSE FormsOf(Family)

VARIABLES form, ks      \* the form and the kinds chosen so far for a, b, c
vars == <<form, ks>>
Init == form \in Forms /\ ks = <<>>
Pick == /\ Len(ks) < form.vars
        /\ \E k \in (IF Len(ks) = 2 THEN KindSet(ValueKinds) ELSE KindSet(AllKinds)) : ks' = Append(ks, k)
        /\ UNCHANGED form
Spec == Init /\ [][Pick]_vars

Names == <<"a", "b", "c">>
Emit == Len(ks) < form.vars \/
        PrintT("CASE " \o ToJson([gen |-> "GenKinds", form |-> form.n, src |-> form.src,
                                   kinds |-> [i \in 1..Len(ks) |-> <<Names[i], ks[i]>>]]))
=============================================================================
