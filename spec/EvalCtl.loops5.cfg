CONSTANTS
  MaxNodes = 5
  Family = "loops"
  FlattenOne = FALSE
  BreakDrops = FALSE
  RetEndsBlock = FALSE
SPECIFICATION Spec
INVARIANTS Agree Contained AgreeSem EmitCase
CHECK_DEADLOCK FALSE
