------------------------------ MODULE CacheTrace ------------------------------
(***************************************************************************)
(* Trace validation for the template cache: the `parse` events recorded by *)
(* the verif hook in plush.Parse / CacheSet (one per outcome, written      *)
(* while the cache mutex is held) must be steps of Cache.tla's core        *)
(* actions.  CacheEnabled is a public variable that tests flip without a   *)
(* hook, so every event carries the flag's value and a silent Toggle is    *)
(* composed where it differs.                                              *)
(***************************************************************************)
EXTENDS Cache, Json

CONSTANT TraceFile
Trace == ndJsonDeserialize(TraceFile)
TraceTexts == { Trace[i].input : i \in 1..Len(Trace) }
TraceBad   == { Trace[i].input : i \in { j \in 1..Len(Trace) : Trace[j].ev = "missfail" } }

VARIABLES l, ids        \* ids: recorded template pointer -> template id
vars == <<enabled, cache, tmpl, planted, l, ids>>

Ev == Trace[l]
TraceInit == enabled = Trace[1].cache /\ cache = [x \in {} |-> 0] /\ tmpl = <<>> /\ planted = {} /\ l = 1 /\ ids = [p \in {} |-> 0]

TParse == /\ l <= Len(Trace) /\ Ev.ev \in {"uncached", "hit", "miss", "missfail"}
          /\ ParseCoreF(Ev.cache, Ev.input, Ev.ev)      \* the flag may have been flipped since the last event
          /\ l' = l + 1
          /\ IF Ev.ev = "hit" THEN Ev.tmpl \in DOMAIN ids /\ ids[Ev.tmpl] = cache[Ev.input] /\ UNCHANGED ids     \* the very template that was inserted
             ELSE IF Ev.ev = "uncached" THEN UNCHANGED ids                             \* the hook does not see the fresh template
             ELSE ids' = [p \in DOMAIN ids \cup {Ev.tmpl} |-> IF p = Ev.tmpl THEN Len(tmpl) + 1 ELSE ids[p]]
TSet == /\ l <= Len(Trace) /\ Ev.ev = "set"
        /\ LET known == Ev.tmpl \in DOMAIN ids IN
           /\ tmpl' = IF known THEN tmpl ELSE Append(tmpl, [text |-> "?", ver |-> 0])
           /\ ids' = IF known THEN ids ELSE [p \in DOMAIN ids \cup {Ev.tmpl} |-> IF p = Ev.tmpl THEN Len(tmpl) + 1 ELSE ids[p]]
           /\ cache' = Bind(cache, Ev.input, IF known THEN ids[Ev.tmpl] ELSE Len(tmpl) + 1)
           /\ planted' = planted \cup {Ev.input} /\ enabled' = Ev.cache
        /\ l' = l + 1
TraceNext == TParse \/ TSet
TraceSpec == TraceInit /\ [][TraceNext]_vars

TraceAccepted == \/ TLCGet("stats").diameter - 1 = Len(Trace)
                 \/ (PrintT(<<"REJECTED_AT", TLCGet("stats").diameter, Len(Trace)>>) /\ FALSE)
=============================================================================
