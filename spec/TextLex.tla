------------------------------ MODULE TextLex ------------------------------
(***************************************************************************)
(* C02, text outside tags.                                                 *)
(*                                                                         *)
(* RefOut  -- Layer A: the DECLARATIVE segmentation of template text, as   *)
(*   the property states it: left to right, `\\<%` is one backslash then a *)
(*   live tag, `\<%` is a literal `<%`, `<%` opens a tag, every other      *)
(*   character is copied.                                                  *)
(* ImplOut -- Layer B: the byte-level scanner of lexer.readHTML, one       *)
(*   recursion step per byte, written like the code (AsBuilt = TRUE: the   *)
(*   scanner of the pinned commit with prevChar / look-ahead / Replace;    *)
(*   FALSE: the repaired prefix-matching scanner).                         *)
(*                                                                         *)
(* Inputs are all strings up to length K over an alphabet of single bytes  *)
(* and three MACRO symbols that stand for whole well-formed tags, so that  *)
(* every input has a defined meaning unless it opens a tag from raw bytes. *)
(* TLC checks ImplOut = RefOut for every input (invariant Agree) and       *)
(* emits every input with RefOut as the expectation for the real code.     *)
(***************************************************************************)
EXTENDS Integers, Sequences, TLC, Json

CONSTANTS K, AsBuilt, EmitCases

Bytes  == {"BSL", "<", "PCT", ">", "=", "a", "NL", "QUOT"}
Macros == {"TAGE", "TAGS", "TAGC"}
Alpha  == Bytes \cup Macros

\* what a macro symbol is spelled like, and what it contributes to the output
Spell(m) == CASE m = "TAGE" -> <<"<", "PCT", "=", " ", "1", " ", "PCT", ">">>
              [] m = "TAGS" -> <<"<", "PCT", " ", "1", " ", "PCT", ">">>
              [] m = "TAGC" -> <<"<", "PCT", "HASH", " ", "c", " ", "PCT", ">">>
Value(m) == IF m = "TAGE" THEN <<"1">> ELSE <<>>

VARIABLE in          \* sequence of symbols
vars == <<in>>
Init == in = <<>>
Next == Len(in) < K /\ \E c \in Alpha : in' = Append(in, c)
Spec == Init /\ [][Next]_vars

\* ---------------------------------------------------------------- expansion to bytes
\* bytes[i] = the byte, tagAt[i] = macro that starts at byte i ("" if none)
RECURSIVE Expand(_)
Expand(s) == IF s = <<>> THEN <<>>
             ELSE IF Head(s) \in Macros
                  THEN [j \in 1..Len(Spell(Head(s))) |-> [b |-> Spell(Head(s))[j], m |-> IF j = 1 THEN Head(s) ELSE ""]] \o Expand(Tail(s))
                  ELSE <<[b |-> Head(s), m |-> ""]>> \o Expand(Tail(s))
Src(s) == LET e == Expand(s) IN [i \in 1..Len(e) |-> e[i].b]

Unspecified == [k |-> "unspec"]
Out(t) == [k |-> "out", text |-> t]
Cat(t, r) == IF r.k = "unspec" THEN r ELSE Out(t \o r.text)

\* ---------------------------------------------------------------- Layer A: declarative
B(e, p) == IF p >= 1 /\ p <= Len(e) THEN e[p].b ELSE "EOF"
MacroAt(e, p) == IF p >= 1 /\ p <= Len(e) THEN e[p].m ELSE ""
TagOpen(e, p) == B(e, p) = "<" /\ B(e, p + 1) = "PCT"

RECURSIVE Ref(_, _)
Ref(e, p) ==
  IF p > Len(e) THEN Out(<<>>)
  ELSE IF B(e, p) = "BSL" /\ B(e, p + 1) = "BSL" /\ TagOpen(e, p + 2) THEN      \* \\<%  : one backslash, live tag
         (IF MacroAt(e, p + 2) = "" THEN Unspecified
          ELSE Cat(<<"BSL">> \o Value(MacroAt(e, p + 2)), Ref(e, p + 2 + Len(Spell(MacroAt(e, p + 2))))))
  ELSE IF B(e, p) = "BSL" /\ TagOpen(e, p + 1) THEN Cat(<<"<", "PCT">>, Ref(e, p + 3))   \* \<%  : literal <%
  ELSE IF TagOpen(e, p) THEN                                                      \* <%   : a tag
         (IF MacroAt(e, p) = "" THEN Unspecified
          ELSE Cat(Value(MacroAt(e, p)), Ref(e, p + Len(Spell(MacroAt(e, p))))))
  ELSE Cat(<<B(e, p)>>, Ref(e, p + 1))
RefOut(s) == Ref(Expand(s), 1)

\* ---------------------------------------------------------------- Layer B: lexer.readHTML as code
\* the scanner state is (position = p, readPosition = p+1, ch = e[p]); start is `position` on entry
Prev(e, p) == IF p = 1 THEN B(e, 1) ELSE B(e, p - 1)       \* prevChar(): input[readPosition-2], self at offset 0

\* strings.Replace(text, `\<%`, `<%`, -1)
RECURSIVE ReplaceEsc(_)
ReplaceEsc(t) == IF t = <<>> THEN <<>>
                 ELSE IF Len(t) >= 3 /\ t[1] = "BSL" /\ t[2] = "<" /\ t[3] = "PCT" THEN <<"<", "PCT">> \o ReplaceEsc(SubSeq(t, 4, Len(t)))
                 ELSE <<Head(t)>> \o ReplaceEsc(Tail(t))
Bs(e, a, b) == [i \in 1..(IF b >= a THEN b - a + 1 ELSE 0) |-> e[a + i - 1].b]

\* as built: returns [text, next] -- the HTML token's literal and the position scanning resumes at
RECURSIVE ScanBuilt(_, _, _)
ScanBuilt(e, start, p) ==
  IF p > Len(e) THEN [text |-> ReplaceEsc(Bs(e, start, Len(e))), next |-> p]
  ELSE IF B(e, p) = "BSL" /\ Prev(e, p) = "BSL" /\ B(e, p + 1) = "<"             \* "escape escaping"
       THEN [text |-> Bs(e, start, p - 1), next |-> p + 1]                       \*   readChar(); input[position : l.position-1]
  ELSE LET q == IF B(e, p) = "BSL" /\ B(e, p + 1) = "<" THEN p + 2 ELSE p IN     \* `\<`: readChar() twice
       IF q > Len(e) THEN [text |-> ReplaceEsc(Bs(e, start, Len(e))), next |-> q]
       ELSE IF B(e, q) = "<" /\ B(e, q + 1) = "PCT" THEN [text |-> ReplaceEsc(Bs(e, start, q - 1)), next |-> q]
       ELSE ScanBuilt(e, start, q + 1)

\* repaired: prefix matching, output assembled byte by byte
RECURSIVE ScanFixed(_, _, _)
ScanFixed(e, p, acc) ==
  IF p > Len(e) THEN [text |-> acc, next |-> p]
  ELSE IF B(e, p) = "BSL" /\ B(e, p + 1) = "BSL" /\ TagOpen(e, p + 2) THEN [text |-> Append(acc, "BSL"), next |-> p + 2]
  ELSE IF B(e, p) = "BSL" /\ TagOpen(e, p + 1) THEN ScanFixed(e, p + 3, acc \o <<"<", "PCT">>)
  ELSE IF TagOpen(e, p) THEN [text |-> acc, next |-> p]
  ELSE ScanFixed(e, p + 1, Append(acc, B(e, p)))

Scan(e, p) == IF AsBuilt THEN ScanBuilt(e, p, p) ELSE ScanFixed(e, p, <<>>)

\* NextToken in text mode: at `<%` hand over to the tag (macro tags only), else readHTML
RECURSIVE Impl(_, _, _)
Impl(e, p, fuel) ==
  IF p > Len(e) THEN Out(<<>>)
  ELSE IF fuel = 0 THEN Unspecified
  ELSE IF TagOpen(e, p) THEN
         (IF MacroAt(e, p) = "" THEN Unspecified
          ELSE Cat(Value(MacroAt(e, p)), Impl(e, p + Len(Spell(MacroAt(e, p))), fuel - 1)))
  ELSE LET s == Scan(e, p) IN Cat(s.text, Impl(e, s.next, fuel - 1))
ImplOut(s) == LET e == Expand(s) IN Impl(e, 1, Len(e) + 2)

\* ---------------------------------------------------------------- properties
Agree == RefOut(in).k = "unspec" \/ ImplOut(in) = RefOut(in)
\* a tag-free, escape-free text renders to itself
Identity == (\A i \in 1..Len(in) : in[i] \in Bytes \ {"BSL", "<"}) => RefOut(in) = Out(in)

Emit == ~EmitCases \/ PrintT("CASE " \o ToJson([gen |-> "TextLex", src |-> Src(in), expect |-> RefOut(in),
                                                 agree |-> (RefOut(in).k = "unspec" \/ ImplOut(in) = RefOut(in))]))
=============================================================================
