CONSTANTS
  MaxOps = 5
  Pool = "full"
  MinSize = 3
SPECIFICATION Spec
INVARIANTS EmitCase ParenSound ResultShape
CHECK_DEADLOCK FALSE
