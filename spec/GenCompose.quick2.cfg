CONSTANTS
  MaxItems = 2
SPECIFICATION Spec
INVARIANTS InlineTheorem FrameTheorem EmitCase
CHECK_DEADLOCK FALSE
