CONSTANTS
  MaxLen = 1
  Order = "stringerFirst"
  EmitCases = FALSE
SPECIFICATION Spec
INVARIANTS Agree DataEscaped
CHECK_DEADLOCK FALSE
