CONSTANTS
  MaxItems = 3
SPECIFICATION Spec
INVARIANTS InlineTheorem FrameTheorem EmitCase
CHECK_DEADLOCK FALSE
