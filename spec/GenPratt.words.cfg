CONSTANTS
  Table = "doc"
  MaxOps = 2
  Pool = "small"
  MinSize = 0
  Family = "word"
  WordLen = 3
SPECIFICATION Spec
INVARIANTS PrattAgree Reprint EmitCase
CHECK_DEADLOCK FALSE
