---------------------------- MODULE ContextTrace ----------------------------
(***************************************************************************)
(* Trace validation (code -> spec) for plush.Context.  The trace is the    *)
(* NDJSON file written by the `verif` hooks of /repo (verif_on.go) while   *)
(* the real code runs: the repository's own tests, and the harness's       *)
(* renders of generated templates.  One universe per context tree,         *)
(* separated by "reset" lines (the harness partitions the recorded events  *)
(* by root and renumbers contexts densely -- no state is guessed).         *)
(*                                                                         *)
(*   new      a context was constructed (own map `d` as supplied by the    *)
(*            caller, before the helper loop), outer `o`                   *)
(*   set      Context.Set returned (also: the constructors' helper loop)   *)
(*   newdone  the constructor returned                                     *)
(*   value    the tracer called Value(k)/Has(k) on context c right after   *)
(*            a write: reply r / has                                       *)
(*                                                                         *)
(* Every event must be a step of Context.tla's core actions; every logged  *)
(* reply must equal the machine's Lookup (chain semantics); every write    *)
(* made by a constructor must be licensed by InjectGuard, and after        *)
(* construction every helper name must be bound somewhere on the chain.    *)
(***************************************************************************)
EXTENDS Context, Json

CONSTANT TraceFile
Trace == ndJsonDeserialize(TraceFile)


VARIABLES l,         \* next trace line
          building   \* id of the context whose constructor is running, or 0
vars == <<outer, data, wrapped, l, building>>

Ev == Trace[l]
IsEvent(e) == l <= Len(Trace) /\ Ev.op = e /\ l' = l + 1

PairsToMap(ps) == [k \in {ps[i][1] : i \in 1..Len(ps)} |-> (CHOOSE i \in 1..Len(ps) : ps[i][1] = k) ]
MapOf(ps) == LET idx == PairsToMap(ps) IN [k \in DOMAIN idx |-> ps[idx[k]][2]]

TraceInit == outer = <<>> /\ data = <<>> /\ wrapped = EmptyMap /\ l = 1 /\ building = 0

TNew == /\ IsEvent("new") /\ building = 0
        /\ Ev.id = N + 1 /\ Ev.o \in 0..N
        /\ NewCore(Ev.o, MapOf(Ev.d))
        /\ building' = Ev.id

\* a write by the constructor's helper loop: must be what the injection rule licenses
TInject == /\ IsEvent("set") /\ building # 0 /\ Ev.c = building
           /\ Ev.v = Builtin
           \* licensed by the injection rule, or invisible: the built-in is what the chain already answers
           /\ \/ InjectGuard(data[building], outer[building], Ev.k)
              \/ Lookup(building, Ev.k) = Builtin
           /\ SetCore(Ev.c, Ev.k, Ev.v)
           /\ UNCHANGED building

TNewDone == /\ IsEvent("newdone") /\ building = Ev.id
            /\ building' = 0 /\ UNCHANGED cvars

\* a context the tracer met without having seen its construction (built by a struct literal)
TAdopt == /\ IsEvent("adopt") /\ building = 0
          /\ Ev.id = N + 1 /\ Ev.o \in 0..N
          /\ NewCore(Ev.o, MapOf(Ev.d))
          /\ UNCHANGED building

TSet == /\ IsEvent("set") /\ building = 0 /\ Ev.c \in 1..N
        /\ SetCore(Ev.c, Ev.k, Ev.v)
        /\ UNCHANGED building

TValue == /\ IsEvent("value") /\ Ev.c \in 1..N
          /\ Lookup(Ev.c, Ev.k) = Ev.r                       \* logged reply as a guard
          /\ Has(Ev.c, Ev.k) = Ev.has
          /\ UNCHANGED <<cvars, building>>

TReset == /\ IsEvent("reset") /\ building = 0
          /\ outer' = <<>> /\ data' = <<>> /\ UNCHANGED <<building, wrapped>>

TraceNext == TNew \/ TInject \/ TNewDone \/ TAdopt \/ TSet \/ TValue \/ TReset
TraceSpec == TraceInit /\ [][TraceNext]_vars

\* all lines consumed: the recorded execution is a behaviour of the machine
TraceAccepted == \/ TLCGet("stats").diameter - 1 = Len(Trace)
                 \/ (PrintT(<<"REJECTED_AT", TLCGet("stats").diameter, Len(Trace)>>) /\ FALSE)
=============================================================================
