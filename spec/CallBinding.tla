----------------------------- MODULE CallBinding -----------------------------
(***************************************************************************)
(* C12: how a template call binds arguments to the parameters of a Go      *)
(* function.                                                               *)
(*   Expect(sig, call) -- DECLARATIVE, from the statement of C12: supplied *)
(*      arguments positional and unchanged (nil becomes the parameter      *)
(*      type's zero value); an omitted trailing options map and / or       *)
(*      helper context supplied automatically (the context carries the     *)
(*      call's block); variadic parameters receive the rest; too many      *)
(*      arguments or a not assignable argument is an error and the         *)
(*      function is not invoked; first result is the value; a non-nil      *)
(*      trailing error fails the render.                                   *)
(*   Bind(sig, call)   -- Layer B: the branch structure of                 *)
(*      evalCallExpression (compiler.go) transcribed: the arity test, the  *)
(*      positional loop, the `diff` switch that fills in missing trailing  *)
(*      parameters, the variadic branch.                                   *)
(* Theorem (invariant Agree): Bind = Expect on every cell the statement    *)
(* determines (cells with a missing non-map, non-context parameter are     *)
(* unspecified).  VariadicNilPtr = TRUE is the pinned commit's variadic    *)
(* nil handling (reflect.New without Elem).                                *)
(***************************************************************************)
EXTENDS Integers, Sequences, TLC, Json

CONSTANTS MaxFixed, MaxArgs, VariadicNilPtr, EmitCases

PTypes == {"string", "int", "bool", "iface"}
\* "arr" an array literal ([]interface{}), "strs" a []string variable: slices are ONE argument each, also
\* where their type happens to be the slice type of a variadic parameter
\* "nilptr": a context variable holding a typed nil pointer -- a value like any other (not the nil literal)
ArgKinds == {"str", "int", "bool", "nil", "hash", "arr", "strs", "nilptr"}
ArgType(a) == CASE a = "str" -> "string" [] a = "int" -> "int" [] a = "bool" -> "bool" [] a = "hash" -> "map" [] a = "nil" -> "nil"
                [] a = "arr" -> "anyslice" [] a = "strs" -> "strslice" [] a = "nilptr" -> "ptr"
\* (), (T), (T, nil error), (T, failing error), (failing error), (nil error); Snil / Serr: (struct, nil error) / (struct, failing
\* error) where the call is followed by a member path (h(...).Name)
Results == {"none", "T", "Tnil", "Terr", "err", "nilerr", "Snil", "Serr"}

\* parameter list of a signature: fixed ... [map] [helper context]   or   fixed ... variadic
Params(s) == s.fixed \o (IF s.map THEN <<"map">> ELSE <<>>) \o (IF s.hc # "none" THEN <<s.hc>> ELSE <<>>)
Assignable(at, pt) == pt = "iface" \/ at = pt
IsHC(pt) == pt \in {"hcs", "hci"}

\* what a parameter receives: [k |-> "arg", i, t] supplied argument i of dynamic type t | "zero" | "emptymap" | "ctx"
Arg(i, t) == [k |-> "arg", i |-> i, t |-> t]
Zero == [k |-> "zero", i |-> 0, t |-> ""]
EmptyMap == [k |-> "emptymap", i |-> 0, t |-> ""]
Ctx == [k |-> "ctx", i |-> 0, t |-> ""]
NilPtr == [k |-> "nilptr", i |-> 0, t |-> ""]

Invoke(recv, evaluated, blockSeen) == [k |-> "call", recv |-> recv, evaluated |-> evaluated, block |-> blockSeen]
Fail(evaluated) == [k |-> "err", recv |-> <<>>, evaluated |-> evaluated, block |-> FALSE]
Unspecified == [k |-> "unspec", recv |-> <<>>, evaluated |-> 0, block |-> FALSE]

\* first position whose argument is not assignable (0 if none) among args[1..n] against types ts
FirstBad(args, ts, n) ==
  IF \E i \in 1..n : args[i] # "nil" /\ ~Assignable(ArgType(args[i]), ts[i])
  THEN CHOOSE i \in 1..n : (args[i] # "nil" /\ ~Assignable(ArgType(args[i]), ts[i])) /\
                            \A j \in 1..(i-1) : args[j] = "nil" \/ Assignable(ArgType(args[j]), ts[j])
  ELSE 0
Recv(args, i) == IF args[i] = "nil" THEN Zero ELSE Arg(i, ArgType(args[i]))

\* ---------------------------------------------------------------- declarative
Expect(s, args, blk) ==
  LET n == Len(args) IN
  IF s.var = "none" THEN
     LET ps == Params(s) m == Len(ps) IN
     IF n > m THEN Fail(0)                                            \* too many: nothing is evaluated, not invoked
     ELSE LET bad == FirstBad(args, ps, n) IN
          IF bad > 0 THEN Fail(bad)                                   \* evaluated up to the offending argument
          ELSE IF \E j \in (n+1)..m : ps[j] # "map" /\ ~IsHC(ps[j]) THEN Unspecified   \* a missing ordinary parameter
          ELSE Invoke([j \in 1..m |-> IF j <= n THEN Recv(args, j) ELSE IF ps[j] = "map" THEN EmptyMap ELSE Ctx], n,
                      blk /\ \E j \in (n+1)..m : IsHC(ps[j]))
  ELSE
     LET f == Len(s.fixed) IN
     IF n < f THEN Fail(0)
     ELSE LET ts == [j \in 1..n |-> IF j <= f THEN s.fixed[j] ELSE s.var]
              bad == FirstBad(args, ts, n) IN
          IF bad > 0 THEN Fail(bad) ELSE Invoke([j \in 1..n |-> Recv(args, j)], n, FALSE)

\* ---------------------------------------------------------------- as the code does it
\* hc(arg): what the code appends for a missing parameter of type pt
Fill(pt) == IF IsHC(pt) THEN Ctx ELSE IF pt = "map" THEN EmptyMap ELSE Zero

Bind(s, args, blk) ==
  LET n == Len(args) IN
  IF s.var = "none" THEN
     LET ps == Params(s) m == Len(ps) IN
     IF n > m THEN Fail(0)
     ELSE LET bad == FirstBad(args, ps, n) IN
          IF bad > 0 THEN Fail(bad)
          ELSE LET diff == m - n
                   filled == CASE diff = 2 -> <<Fill(ps[m - 1]), Fill(ps[m])>>
                               [] diff = 1 -> <<Fill(ps[m])>>
                               [] OTHER -> <<>>
                   all == [j \in 1..n |-> Recv(args, j)] \o filled IN
               IF Len(all) < m THEN Fail(n)                           \* "too few arguments"
               ELSE Invoke(all, n, blk /\ \E j \in 1..Len(filled) : filled[j] = Ctx)
  ELSE
     LET f == Len(s.fixed) IN
     IF n < f THEN Fail(0)
     ELSE LET ts == [j \in 1..n |-> IF j <= f THEN s.fixed[j] ELSE s.var]
              \* a nil for a variadic element: reflect.New(T) is a pointer, never assignable (pinned commit)
              badNil == IF VariadicNilPtr /\ \E j \in (f+1)..n : args[j] = "nil"
                        THEN CHOOSE j \in (f+1)..n : args[j] = "nil" /\ \A i \in (f+1)..(j-1) : args[i] # "nil" ELSE 0
              bad == FirstBad(args, ts, n)
              first == IF bad = 0 THEN badNil ELSE IF badNil = 0 THEN bad ELSE IF bad < badNil THEN bad ELSE badNil IN
          IF first > 0 THEN Fail(first) ELSE Invoke([j \in 1..n |-> Recv(args, j)], n, FALSE)

\* ---------------------------------------------------------------- exploration
VARIABLES sig, args, blk, stage
vars == <<sig, args, blk, stage>>

Sigs == { [fixed |-> f, map |-> mp, hc |-> h, var |-> "none", res |-> r] :
            f \in UNION {[1..k -> PTypes] : k \in 0..MaxFixed}, mp \in BOOLEAN, h \in {"none", "hcs", "hci"}, r \in Results }
        \cup
        { [fixed |-> f, map |-> FALSE, hc |-> "none", var |-> v, res |-> r] :
            f \in UNION {[1..k -> PTypes] : k \in 0..MaxFixed}, v \in {"string", "iface"}, r \in {"T", "Terr"} }

Init == sig \in Sigs /\ args = <<>> /\ blk = FALSE /\ stage = "args"
AddArg == stage = "args" /\ Len(args) < MaxArgs /\ \E a \in ArgKinds : args' = Append(args, a) /\ UNCHANGED <<sig, blk, stage>>
Close == stage = "args" /\ \E b \in BOOLEAN : blk' = b /\ stage' = "done" /\ UNCHANGED <<sig, args>>
Spec == Init /\ [][AddArg \/ Close]_vars

Agree == stage = "done" => LET e == Expect(sig, args, blk) IN e.k = "unspec" \/ Bind(sig, args, blk) = e

Emit == ~(EmitCases /\ stage = "done") \/
        PrintT("CASE " \o ToJson([gen |-> "CallBinding", sig |-> sig, args |-> args, blk |-> blk, expect |-> Expect(sig, args, blk),
                                  bind |-> Bind(sig, args, blk).k]))
=============================================================================
