------------------------------ MODULE InsideLex ------------------------------
(***************************************************************************)
(* Layer B: the scanner inside code tags (lexer.nextInsideToken and its    *)
(* helpers skipWhitespace, readIdentifier, readNumber, readString,         *)
(* readBString, the # comment path, line counting in readChar),            *)
(* transcribed character by character.  State of the Go lexer: position    *)
(* (index p of the current character ch), curLine.  curLine counts the     *)
(* newlines that have been READ so far, i.e. those at positions <= p.      *)
(* A token is stamped with the line on which it STARTS (curLine after      *)
(* skipWhitespace), also when it spans lines or is followed by a newline.  *)
(*                                                                         *)
(* Lex(s) = the tokens [type, lit, line] the lexer yields for the tag body *)
(* s (the input is "<%" followed by s, so the first token is the opener),  *)
(* up to and including the first E_END or EOF.                             *)
(*                                                                         *)
(* Used two ways:                                                          *)
(*  - conformance: for every string s over the alphabet up to length K the *)
(*    real lexer must yield exactly Lex(s) -- types, literals and line     *)
(*    numbers (binds this machine to lexer.go);                            *)
(*  - C18 on the machine: for token words w1 .. wn, the token sequence     *)
(*    (types and literals) of w1 SEP w2 SEP .. wn is the same for every    *)
(*    choice of separators from {space, tab, newline, CR LF, # comment}    *)
(*    (invariant LayoutInsensitive).                                       *)
(***************************************************************************)
EXTENDS Integers, Sequences, FiniteSets, TLC, Json

CONSTANTS K, Mode, EmitCases     \* Mode = "chars": all strings over Alpha up to K | "words": token words with separators

Alpha == {"a", "x", "1", ".", "-", " ", "NL", "=", "!", "<", ">", "PCT", "AMP", "|", "~", "+", "(", ")", "LBR", "[", ",", ":", ";", "QUOT", "BQ", "BSL", "HASH", "@"}

IsLetter(c) == c \in {"a", "x", "b", "c", "l", "e", "t", "i", "f", "n", "_", "-"}
IsDigit(c)  == c \in {"1", "2", "9", "."}
IsSpace(c)  == c \in {" ", "TAB", "NL", "CR"}

Ch(s, p) == IF p >= 1 /\ p <= Len(s) THEN s[p] ELSE "EOF"
\* curLine when the current character is at position p: newlines at positions <= p have been read
LineAt(s, p) == 1 + Cardinality({i \in 1..Len(s) : i <= p /\ s[i] = "NL"})

Keyword(lit) == CASE lit = <<"l","e","t">> -> "LET" [] lit = <<"i","f">> -> "IF" [] lit = <<"i","n">> -> "IN" [] lit = <<"f","n">> -> "FUNCTION"
                  [] OTHER -> "IDENT"

\* position of the first character at or after p that does not satisfy the class
RECURSIVE SkipWhile(_, _, _)
SkipWhile(s, p, kind) ==
  IF (kind = "ident" /\ (IsLetter(Ch(s, p)) \/ IsDigit(Ch(s, p))))
     \/ (kind = "number" /\ IsDigit(Ch(s, p)))
     \/ (kind = "space" /\ IsSpace(Ch(s, p)))
  THEN SkipWhile(s, p + 1, kind) ELSE p

\* readString from the opening quote at p: position of the closing quote (or past the end)
RECURSIVE StrEnd(_, _)
RECURSIVE SkipEsc(_, _)
StrEnd(s, p) ==          \* p: current position inside the loop `for l.ch != 0 { readChar(); ... }`
  IF Ch(s, p) = "EOF" THEN p
  ELSE LET q == p + 1 IN                              \* l.readChar()
       LET r == SkipEsc(s, q) IN                      \* for ch == '\\' && peek == '"' { readChar(); readChar() }
       IF Ch(s, r) = "QUOT" THEN r ELSE StrEnd(s, r)
SkipEsc(s, q) == IF Ch(s, q) = "BSL" /\ Ch(s, q + 1) = "QUOT" THEN SkipEsc(s, q + 2) ELSE q
RECURSIVE BStrEnd(_, _)
BStrEnd(s, p) == IF Ch(s, p) = "EOF" THEN p ELSE IF Ch(s, p + 1) = "BQ" THEN p + 1 ELSE BStrEnd(s, p + 1)
\* strings.Replace(lit, `\"`, `"`)
RECURSIVE Unescape(_)
Unescape(t) == IF t = <<>> THEN <<>>
               ELSE IF Len(t) >= 2 /\ t[1] = "BSL" /\ t[2] = "QUOT" THEN <<"QUOT">> \o Unescape(SubSeq(t, 3, Len(t)))
               ELSE <<Head(t)>> \o Unescape(Tail(t))
\* the # comment: `for l.ch != 0 { readChar(); if ch == '\n' || ch == '\r' { break } }`
RECURSIVE CommentEnd(_, _)
CommentEnd(s, p) == IF Ch(s, p) = "EOF" THEN p ELSE IF Ch(s, p + 1) \in {"NL", "CR"} THEN p + 1 ELSE CommentEnd(s, p + 1)

Sub(s, a, b) == IF b >= a THEN SubSeq(s, a, IF b > Len(s) THEN Len(s) ELSE b) ELSE <<>>
T(type, lit, line, next) == [type |-> type, lit |-> lit, line |-> line, next |-> next]

\* one call of nextInsideToken with the current character at p; returns the token and the new position
RECURSIVE NextTok(_, _)
RECURSIVE NumTok(_, _)
RECURSIVE DotNumTok(_, _)
NextTok(s, p0) ==
  \* skipWhitespace: when the current character is the last one (or beyond), it is skipped unconditionally
  LET p == IF p0 >= Len(s) THEN p0 + 1 ELSE SkipWhile(s, p0, "space")
      c == Ch(s, p)
      c2 == Ch(s, p + 1)
      ln == LineAt(s, p)
      one(type) == T(type, <<c>>, ln, p + 1)                   \* single character token, then readChar
      two(type) == T(type, <<c, c2>>, ln, p + 2)
  IN
  CASE c = "EOF" -> T("EOF", <<>>, LineAt(s, p), p + 1)
    [] c = "=" -> IF c2 = "=" THEN two("==") ELSE one("=")
    [] c = "." -> IF IsDigit(c2) THEN DotNumTok(s, p) ELSE one("DOT")
    [] c = "+" -> one("+")
    [] c = "AMP" -> IF c2 = "AMP" THEN two("&&") ELSE one("ILLEGAL")
    [] c = "|" -> IF c2 = "|" THEN two("||") ELSE one("ILLEGAL")
    [] c = "-" -> one("-")
    [] c = "!" -> IF c2 = "=" THEN two("!=") ELSE one("!")
    [] c = "PCT" -> IF c2 = ">" THEN two("E_END") ELSE one("ILLEGAL")
    [] c = "<" -> IF c2 = "PCT" THEN
                     (IF Ch(s, p + 2) = "HASH" THEN T("C_START", <<"<", "PCT", "HASH">>, ln, p + 3)
                      ELSE IF Ch(s, p + 2) = "=" THEN T("E_START", <<"<", "PCT", "=">>, ln, p + 3)
                      ELSE T("S_START", <<"<", "PCT">>, ln, p + 2))
                  ELSE IF c2 = "=" THEN two("<=") ELSE one("<")
    [] c = "~" -> IF c2 = "=" THEN two("~=") ELSE one("~=")
    [] c = ">" -> IF c2 = "=" THEN two(">=") ELSE one(">")
    [] c \in {";", ":", ",", "LBR", "RBR", "(", ")", "[", "]", "/", "*"} -> one(c)
    [] c = "QUOT" -> LET e == StrEnd(s, p) IN T("STRING", Unescape(Sub(s, p + 1, e - 1)), ln, e + 1)
    [] c = "BQ" -> LET e == BStrEnd(s, p) IN T("B_STRING", Sub(s, p + 1, e - 1), ln, e + 1)
    [] c = "HASH" -> NextTok(s, CommentEnd(s, p))               \* the token after the comment, returned as it is
    [] OTHER -> IF IsLetter(c) THEN LET e == SkipWhile(s, p, "ident") IN T(Keyword(Sub(s, p, e - 1)), Sub(s, p, e - 1), ln, e)
                ELSE IF IsDigit(c) THEN NumTok(s, p)
                ELSE one("ILLEGAL")
\* a number that starts with a dot leaves the switch by `break`: the character after it is consumed as well
DotNumTok(s, p) == LET t == NumTok(s, p) IN IF t.type = "ILLEGAL" THEN t ELSE [t EXCEPT !.next = t.next + 1]
NumTok(s, p) == LET e == SkipWhile(s, p, "number")
                    lit == Sub(s, p, e - 1)
                    dots == Cardinality({i \in 1..Len(lit) : lit[i] = "."}) IN
                T(IF dots > 1 THEN "ILLEGAL" ELSE IF dots = 1 THEN "FLOAT" ELSE "INT", lit, LineAt(s, p), e)

\* all tokens up to the first E_END / EOF
RECURSIVE LexFrom(_, _, _)
LexFrom(s, p, fuel) ==
  IF fuel = 0 THEN <<>> ELSE
  LET t == NextTok(s, p) IN
  <<[type |-> t.type, lit |-> t.lit, line |-> t.line]>> \o (IF t.type \in {"EOF", "E_END"} THEN <<>> ELSE LexFrom(s, t.next, fuel - 1))
Open == <<"<", "PCT">>
Lex(s) == LexFrom(Open \o s, 1, Len(s) + 4)
TypesLits(ts) == [i \in 1..Len(ts) |-> <<ts[i].type, ts[i].lit>>]

\* ---------------------------------------------------------------- exploration
Words == { <<"x">>, <<"l","e","t">>, <<"i","f">>, <<"1">>, <<"1",".","2">>, <<"=">>, <<"=","=">>, <<"!">>, <<"!","=">>, <<"<">>, <<"<","=">>, <<"AMP","AMP">>, <<"|","|">>,
           <<"+">>, <<"-">>, <<"(">>, <<")">>, <<"LBR">>, <<"[">>, <<",">>, <<":">>, <<"QUOT","a"," ","QUOT">>, <<"BQ","x","BQ">>, <<"~","=">>, <<"x",".","a">> }
Seps == { <<" ">>, <<"TAB">>, <<"NL">>, <<"CR","NL">>, <<" "," ">>, <<" ","HASH"," ","c","NL">>, <<" ","HASH","c","NL","HASH"," ","x","NL">>, <<"HASH","CR","NL","TAB","HASH","NL">> }

VARIABLES s, words, seps     \* chars mode: s; words mode: the words chosen and the separators between / after them
vars == <<s, words, seps>>
Init == s = <<>> /\ words = <<>> /\ seps = <<>>
NextChars == Mode = "chars" /\ Len(s) < K /\ \E c \in Alpha : s' = Append(s, c) /\ UNCHANGED <<words, seps>>
NextWords == Mode = "words" /\ Len(words) < K /\ \E w \in Words, sp \in Seps : words' = Append(words, w) /\ seps' = Append(seps, sp) /\ UNCHANGED s
Spec == Init /\ [][NextChars \/ NextWords]_vars

RECURSIVE Joined(_, _, _)
Joined(ws, sps, i) == IF i > Len(ws) THEN <<>> ELSE ws[i] \o sps[i] \o Joined(ws, sps, i + 1)
Canonical == Joined(words, [i \in 1..Len(words) |-> <<" ">>], 1) \o <<"PCT", ">">>
Laid == Joined(words, seps, 1) \o <<"PCT", ">">>

\* C18 on the machine: separators never change the token sequence
LayoutInsensitive == Mode = "words" => TypesLits(Lex(Laid)) = TypesLits(Lex(Canonical))
\* the scan always ends and never reads before the start
Total == Mode = "chars" => (Len(Lex(s)) >= 1 /\ Lex(s)[Len(Lex(s))].type \in {"EOF", "E_END"})

Emit == IF ~EmitCases THEN TRUE
        ELSE IF Mode = "chars" THEN PrintT("CASE " \o ToJson([gen |-> "InsideLex", s |-> s, toks |-> Lex(s)]))
        ELSE words = <<>> \/ PrintT("CASE " \o ToJson([gen |-> "InsideLexW", laid |-> Laid, canon |-> Canonical]))
=============================================================================
