CONSTANTS
  K = 2
  Vocabulary = "full"
SPECIFICATION Spec
INVARIANT Emit
CHECK_DEADLOCK FALSE
