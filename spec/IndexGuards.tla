----------------------------- MODULE IndexGuards -----------------------------
(***************************************************************************)
(* Layer B for C04: the index / update / append / len / method-call paths  *)
(* of the evaluator (compiler.go evalAccessIndex, evalUpdateIndex,         *)
(* arrayOperator, evalCallExpression; helpers/meta.Len) transcribed as     *)
(* decision procedures over ABSTRACT KINDS.  Every reflect operation the   *)
(* code performs has a documented precondition; the transcription returns  *)
(* "panic" when the code reaches the operation without having established  *)
(* its precondition, "err" when one of the code's own checks rejects the   *)
(* operands, "ok" otherwise.                                               *)
(*   Guarded = FALSE: the checks of the pinned commit.                     *)
(*   Guarded = TRUE : the checks of the repaired code.                     *)
(* Theorem (invariant NoPanic, for Guarded = TRUE): the guards imply the   *)
(* preconditions for every combination of container, index and value.      *)
(***************************************************************************)
EXTENDS Integers, Sequences, TLC, Json

CONSTANTS Guarded, EmitCases

\* containers: what reflect sees
Containers ==
  { [n |-> "map_str_any", k |-> "map", key |-> "string", elem |-> "iface", nilc |-> FALSE, len |-> 2, addr |-> TRUE],
    [n |-> "map_str_str", k |-> "map", key |-> "string", elem |-> "string", nilc |-> FALSE, len |-> 1, addr |-> TRUE],
    [n |-> "map_int_str", k |-> "map", key |-> "int", elem |-> "string", nilc |-> FALSE, len |-> 1, addr |-> TRUE],
    [n |-> "map_any_any", k |-> "map", key |-> "iface", elem |-> "iface", nilc |-> FALSE, len |-> 2, addr |-> TRUE],
    [n |-> "nil_map", k |-> "map", key |-> "string", elem |-> "int", nilc |-> TRUE, len |-> 0, addr |-> TRUE],
    [n |-> "slice_any", k |-> "slice", key |-> "int", elem |-> "iface", nilc |-> FALSE, len |-> 3, addr |-> TRUE],
    [n |-> "slice_str", k |-> "slice", key |-> "int", elem |-> "string", nilc |-> FALSE, len |-> 2, addr |-> TRUE],
    [n |-> "slice_int", k |-> "slice", key |-> "int", elem |-> "int", nilc |-> FALSE, len |-> 2, addr |-> TRUE],
    [n |-> "empty_slice", k |-> "slice", key |-> "int", elem |-> "int", nilc |-> FALSE, len |-> 0, addr |-> TRUE],
    [n |-> "nil_slice", k |-> "slice", key |-> "int", elem |-> "string", nilc |-> TRUE, len |-> 0, addr |-> TRUE],
    [n |-> "array_int", k |-> "array", key |-> "int", elem |-> "int", nilc |-> FALSE, len |-> 2, addr |-> FALSE],   \* an array held by value
    [n |-> "int", k |-> "other", key |-> "", elem |-> "", nilc |-> FALSE, len |-> 0, addr |-> FALSE],
    [n |-> "str", k |-> "string", key |-> "", elem |-> "", nilc |-> FALSE, len |-> 1, addr |-> FALSE],
    [n |-> "struct", k |-> "other", key |-> "", elem |-> "", nilc |-> FALSE, len |-> 0, addr |-> FALSE],
    [n |-> "nilptr_struct", k |-> "nilptr", key |-> "", elem |-> "", nilc |-> TRUE, len |-> 0, addr |-> FALSE] }

\* indexes / values: dynamic type and whether it can be hashed
Values ==
  { [n |-> "nil", t |-> "nil", i |-> 0, hash |-> TRUE],
    [n |-> "int", t |-> "int", i |-> 1, hash |-> TRUE],
    [n |-> "int_neg", t |-> "int", i |-> -1, hash |-> TRUE],
    [n |-> "str", t |-> "string", i |-> 0, hash |-> TRUE],
    [n |-> "bool", t |-> "bool", i |-> 0, hash |-> TRUE],
    [n |-> "float64", t |-> "float64", i |-> 0, hash |-> TRUE],
    [n |-> "slice_any", t |-> "slice", i |-> 0, hash |-> FALSE],
    [n |-> "map_str_any", t |-> "map", i |-> 0, hash |-> FALSE] }
Big == [n |-> "big", t |-> "int", i |-> 99, hash |-> TRUE]

Assignable(v, t) == t = "iface" \/ v.t = t            \* reflect.Type.AssignableTo, nil handled separately

\* ---- evalAccessIndex(left, index)
Access(c, x) ==
  CASE c.k = "map" ->
         IF x.t = "nil" THEN (IF Guarded THEN "err" ELSE "panic")                       \* reflect.TypeOf(nil).Kind()
         ELSE IF c.key # "iface" /\ x.t # c.key THEN "err"                               \* the kind check of the code
         ELSE IF ~x.hash THEN (IF Guarded THEN "err" ELSE "panic")                      \* MapIndex hashes the key
         ELSE "ok"
    [] c.k \in {"slice", "array"} ->
         IF x.t # "int" THEN "err"
         ELSE IF c.len - 1 < x.i THEN "err"
         ELSE IF x.i < 0 THEN (IF Guarded THEN "err" ELSE "panic")                      \* reflect.Value.Index
         ELSE "ok"
    [] OTHER -> "err"

\* ---- evalUpdateIndex(left, index, value)
Update(c, x, v) ==
  CASE c.k = "map" ->
         IF ~Guarded THEN
              (IF c.nilc \/ x.t = "nil" \/ ~Assignable(x, c.key) \/ ~x.hash \/ (v.t # "nil" /\ ~Assignable(v, c.elem)) THEN "panic" ELSE "ok")
         ELSE IF c.nilc THEN "err"
         ELSE IF x.t # "nil" /\ (~Assignable(x, c.key) \/ ~x.hash) THEN "err"
         ELSE IF x.t = "nil" /\ c.key # "iface" THEN "ok"                                \* nil becomes the key type's zero value
         ELSE IF v.t # "nil" /\ ~Assignable(v, c.elem) THEN "err"
         ELSE "ok"
    [] c.k \in {"slice", "array"} ->
         IF x.t # "int" THEN "err"
         ELSE IF c.len - 1 < x.i THEN "err"
         ELSE IF x.i < 0 THEN (IF Guarded THEN "err" ELSE "panic")
         ELSE IF ~Guarded THEN
              (IF c.elem # "iface" /\ v.t = "nil" THEN "panic"                           \* reflect.ValueOf(nil).Type()
               ELSE IF c.elem # "iface" /\ v.t # c.elem THEN "err"
               ELSE IF ~c.addr \/ v.t = "nil" THEN "panic"                               \* Set on unaddressable / zero Value
               ELSE "ok")
         ELSE IF v.t # "nil" /\ ~Assignable(v, c.elem) THEN "err"
         ELSE IF ~c.addr THEN "err"
         ELSE "ok"
    [] OTHER -> "err"

\* ---- left + right where left is a slice or array (arrayOperator); nil operands never get here
Plus(c, v) ==
  IF c.k \notin {"slice", "array"} \/ v.t = "nil" THEN "na"
  ELSE IF c.k = "array" THEN (IF Guarded THEN "err" ELSE (IF c.elem # "iface" /\ v.t # c.elem THEN "err" ELSE "panic"))  \* reflect.Append wants a slice
  ELSE IF c.elem # "iface" /\ v.t # c.elem THEN "err" ELSE "ok"

\* ---- len(v)
HasLen(c) == c.k \in {"map", "slice", "array", "string"}
LenOf(c) == IF HasLen(c) THEN "ok" ELSE IF Guarded THEN "ok" ELSE "panic"                \* reflect.Value.Len

VARIABLES op, c, x, v
vars == <<op, c, x, v>>
Init == /\ op \in {"access", "update", "plus", "len"} /\ c \in Containers
        /\ x \in Values \cup {Big} /\ v \in Values
        /\ (op \in {"access", "len", "plus"} => v = CHOOSE w \in Values : w.n = "nil")
        /\ (op \in {"len"} => x = CHOOSE w \in Values : w.n = "nil")
Spec == Init /\ [][UNCHANGED vars]_vars

Outcome == CASE op = "access" -> Access(c, x) [] op = "update" -> Update(c, x, v) [] op = "plus" -> Plus(c, x) [] op = "len" -> LenOf(c)
NoPanic == Outcome # "panic"

Emit == ~EmitCases \/ Outcome = "na" \/
        PrintT("CASE " \o ToJson([gen |-> "IndexGuards", op |-> op, c |-> c.n, x |-> x.n, v |-> v.n, predicted |-> Outcome]))
=============================================================================
