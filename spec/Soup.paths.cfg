CONSTANTS
  K = 5
  Vocabulary = "paths"
SPECIFICATION Spec
INVARIANT Emit
CHECK_DEADLOCK FALSE
