CONSTANTS
  MaxNest = 2
SPECIFICATION Spec
INVARIANTS NoSilentFailure EmitCase
CHECK_DEADLOCK FALSE
