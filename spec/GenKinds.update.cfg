CONSTANTS
  Family = "update"
SPECIFICATION Spec
INVARIANT Emit
CHECK_DEADLOCK FALSE
