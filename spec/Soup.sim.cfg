CONSTANTS
  K = 30
  Vocabulary = "full"
SPECIFICATION Spec
INVARIANT Emit
CHECK_DEADLOCK FALSE
