CONSTANTS
  Table = "doc"
  MaxOps = 2
  Pool = "full"
  MinSize = 0
  Family = "tree"
  WordLen = 0
SPECIFICATION Spec
INVARIANTS PrattAgree Reprint EmitCase
CHECK_DEADLOCK FALSE
