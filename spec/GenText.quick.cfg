CONSTANTS
  MaxItems = 2
SPECIFICATION Spec
INVARIANTS SourceOrder EmitCase
CHECK_DEADLOCK FALSE
