CONSTANTS
  MaxNest = 1
SPECIFICATION Spec
INVARIANTS NoSilentFailure EmitCase
CHECK_DEADLOCK FALSE
