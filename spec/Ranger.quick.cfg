CONSTANTS
  W = 4
  Overflow = FALSE
  EmitCases = TRUE
SPECIFICATION Spec
INVARIANTS PrefixOK Exact Emit
PROPERTY Terminates
CHECK_DEADLOCK FALSE
