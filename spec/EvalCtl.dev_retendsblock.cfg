CONSTANTS
  MaxNodes = 4
  Family = "calls"
  FlattenOne = FALSE
  BreakDrops = FALSE
  RetEndsBlock = TRUE
SPECIFICATION Spec
INVARIANTS Agree Contained
CHECK_DEADLOCK FALSE
