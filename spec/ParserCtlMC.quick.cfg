CONSTANTS
  defaultInitValue = "none"
  K = 2
  Vocab <- VFull
  Guards = TRUE
  EmitCases = TRUE
SPECIFICATION Spec
INVARIANTS NoPanic CursorOK Emit
PROPERTY Termination
CHECK_DEADLOCK FALSE
