------------------------------ MODULE GenRoutes ------------------------------
(***************************************************************************)
(* Generator machine for C01: where a payload lives and how it travels.    *)
(* State = where the payload starts (literal, context string, HTML-typed   *)
(* value, HTMLer, raw(), struct field, map / slice element, helper result) *)
(* + a sequence of plumbing steps (let, concatenation, array / hash wrap   *)
(* and index, user-function identity / emitting function, Go identity      *)
(* helper) + the sink (top level, loop, if / else, function body, block    *)
(* helper with the caller's / its own context, contentFor + contentOf in   *)
(* block or data, partial data, nested partial, layout yield).             *)
(* The reference semantics tells whether the payload arrives as data (to   *)
(* be escaped) or as trusted HTML (verbatim, exactly once).                *)
(* TaintTheorem (TLC invariant): untrusted payloads never contribute a raw *)
(* < > ' " to the output; trusted payloads appear verbatim exactly once.   *)
(***************************************************************************)
EXTENDS Unparse, Json

CONSTANT MaxSteps

\* every special character also occurs as the only special character of a payload (a sink that looks for "some" special character before escaping)
Payloads == { <<"LT", "b", "GT">>, <<"AMP", "APOS", "QUOT", "PLAIN">>, <<"AMP", "l", "t", ";">>, <<"MB", "LT", "CJK">>, <<"o", "k">>,
              <<"x", "APOS", "y">>, <<"QUOT", "z">>, <<"a", "GT">>, <<"AMP">>,
              \* a tag terminator inside the payload (as a string literal it does not end the tag)
              <<"u", "PCT", "GT", "LT", "s", "GT">> }

Starts == {"lit", "bqlit", "ctxstr", "ctxhtml", "htmler", "rawlit", "rawctx", "field", "htmlfield", "mapel", "strsel", "anyel", "helper", "strs", "anys",
           "strsloop", "htmlsloop", "anysloop", "maploop", "htmlerstringer",
           \* a value of a DEFINED string type (type Role string): what it prints is not specified here -- but never its characters raw
           "definedstr",
           \* the payload is the first element of a Go slice whose second element is that slice's own one-element prefix (same
           \* storage, other length -- not a slice that contains itself): the payload is printed twice
           "prefixself"}
Trusted(s) == s \in {"ctxhtml", "htmler", "rawlit", "rawctx", "htmlfield", "htmlsloop", "htmlerstringer"}
\* starts where the payload is the loop variable of a for over a typed Go collection of the context:
\* the whole route (steps and sink) then sits in that loop's body
LoopOver(s) == CASE s = "strsloop" -> "xs" [] s = "htmlsloop" -> "hs" [] s = "anysloop" -> "ys" [] s = "maploop" -> "m" [] OTHER -> ""

StartExpr(s, P) ==
  CASE s = "lit"     -> Str(P)
    [] s = "bqlit"   -> BStr(P)
    [] s = "ctxstr"  -> Id("s")
    [] s = "ctxhtml" -> Id("h")
    [] s = "htmler"  -> Id("hr")
    [] s = "htmlerstringer" -> Id("hrs")              \* a value that is an HTMLer AND a fmt.Stringer (with other text)
    [] s = "definedstr" -> Id("ds")
    [] s = "prefixself" -> Id("pa")
    [] s = "rawlit"  -> Call("raw", <<Str(P)>>)
    [] s = "rawctx"  -> Call("raw", <<Id("s")>>)
    [] s = "field"   -> Dot(Id("u"), "Name")
    [] s = "htmlfield" -> Dot(Id("u"), "Html")
    [] s = "mapel"   -> Idx(Id("m"), Str(<<"k">>))
    [] s = "strsel"  -> Idx(Id("xs"), IntL(0))
    [] s = "anyel"   -> Idx(Id("ys"), IntL(0))
    [] s = "helper"  -> Call("id", <<Id("s")>>)
    [] s = "strs"    -> Id("xs")                       \* the whole []string goes to the sink
    [] s = "anys"    -> Id("ys")
    [] OTHER         -> Id("w")                        \* the loop variable (LoopOver)

DataFor(P) == [pa |-> [t |-> "arr", xs |-> <<S(P), A(<<S(P)>>)>>, go |-> "prefixself"], ds |-> [t |-> "opq", kind |-> "defined_str", s |-> P], s |-> S(P), h |-> H(P), h2 |-> H(<<"LT", "i", "GT">>), hr |-> HTMLer(P), hrs |-> [t |-> "html", s |-> P, go |-> "htmlerstringer"],
               hs2 |-> AT(<<H(<<"o", "l", "d">>)>>, "htmls"), hm |-> [t |-> "map", m |-> [k |-> H(<<"o", "l", "d">>)], go |-> "htmlmap"], u |-> Rec([Name |-> S(P), Html |-> H(P)]),
               m |-> M([k |-> S(P)]), xs |-> AT(<<S(P)>>, "strs"), ys |-> A(<<S(P)>>), hs |-> AT(<<H(P)>>, "htmls")]

\* sethtmls / sethtmlmap: the carrier is assigned into an element of a Go []template.HTML / map[string]template.HTML
\* and read back from there (string data must not become trusted on the way: an error or escaped output)
Steps == {"let", "catL", "catR", "catRawR", "catRawL", "catHtmlR", "arridx", "arrall", "hashidx", "fnid", "fnemit", "goid", "par", "sethtmls", "sethtmlmap",
          \* selfapp: an array holding the carrier, appended to itself (printed: every element twice);
          \* htmlparam: handed to a Go helper whose parameter type is template.HTML
          "selfapp", "htmlparam"}
\* a step turns carrier expression e into [pre: statements to put before, e: the new carrier]
ApplyStep(st, i, e) ==
  LET vn == "v" \o Digit(i)  fn == "f" \o Digit(i) IN
  CASE st = "let"     -> [pre |-> <<Let(vn, e)>>, e |-> Id(vn)]
    [] st = "catL"    -> [pre |-> <<>>, e |-> Par(Bin("+", Str(<<>>), e))]
    [] st = "catR"    -> [pre |-> <<>>, e |-> Par(Bin("+", e, Str(<<>>)))]
    [] st = "catRawR" -> [pre |-> <<>>, e |-> Par(Bin("+", e, Call("raw", <<Str(<<>>)>>)))]       \* data + trusted HTML
    [] st = "catRawL" -> [pre |-> <<>>, e |-> Par(Bin("+", Call("raw", <<Str(<<"r">>)>>), e))]
    [] st = "catHtmlR" -> [pre |-> <<>>, e |-> Par(Bin("+", e, Id("h2")))]
    [] st = "arridx"  -> [pre |-> <<Let(vn, Arr(<<IntL(0), e>>))>>, e |-> Idx(Id(vn), IntL(1))]
    [] st = "arrall"  -> [pre |-> <<>>, e |-> Arr(<<e>>)]
    [] st = "hashidx" -> [pre |-> <<Let(vn, Hash(<<"k">>, <<e>>))>>, e |-> Idx(Id(vn), Str(<<"k">>))]
    [] st = "fnid"    -> [pre |-> <<Let(fn, FnLit(<<"q">>, <<Ret(Id("q"))>>))>>, e |-> Call(fn, <<e>>)]
    [] st = "fnemit"  -> [pre |-> <<Let(fn, FnLit(<<"q">>, <<Text(<<"{">>), Emit(Id("q")), Text(<<"}">>)>>))>>, e |-> Call(fn, <<e>>)]
    [] st = "goid"    -> [pre |-> <<>>, e |-> Call("id", <<e>>)]
    [] st = "par"     -> [pre |-> <<>>, e |-> Par(e)]
    [] st = "selfapp" -> [pre |-> <<Let(vn, Arr(<<e, Str(<<"m">>), Str(<<"n">>)>>))>>, e |-> Par(Bin("+", Id(vn), Id(vn)))]
    [] st = "htmlparam" -> [pre |-> <<>>, e |-> Call("boldh", <<e>>)]
    [] st = "sethtmls" -> [pre |-> <<Code(IdxAssign(Id("hs2"), IntL(0), e))>>, e |-> Idx(Id("hs2"), IntL(0))]
    [] st = "sethtmlmap" -> [pre |-> <<Code(IdxAssign(Id("hm"), Str(<<"k">>), e))>>, e |-> Idx(Id("hm"), Str(<<"k">>))]

Sinks == {"top", "for", "if", "else", "fn", "blk", "blkown", "cfor", "cofdata", "cofdefault", "partial", "nested", "layout", "forfn",
          "blk0", "blkown0", "cfor0", "cofdata0", "cofdefault0", "fn0", "partial0",
          \* the block is left through a return of the carrier (alone, and after a condition)
          "blkret", "cforret", "cofdefaultret"}
Sink(k, e) ==
  CASE k = "top"     -> [prog |-> <<Emit(e)>>, parts |-> EmptyScope]
    [] k = "for"     -> [prog |-> <<Emit(For("", "w", Arr(<<e>>), <<Text(<<"(">>), Emit(Id("w")), Text(<<")">>)>>))>>, parts |-> EmptyScope]
    [] k = "if"      -> [prog |-> <<Emit(If(Bool(TRUE), <<Emit(e)>>))>>, parts |-> EmptyScope]
    [] k = "else"    -> [prog |-> <<Emit(IfElse(Bool(FALSE), <<Text(<<"n">>)>>, <<Text(<<"e">>), Emit(e)>>))>>, parts |-> EmptyScope]
    [] k = "fn"      -> [prog |-> <<Let("g", FnLit(<<>>, <<Text(<<"f">>), Emit(e)>>)), Emit(Call("g", <<>>))>>, parts |-> EmptyScope]
    [] k = "forfn"   -> [prog |-> <<Let("g", FnLit(<<"q">>, <<Ret(Id("q"))>>)), Emit(For("", "w", Arr(<<e>>), <<Emit(Call("g", <<Id("w")>>))>>))>>, parts |-> EmptyScope]
    [] k = "blk"     -> [prog |-> <<Emit(CallB("blk", <<>>, <<Text(<<"b">>), Emit(e)>>))>>, parts |-> EmptyScope]
    [] k = "blkown"  -> [prog |-> <<Emit(CallB("blkown", <<Hash(<<"d">>, <<e>>)>>, <<Text(<<"o">>), Emit(Id("d"))>>))>>, parts |-> EmptyScope]
    [] k = "cfor"    -> [prog |-> <<Code(CallB("contentFor", <<Str(<<"c">>)>>, <<Text(<<"c">>), Emit(e)>>)), Text(<<"|">>), Emit(Call("contentOf", <<Str(<<"c">>)>>))>>, parts |-> EmptyScope]
    [] k = "cofdata" -> [prog |-> <<Code(CallB("contentFor", <<Str(<<"c">>)>>, <<Text(<<"c">>), Emit(Id("d"))>>)), Emit(Call("contentOf", <<Str(<<"c">>), Hash(<<"d">>, <<e>>)>>))>>, parts |-> EmptyScope]
    [] k = "cofdefault" -> [prog |-> <<Emit(CallB("contentOf", <<Str(<<"n">>), Hash(<<"d">>, <<e>>)>>, <<Text(<<"d">>), Emit(Id("d"))>>))>>, parts |-> EmptyScope]
    \* the same sinks with the output tag as the block's only content (no literal text around it)
    [] k = "blk0"    -> [prog |-> <<Emit(CallB("blk", <<>>, <<Emit(e)>>))>>, parts |-> EmptyScope]
    [] k = "blkown0" -> [prog |-> <<Emit(CallB("blkown", <<Hash(<<"d">>, <<e>>)>>, <<Emit(Id("d"))>>))>>, parts |-> EmptyScope]
    [] k = "cfor0"   -> [prog |-> <<Code(CallB("contentFor", <<Str(<<"c">>)>>, <<Emit(e)>>)), Emit(Call("contentOf", <<Str(<<"c">>)>>))>>, parts |-> EmptyScope]
    [] k = "cofdata0" -> [prog |-> <<Code(CallB("contentFor", <<Str(<<"c">>)>>, <<Emit(Id("d"))>>)), Emit(Call("contentOf", <<Str(<<"c">>), Hash(<<"d">>, <<e>>)>>))>>, parts |-> EmptyScope]
    [] k = "cofdefault0" -> [prog |-> <<Emit(CallB("contentOf", <<Str(<<"n">>), Hash(<<"d">>, <<e>>)>>, <<Emit(Id("d"))>>))>>, parts |-> EmptyScope]
    [] k = "blkret"  -> [prog |-> <<Emit(CallB("blk", <<>>, <<Ret(e)>>))>>, parts |-> EmptyScope]
    [] k = "cforret" -> [prog |-> <<Code(CallB("contentFor", <<Str(<<"c">>)>>, <<Code(If(Bool(FALSE), <<Ret(Str(<<"x">>))>>)), Ret(e)>>)), Emit(Call("contentOf", <<Str(<<"c">>)>>))>>, parts |-> EmptyScope]
    [] k = "cofdefaultret" -> [prog |-> <<Emit(CallB("contentOf", <<Str(<<"n">>), Hash(<<"d">>, <<e>>)>>, <<Ret(Id("d"))>>))>>, parts |-> EmptyScope]
    [] k = "fn0"     -> [prog |-> <<Let("g", FnLit(<<>>, <<Emit(e)>>)), Emit(Call("g", <<>>))>>, parts |-> EmptyScope]
    [] k = "partial0" -> [prog |-> <<Emit(Call("partial", <<Str(<<"p">>), Hash(<<"d">>, <<e>>)>>))>>, parts |-> [p |-> <<Emit(Id("d"))>>]]
    [] k = "partial" -> [prog |-> <<Emit(Call("partial", <<Str(<<"p">>), Hash(<<"d">>, <<e>>)>>))>>, parts |-> [p |-> <<Text(<<"(">>), Emit(Id("d")), Text(<<")">>)>>]]
    [] k = "nested"  -> [prog |-> <<Emit(Call("partial", <<Str(<<"q">>), Hash(<<"d">>, <<e>>)>>))>>,
                         parts |-> [q |-> <<Text(<<"<">>), Emit(Call("partial", <<Str(<<"p">>), Hash(<<"d">>, <<Id("d")>>)>>)), Text(<<">">>)>>,
                                    p |-> <<Text(<<"(">>), Emit(Id("d")), Text(<<")">>)>>]]
    [] k = "layout"  -> [prog |-> <<Emit(Call("partial", <<Str(<<"p">>), Hash(<<"d", "layout">>, <<e, Str(<<"l">>)>>)>>))>>,
                         parts |-> [p |-> <<Text(<<"(">>), Emit(Id("d")), Text(<<")">>)>>, l |-> <<Text(<<"[">>), Emit(Id("yield")), Text(<<"]">>)>>]]

VARIABLES P, start, steps, sink, res
vars == <<P, start, steps, sink, res>>

RECURSIVE Route(_, _)
\* applies steps[1..i]; result [pre, e]
Route(i, acc) == IF i > Len(steps) THEN acc
                 ELSE LET r == ApplyStep(steps[i], i, acc.e) IN Route(i + 1, [pre |-> acc.pre \o r.pre, e |-> r.e])
Carrier == Route(1, [pre |-> <<>>, e |-> StartExpr(start, P)])
Built(k) == LET c == Carrier s == Sink(k, c.e) IN
            IF LoopOver(start) = "" THEN [prog |-> <<Text(<<"^">>)>> \o c.pre \o s.prog \o <<Text(<<"$">>)>>, parts |-> s.parts]
            ELSE [prog |-> <<Text(<<"^">>), Emit(For(IF start = "maploop" THEN "k" ELSE "", "w", Id(LoopOver(start)), c.pre \o s.prog)), Text(<<"$">>)>>, parts |-> s.parts]

Init == /\ P \in Payloads /\ start \in Starts /\ steps = <<>> /\ sink = "none" /\ res = [k |-> "none"]
AddStep == /\ sink = "none" /\ Len(steps) < MaxSteps
           /\ \E s \in Steps : steps' = Append(steps, s)
           /\ UNCHANGED <<P, start, sink, res>>
Finish == /\ sink = "none"
          /\ \E k \in Sinks : sink' = k /\ res' = LET b == Built(k) IN Run(b.prog, WithHelpers(DataFor(P)), b.parts, "")
          /\ UNCHANGED <<P, start, steps>>
Next == AddStep \/ Finish
Spec == Init /\ [][Next]_vars

\* ---- taint theorem
RECURSIVE KindChars(_, _)
KindChars(ps, kind) == IF ps = <<>> THEN <<>> ELSE (IF Head(ps).k = kind THEN Head(ps).s ELSE <<>>) \o KindChars(Tail(ps), kind)
Occurrences(p, s) == Cardinality({i \in 0..(Len(s) - Len(p)) : SubSeq(s, i + 1, i + Len(p)) = p})
HardSpecials == {"LT", "GT", "APOS", "QUOT"}
RECURSIVE Without(_, _)
Without(s, sub) == IF Len(s) < Len(sub) THEN s
                   ELSE IF SubSeq(s, 1, Len(sub)) = sub THEN Without(SubSeq(s, Len(sub) + 1, Len(s)), sub)
                   ELSE <<Head(s)>> \o Without(Tail(s), sub)
RECURSIVE Dup(_)
Dup(ss) == IF ss = <<>> THEN 1 ELSE (IF Head(ss) = "selfapp" THEN 2 ELSE 1) * Dup(Tail(ss))
NDup == Dup(steps)
TaintTheorem ==
  res.k = "out" =>
    LET raws == KindChars(res.pieces, "raw")
        escs == KindChars(res.pieces, "esc") IN
    IF Trusted(start)
      THEN Occurrences(P, raws) = NDup /\ Occurrences(P, escs) = 0     \* verbatim, exactly once (per copy made by selfapp), never escaped
      ELSE LET rs == Without(raws, <<"LT", "i", "GT">>) IN                \* (h2, the trusted HTML a step may append, is not the payload)
           \A i \in 1..Len(rs) : rs[i] \notin HardSpecials               \* data never reaches the output raw

Expect(r) == CASE r.k = "out" -> [k |-> "out", pieces |-> r.pieces, log |-> r.log]
               [] r.k = "err" -> [k |-> "err", w |-> r.w, log |-> r.log]
               [] OTHER       -> [k |-> "unspec"]
RECURSIVE JoinNames(_)
JoinNames(ns) == IF ns = <<>> THEN "" ELSE Head(ns) \o "," \o JoinNames(Tail(ns))

EmitCase == res.k = "none" \/
            LET b == Built(sink) IN
            PrintT("CASE " \o ToJson([gen |-> "GenRoutes", src |-> Unparse(b.prog), data |-> DataFor(P),
                                       parts |-> [nm \in DOMAIN b.parts |-> Unparse(b.parts[nm])],
                                       trusted |-> Trusted(start), payload |-> P,
                                       shape |-> start \o ">" \o JoinNames(steps) \o ">" \o sink, expect |-> Expect(res)]))
=============================================================================
