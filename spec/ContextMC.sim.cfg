CONSTANTS
  Keys <- MCKeys
  HelperKeys <- MCHelperKeys
  MaxCtx = 4
  MaxOps = 40
  InjectByHas = FALSE
  EmitCases = TRUE
SPECIFICATION Spec
INVARIANTS Agree UserWins Emit
PROPERTY Frame
CHECK_DEADLOCK FALSE
