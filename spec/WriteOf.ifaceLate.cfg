CONSTANTS
  MaxLen = 1
  Order = "ifaceLate"
  EmitCases = FALSE
SPECIFICATION Spec
INVARIANTS Agree DataEscaped
CHECK_DEADLOCK FALSE
