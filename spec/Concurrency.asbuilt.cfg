CONSTANTS
  NP = 2
  OpsPer = 1
  ReadsLocked = FALSE
  ParseAtomic = TRUE
  EmitCases = FALSE
SPECIFICATION Spec
INVARIANTS NoRace InsertOnce MutexOK
PROPERTY Finishes
