CONSTANTS
  MaxN = 5
SPECIFICATION Spec
INVARIANTS KindTheorem ChainTheorem EmitCase
CHECK_DEADLOCK FALSE
