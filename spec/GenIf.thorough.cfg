CONSTANTS
  MaxN = 5
SPECIFICATION Spec
INVARIANTS KindTheorem ChainTheorem FailChainTheorem EmptyChainTheorem NestedTheorem EmitCase
CHECK_DEADLOCK FALSE
