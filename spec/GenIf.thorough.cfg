CONSTANTS
  MaxN = 5
SPECIFICATION Spec
INVARIANTS KindTheorem ChainTheorem FailChainTheorem EmptyChainTheorem NestedTheorem UnkChainTheorem EmitCase
CHECK_DEADLOCK FALSE
