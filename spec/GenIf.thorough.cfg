CONSTANTS
  MaxN = 5
SPECIFICATION Spec
INVARIANTS KindTheorem ChainTheorem FailChainTheorem EmptyChainTheorem EmitCase
CHECK_DEADLOCK FALSE
