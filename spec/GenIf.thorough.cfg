CONSTANTS
  MaxN = 5
SPECIFICATION Spec
INVARIANTS KindTheorem ChainTheorem FailChainTheorem EmitCase
CHECK_DEADLOCK FALSE
