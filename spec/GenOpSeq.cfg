SPECIFICATION Spec
INVARIANTS Pointwise EmitCase
CHECK_DEADLOCK FALSE
