CONSTANTS
  NP = 2
  OpsPer = 1
  ReadsLocked = TRUE
  ParseAtomic = TRUE
  EmitCases = TRUE
SPECIFICATION Spec
INVARIANTS NoRace InsertOnce MutexOK Emit
PROPERTY Finishes
