CONSTANTS
  defaultInitValue = "none"
  K = 2
  Vocab <- VSmall
  Guards = FALSE
  EmitCases = FALSE
SPECIFICATION Spec
INVARIANTS NoPanic
CHECK_DEADLOCK FALSE
