CONSTANTS
  Keys = {}
  HelperKeys = {}
  InjectByHas = FALSE
  TraceFile = "trace.ndjson"
SPECIFICATION TraceSpec
POSTCONDITION TraceAccepted
CHECK_DEADLOCK FALSE
