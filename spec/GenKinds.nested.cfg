CONSTANTS
  Family = "nested"
SPECIFICATION Spec
INVARIANT Emit
CHECK_DEADLOCK FALSE
