CONSTANTS
  MaxSteps = 1
SPECIFICATION Spec
INVARIANTS TaintTheorem EmitCase
CHECK_DEADLOCK FALSE
