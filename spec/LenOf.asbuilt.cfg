CONSTANTS
  MaxN = 3
  ZeroShortcut = TRUE
  EmitCases = FALSE
SPECIFICATION Spec
INVARIANTS Agree
CHECK_DEADLOCK FALSE
