CONSTANTS
  MaxNodes = 5
  Family = "calls"
  FlattenOne = FALSE
  BreakDrops = FALSE
  RetEndsBlock = FALSE
SPECIFICATION Spec
INVARIANTS Agree Contained AgreeSem EmitCase
CHECK_DEADLOCK FALSE
