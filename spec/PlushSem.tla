------------------------------ MODULE PlushSem ------------------------------
(***************************************************************************)
(* Layer A -- the REFERENCE SEMANTICS of plush programs: what a template   *)
(* means according to the property statements C01..C20, the README and the *)
(* behaviour pinned by the repository's tests.  It is not a transcription  *)
(* of compiler.go: it is big-step, state-threading, and written from the   *)
(* documented meaning, so that a change of the code that breaks a property *)
(* yields a behaviour this specification does not allow.                   *)
(*                                                                         *)
(* Evaluation results are records                                          *)
(*    [k, v, out, st, unk, w]                                              *)
(*  k   "ok" | "err" | "unspec" | "brk" | "cnt" | "ret"                    *)
(*  v   value (of an expression; of the return statement for "ret")        *)
(*  out values produced so far by the enclosing block (for brk/cnt/ret)    *)
(*  st  machine state [sc: scope stack, log: probe events, parts, ct]      *)
(*  unk the error is an unknown identifier (the only tolerated fault)      *)
(*  w   the error wraps the failing helper's sentinel error                *)
(* "unspec" marks behaviour the properties do not determine; it absorbs    *)
(* everything, and generators emit such programs only for totality checks. *)
(***************************************************************************)
EXTENDS PlushValues

\* ---------------------------------------------------------------- machine state
EmptyScope == [x \in {} |-> Nil]
BindIn(f, k, v) == [x \in DOMAIN f \cup {k} |-> IF x = k THEN v ELSE f[x]]

InitState(data, parts, ct) == [sc |-> <<data>>, log |-> <<>>, parts |-> parts, ct |-> ct]

RECURSIVE LookupFrom(_, _, _)
LookupFrom(sc, i, k) == IF i = 0 THEN [found |-> FALSE, v |-> Nil, d |-> 0]
                        ELSE IF k \in DOMAIN sc[i] THEN [found |-> TRUE, v |-> sc[i][k], d |-> i]
                        ELSE LookupFrom(sc, i - 1, k)
Find(st, k)   == LookupFrom(st.sc, Len(st.sc), k)
Depth(st)     == Len(st.sc)
SetTop(st, k, v) == [st EXCEPT !.sc[Len(st.sc)] = BindIn(@, k, v)]
Push(st)      == [st EXCEPT !.sc = Append(@, EmptyScope)]
Pop(st)       == [st EXCEPT !.sc = SubSeq(@, 1, Len(@) - 1)]
Log(st, e)    == [st EXCEPT !.log = Append(@, e)]

\* ---------------------------------------------------------------- results
R(k, v, out, st, unk, w) == [k |-> k, v |-> v, out |-> out, st |-> st, unk |-> unk, w |-> w]
Ok(v, st)     == R("ok", v, <<>>, st, FALSE, FALSE)
Err(st)       == R("err", Nil, <<>>, st, FALSE, FALSE)
ErrUnk(st)    == R("err", Nil, <<>>, st, TRUE, FALSE)
ErrW(st)      == R("err", Nil, <<>>, st, FALSE, TRUE)
Unspec(st)    == R("unspec", Nil, <<>>, st, FALSE, FALSE)
Bad(r)        == r.k \in {"err", "unspec"}
\* an error that leaves a nested evaluation is no longer "an unknown identifier used as operand"
\* (a name bound to nil reads as "unknown identifier": falsy where that is tolerated, unspecified elsewhere)
ErrNilBound(st) == R("err", [t |-> "nilbound"], <<>>, st, TRUE, FALSE)
NoUnk(r)      == IF r.k = "err" /\ r.v.t = "nilbound" THEN Unspec(r.st) ELSE [r EXCEPT !.unk = FALSE]

NoBlock == <<[t |-> "noblock"]>>

\* ---------------------------------------------------------------- operators (C06)
TruncDiv(a, b) == LET q == Abs(a) \div Abs(b) IN IF (a < 0) = (b < 0) THEN q ELSE -q

\* (the largest int is written 9223372036854775807 and read as 2^31 - 1 by the model: comparisons with ordinary numbers come out
\* the same, arithmetic on it does not and is left unspecified)
IntBig(a) == a >= Lim \/ a <= -Lim
IntOp(op, a, b, st) ==
  CASE op \in {"+", "-", "*", "/"} /\ (IntBig(a) \/ IntBig(b)) -> Unspec(st)
    [] op = "+"  -> Ok(I(a + b), st)
    [] op = "-"  -> Ok(I(a - b), st)
    [] op = "*"  -> Ok(I(a * b), st)
    [] op = "/"  -> IF b = 0 THEN Err(st) ELSE Ok(I(TruncDiv(a, b)), st)
    [] op = "<"  -> Ok(B(a < b), st)
    [] op = ">"  -> Ok(B(a > b), st)
    [] op = "<=" -> Ok(B(a <= b), st)
    [] op = ">=" -> Ok(B(a >= b), st)
    [] op = "==" -> Ok(B(a = b), st)
    [] op = "!=" -> Ok(B(a # b), st)
    [] OTHER     -> Err(st)                          \* ~= on numbers

FloatOp(op, a, b, st) ==
  CASE op = "+"  -> IF AddSafe(a, b) THEN Ok(FAdd(a, b), st) ELSE Unspec(st)
    [] op = "-"  -> IF AddSafe(a, b) THEN Ok(FSub(a, b), st) ELSE Unspec(st)
    \* a zero product / quotient with a negative operand is IEEE's negative zero, which this fixed-point model
    \* cannot carry (it prints as -0 and keeps its sign through later products): left unspecified
    [] op = "*"  -> IF ~MulSafe(a, b) THEN Unspec(st)
                    ELSE IF FMul(a, b).num = 0 /\ (a.num < 0 \/ b.num < 0) THEN Unspec(st) ELSE Ok(FMul(a, b), st)
    [] op = "/"  -> IF b.num = 0 THEN Err(st) ELSE IF a.num = 0 /\ b.num < 0 THEN Unspec(st)
                    ELSE IF FDivExact(b) /\ DivSafe(a, b) THEN Ok(FDiv(a, b), st) ELSE Unspec(st)
    [] op \in {"<", ">", "<=", ">=", "==", "!="} /\ ~AlignSafe(a, b) -> Unspec(st)
    [] op = "<"  -> Ok(B(FLt(a, b)), st)
    [] op = ">"  -> Ok(B(FLt(b, a)), st)
    [] op = "<=" -> Ok(B(~FLt(b, a)), st)
    [] op = ">=" -> Ok(B(~FLt(a, b)), st)
    [] op = "==" -> Ok(B(FEq(a, b)), st)
    [] op = "!=" -> Ok(B(~FEq(a, b)), st)
    [] OTHER     -> Err(st)

\* printed form of x in `string + x`
Printable(v) == v.t \in {"str", "int", "bool"} \/ (v.t = "flt" /\ FloatPrintable(v))
PrintChars(v) == CASE v.t = "str"  -> v.s
                   [] v.t = "int"  -> IntChars(v.n)
                   [] v.t = "flt"  -> FloatChars(v)
                   [] v.t = "bool" -> IF v.b THEN <<"t","r","u","e">> ELSE <<"f","a","l","s","e">>

StrOp(op, l, r, st) ==
  IF op = "+" THEN (IF Printable(r) THEN Ok(S(l.s \o PrintChars(r)), st) ELSE Unspec(st))
  ELSE IF op \in {"-", "*", "/"} THEN Err(st)
  ELSE IF r.t # "str" THEN Unspec(st)                       \* string compared with a non-string
  ELSE IF op = "==" THEN Ok(B(l.s = r.s), st)
  ELSE IF op = "!=" THEN Ok(B(l.s # r.s), st)
  ELSE IF op = "~=" THEN
         (IF AllOrdered(r.s) THEN Ok(B(Contains(l.s, r.s)), st)
          ELSE IF DotPattern(r.s) /\ AllOrdered(l.s) THEN Ok(B(MatchesDots(l.s, r.s)), st)
          ELSE IF r.s # <<>> /\ Head(r.s) = "^" /\ AllOrdered(Tail(r.s)) THEN Ok(B(IsPrefixOf(Tail(r.s), l.s)), st)
          ELSE Unspec(st))
  ELSE IF ~(AllOrdered(l.s) /\ AllOrdered(r.s)) THEN Unspec(st)
  ELSE CASE op = "<"  -> Ok(B(StrLt(l.s, r.s)), st)
         [] op = ">"  -> Ok(B(StrLt(r.s, l.s)), st)
         [] op = "<=" -> Ok(B(~StrLt(r.s, l.s)), st)
         [] op = ">=" -> Ok(B(~StrLt(l.s, r.s)), st)
         [] OTHER     -> Err(st)

ArithOps == {"+", "-", "*", "/"}
CmpOps   == {"<", ">", "<=", ">="}

\* both operands evaluated, neither is nil
BinValues(op, l, r, st) ==
  CASE l.t = "int" /\ r.t = "int" -> IntOp(op, l.n, r.n, st)
    [] l.t = "flt" /\ r.t = "flt" -> FloatOp(op, l, r, st)
    [] l.t = "str" -> StrOp(op, l, r, st)
    [] l.t = "bool" /\ r.t = "bool" ->
         (CASE op = "==" -> Ok(B(l.b = r.b), st) [] op = "!=" -> Ok(B(l.b # r.b), st)
            [] op = "+" -> Unspec(st) [] OTHER -> Err(st))
    [] l.t = "bool" -> IF op \in {"==", "!=", "+"} THEN Unspec(st) ELSE Err(st)
    \* array + x: a NEW array, the elements of the left operand and x as ONE more element (fixes 63dffb0, c9f6c0a: the result is
    \* an ordinary array that shares nothing with its operand)
    \* (a typed Go slice accepts only values of its element type: not specified here)
    [] l.t = "arr" -> IF op # "+" THEN Err(st) ELSE IF "go" \in DOMAIN l THEN Unspec(st) ELSE Ok(A(Append(l.xs, r)), st)
    [] l.t \in {"chunks", "perm", "html", "opq", "arrx"} \/ r.t \in {"chunks", "perm", "opq", "arrx"} -> Unspec(st)
    [] OTHER -> IF op \in {"==", "!="} /\ l.t # r.t /\ l.t \in {"int", "flt"} /\ r.t \in {"str", "bool", "int", "flt"}
                THEN (IF {l.t, r.t} = {"int", "flt"} THEN Err(st) ELSE Unspec(st))
                ELSE Err(st)                         \* operand-type mismatch

\* ---------------------------------------------------------------- the sink: value -> output pieces
\* a piece is [k |-> "raw" | "esc", s |-> characters]  or  [k |-> "perm", alts |-> sequences of pieces]
RECURSIVE Pieces(_)
Pieces(v) ==
  CASE v.t = "str"    -> IF v.s = <<>> THEN <<>> ELSE <<[k |-> "esc", s |-> v.s]>>
    [] v.t = "html"   -> IF v.s = <<>> THEN <<>> ELSE <<[k |-> "raw", s |-> v.s]>>
    [] v.t = "int"    -> <<[k |-> "raw", s |-> IntChars(v.n)]>>
    [] v.t = "flt"    -> <<[k |-> "raw", s |-> FloatChars(v)]>>
    [] v.t = "bool"   -> <<[k |-> "raw", s |-> PrintChars(v)]>>
    [] v.t \in {"arr", "arrx"} -> Flat([i \in 1..Len(v.xs) |-> Pieces(v.xs[i])])
    [] v.t = "chunks" -> Flat([i \in 1..Len(v.cs) |-> Pieces(v.cs[i])])
    [] v.t = "perm"   -> <<[k |-> "perm", alts |-> [i \in 1..Len(v.alts) |-> Flat([j \in 1..Len(v.alts[i]) |-> Pieces(v.alts[i][j])])]]>>
    [] OTHER          -> <<>>                        \* nil, maps: nothing
\* values whose printed form the properties do not determine
RECURSIVE SinkSpecified(_)
SinkSpecified(v) ==
  CASE v.t \in {"fn", "gofn", "iter", "opq", "rec", "time"} -> FALSE
    [] v.t = "flt"    -> FloatPrintable(v)
    [] v.t \in {"arr", "arrx"} -> \A i \in 1..Len(v.xs) : SinkSpecified(v.xs[i])
    [] v.t = "chunks" -> \A i \in 1..Len(v.cs) : SinkSpecified(v.cs[i])
    [] v.t = "perm"   -> \A i \in 1..Len(v.alts) : \A j \in 1..Len(v.alts[i]) : SinkSpecified(v.alts[i][j])
    [] OTHER          -> TRUE
\* the text a block renders to (Block() / BlockWith()): every piece rendered; escaped text stays escaped
RECURSIVE EscChars(_)
EscChars(s) == IF s = <<>> THEN <<>> ELSE
   (CASE Head(s) = "LT" -> <<"AMP","l","t",";">> [] Head(s) = "GT" -> <<"AMP","g","t",";">>
      [] Head(s) = "AMP" -> <<"AMP","a","m","p",";">> [] Head(s) = "APOS" -> <<"AMP","HASH","3","9",";">>
      [] Head(s) = "QUOT" -> <<"AMP","HASH","3","4",";">> [] OTHER -> <<Head(s)>>) \o EscChars(Tail(s))
HasPerm(ps) == \E i \in 1..Len(ps) : ps[i].k = "perm"
RECURSIVE PieceChars(_)
PieceChars(ps) == IF ps = <<>> THEN <<>> ELSE
   (IF Head(ps).k = "raw" THEN Head(ps).s ELSE EscChars(Head(ps).s)) \o PieceChars(Tail(ps))

\* keys of hash literals are short lower-case words: their characters
KeyChars(k) == CASE k = "a" -> <<"a">> [] k = "b" -> <<"b">> [] k = "c" -> <<"c">> [] k = "k" -> <<"k">>
                 [] k = "x" -> <<"x">> [] k = "y" -> <<"y">> [] k = "n" -> <<"n">> [] k = "v" -> <<"v">>
                 [] k = "layout" -> <<"l","a","y","o","u","t">> [] k = "yield" -> <<"y","i","e","l","d">>
                 [] k = "capitalize" -> <<"c","a","p","i","t","a","l","i","z","e">>
                 [] OTHER -> <<"?", k>>

\* a block's result as the value of the expression that owns the block
BlockValue(r) == IF r.k = "ok" THEN Ok(Chunks(r.out), r.st) ELSE r

RECURSIVE JoinChars(_)
JoinChars(s) == IF s = <<>> THEN "" ELSE Head(s) \o JoinChars(Tail(s))      \* characters -> TLA+ string (names of partials, contentFor)
CForKey(s) == "contentFor:" \o JoinChars(s)

\* ---------------------------------------------------------------- evaluation
RECURSIVE EvalE(_, _), EvalSeq(_, _, _), ExecBlock(_, _, _), ExecStmt(_, _), ForIter(_, _, _, _, _),
          ForMap(_, _, _, _, _), CallUser(_, _, _), CallGo(_, _, _), RunBlockAsHTML(_, _, _, _), BindAll(_, _, _, _),
          ElseIfs(_, _, _), ExecTop(_, _, _), RunPartial(_, _, _), BindMap(_, _, _)

\* value of an operand that may be an unknown identifier (tolerated: counts as nil)
Tolerate(r) == IF r.k = "err" /\ r.unk THEN [r EXCEPT !.k = "ok", !.v = Nil, !.unk = FALSE] ELSE r

EvalE(e, st) ==
  CASE e.t = "int"  -> Ok(I(e.n), st)
    [] e.t = "maxint" -> Ok(I(2147483647), st)
    [] e.t = "flt"  -> Ok(F(e.num, e.exp), st)
    [] e.t = "str"  -> Ok(S(e.s), st)
    [] e.t = "bool" -> Ok(B(e.b), st)
    [] e.t = "par"  -> EvalE(e.e, st)
    [] e.t = "id"   ->
         LET f == Find(st, e.id) IN
         IF f.found /\ f.v.t # "nil" THEN Ok(f.v, st)
         ELSE IF e.id = "nil" THEN Ok(Nil, st)
         ELSE IF f.found THEN ErrNilBound(st)
         ELSE ErrUnk(st)
    [] e.t = "not"  ->
         LET r == Tolerate(EvalE(e.e, st)) IN
         IF r.k # "ok" THEN NoUnk(r) ELSE Ok(B(~Truthy(r.v)), r.st)
    [] e.t = "bin"  ->
         LET tol == e.op \in {"==", "!=", "&&", "||"}
             l0  == EvalE(e.l, st)
             l   == IF tol THEN Tolerate(l0) ELSE l0 IN
         IF l.k # "ok" THEN NoUnk(l) ELSE
         IF e.op = "&&" /\ ~Truthy(l.v) THEN Ok(B(FALSE), l.st) ELSE
         IF e.op = "||" /\ Truthy(l.v) THEN Ok(B(TRUE), l.st) ELSE
         LET r0 == EvalE(e.r, l.st)
             r  == IF tol THEN Tolerate(r0) ELSE r0 IN
         IF r.k # "ok" THEN NoUnk(r) ELSE
         IF e.op \in {"&&", "||"} THEN Ok(B(Truthy(r.v)), r.st) ELSE
         IF l.v.t = "nil" \/ r.v.t = "nil" THEN
            (IF e.op = "==" THEN Ok(B(l.v.t = r.v.t), r.st)
             ELSE IF e.op = "!=" THEN Ok(B(l.v.t # r.v.t), r.st)
             ELSE Err(r.st))
         ELSE BinValues(e.op, l.v, r.v, r.st)
    [] e.t = "arr"  ->
         LET r == EvalSeq(e.xs, 1, [k |-> "ok", vs |-> <<>>, r |-> Ok(Nil, st)]) IN
         IF r.k # "ok" THEN NoUnk(r.r) ELSE Ok(A(r.vs), r.r.st)
    [] e.t = "hash" ->
         LET r == EvalSeq(e.vs, 1, [k |-> "ok", vs |-> <<>>, r |-> Ok(Nil, st)]) IN
         IF r.k # "ok" THEN NoUnk(r.r) ELSE
         \* source order; a later duplicate key wins
         Ok(M([key \in {e.ks[i] : i \in 1..Len(e.ks)} |->
                 r.vs[CHOOSE i \in 1..Len(e.ks) : e.ks[i] = key /\ \A j \in (i+1)..Len(e.ks) : e.ks[j] # key]]), r.r.st)
    [] e.t = "idx"  ->
         LET i == EvalE(e.i, st) IN IF i.k # "ok" THEN NoUnk(i) ELSE
         LET l == EvalE(e.l, i.st) IN IF l.k # "ok" THEN NoUnk(l) ELSE
         (CASE l.v.t = "arr" ->
                 IF i.v.t # "int" THEN Err(l.st)
                 ELSE IF i.v.n < 0 \/ i.v.n >= Len(l.v.xs) THEN Err(l.st)
                 ELSE Ok(l.v.xs[i.v.n + 1], l.st)
            [] l.v.t = "map" ->
                 IF i.v.t # "str" THEN Err(l.st)
                 ELSE IF ~AllOrdered(i.v.s) THEN Unspec(l.st)
                 ELSE IF \E k \in DOMAIN l.v.m : KeyChars(k) = i.v.s
                        THEN Ok(l.v.m[CHOOSE k \in DOMAIN l.v.m : KeyChars(k) = i.v.s], l.st)
                        ELSE Ok(Nil, l.st)
            \* a Go map[int]T holding the key 1 (GenPaths): an int index is a key, anything else is not
            [] l.v.t = "imap" -> IF i.v.t # "int" THEN Err(l.st) ELSE IF i.v.n = 1 THEN Ok(l.v.m["one"], l.st) ELSE Ok(Nil, l.st)
            [] OTHER -> Err(l.st))
    [] e.t = "dot"  ->                                  \* field selection on a struct value
         LET l == EvalE(e.l, st) IN IF l.k # "ok" THEN NoUnk(l) ELSE
         IF l.v.t # "rec" THEN (IF l.v.t = "nil" THEN Ok(Nil, l.st) ELSE Err(l.st))
         ELSE IF e.n \in DOMAIN l.v.f THEN Ok(l.v.f[e.n], l.st) ELSE Err(l.st)
    [] e.t = "mcall" ->                                \* method call on a struct value (value or pointer receiver)
         LET l == EvalE(e.l, st) IN IF l.k # "ok" THEN NoUnk(l) ELSE
         IF l.v.t = "rec" /\ e.n \in DOMAIN l.v.m
         THEN (IF l.v.m[e.n].t = "failv"      \* a (value, error) method that fails: recorded like the failing helper
               THEN ErrW(Log(l.st, [f |-> "fail", id |-> 1, v |-> Nil])) ELSE Ok(l.v.m[e.n], l.st))
         ELSE Err(l.st)
    [] e.t = "fn"   -> Ok(Fn(e.ps, e.body), st)
    [] e.t = "assign" ->
         LET r == EvalE(e.e, st) IN IF r.k # "ok" THEN NoUnk(r) ELSE
         LET f == Find(r.st, e.n) IN
         IF ~f.found \/ f.v.t = "nil" THEN ErrUnk(r.st)
         ELSE IF f.d # Depth(r.st) THEN Unspec(r.st)   \* assigning to an outer scope's variable: not specified
         ELSE Ok(Nil, SetTop(r.st, e.n, r.v))
    \* assignment to an element of a collection (x[i] = e): only that it is total and that the assigned value
    \* is evaluated is specified here
    [] e.t = "idxassign" ->
         LET r == EvalE(e.e, st) IN IF r.k # "ok" THEN NoUnk(r) ELSE Unspec(r.st)
    [] e.t = "brk"  -> R("brk", Nil, <<>>, st, FALSE, FALSE)
    [] e.t = "cnt"  -> R("cnt", Nil, <<>>, st, FALSE, FALSE)
    [] e.t = "if"   ->
         LET c == Tolerate(EvalE(e.c, st)) IN
         IF c.k # "ok" THEN NoUnk(c) ELSE
         IF Truthy(c.v) THEN BlockValue(ExecBlock(e.th, 1, R("ok", Nil, <<>>, c.st, FALSE, FALSE)))
         ELSE ElseIfs(e, 1, c.st)
    [] e.t = "for"  ->
         LET it == EvalE(e.it, Push(st)) IN
         IF it.k # "ok" THEN [NoUnk(it) EXCEPT !.st = Pop(it.st)] ELSE
         LET r == CASE it.v.t = "arr"  -> ForIter(e, it.v.xs, 1, <<>>, it.st)
                    [] it.v.t = "iter" -> ForIter(e, it.v.xs, 1, <<>>, it.st)
                    [] it.v.t = "map"  -> ForMap(e, it.v.m, DOMAIN it.v.m, <<>>, it.st)
                    [] it.v.t = "nil"  -> R("ok", Nil, <<>>, it.st, FALSE, FALSE)
                    [] it.v.t = "opq" /\ it.v.kind \in EmptyIterKinds -> ForIter(e, <<>>, 1, <<>>, it.st)
                    [] it.v.t = "opq" /\ it.v.kind = "slice_str" -> ForIter(e, <<S(<<"a">>)>>, 1, <<>>, it.st)
                    [] OTHER           -> Err(it.st) IN                           \* not iterable
         IF r.k # "ok" THEN [r EXCEPT !.st = Pop(r.st)]
         ELSE IF it.v.t = "nil" THEN Ok(Nil, Pop(r.st))
         ELSE Ok(r.v, Pop(r.st))
    [] e.t = "call" ->
         LET f == Find(st, e.f) IN
         IF ~f.found \/ f.v.t = "nil" THEN Err(st)      \* calling an unknown function is an error everywhere
         ELSE IF f.v.t = "fn" THEN CallUser(f.v, e, st)
         ELSE IF f.v.t = "gofn" THEN CallGo(f.v.name, e, st)
         ELSE Err(st)

ElseIfs(e, i, st) ==
  IF i > Len(e.eifs) THEN
     (IF e.hasel THEN BlockValue(ExecBlock(e.el, 1, R("ok", Nil, <<>>, st, FALSE, FALSE))) ELSE Ok(Nil, st))
  ELSE LET c == Tolerate(EvalE(e.eifs[i].c, st)) IN
       IF c.k # "ok" THEN NoUnk(c) ELSE
       IF Truthy(c.v) THEN BlockValue(ExecBlock(e.eifs[i].b, 1, R("ok", Nil, <<>>, c.st, FALSE, FALSE)))
       ELSE ElseIfs(e, i + 1, c.st)

\* expressions left to right; acc = [k, vs, r]
EvalSeq(xs, i, acc) ==
  IF acc.k # "ok" \/ i > Len(xs) THEN acc ELSE
  LET r == EvalE(xs[i], acc.r.st) IN
  IF r.k # "ok" THEN [k |-> r.k, vs |-> acc.vs, r |-> r]
  ELSE EvalSeq(xs, i + 1, [k |-> "ok", vs |-> Append(acc.vs, r.v), r |-> r])

BindAll(ps, vs, i, st) == IF i > Len(ps) THEN st ELSE BindAll(ps, vs, i + 1, SetTop(st, ps[i], vs[i]))

\* one loop scope for all iterations; v of the result is the loop's value (Chunks)
ForIter(e, xs, i, out, st) ==
  IF i > Len(xs) THEN R("ok", Chunks(out), <<>>, st, FALSE, FALSE) ELSE
  IF xs[i].t = "endless" THEN Unspec(st) ELSE
  LET st1 == SetTop(SetTop(st, IF e.kn = "" THEN "_" ELSE e.kn, I(i - 1)), e.vn, xs[i])
      r   == ExecBlock(e.body, 1, R("ok", Nil, <<>>, st1, FALSE, FALSE)) IN
  CASE Bad(r)     -> NoUnk(r)
    [] r.k = "brk" -> R("ok", Chunks(out \o r.out), <<>>, r.st, FALSE, FALSE)   \* keeps what the iteration produced
    [] r.k = "ret" -> ForIter(e, xs, i + 1, out \o r.out \o <<r.v>>, r.st)
    [] OTHER       -> ForIter(e, xs, i + 1, out \o r.out, r.st)                  \* ok, cnt

\* map iteration: any visiting order (the one licensed nondeterminism); bodies that depend on the
\* order (break, state carried from one iteration to the next) are unspecified
ForMap(e, m, keys, alts, st) ==
  IF keys = {} THEN R("ok", Perm(alts), <<>>, st, FALSE, FALSE) ELSE
  LET key == CHOOSE k \in keys : \A k2 \in keys : k = k2 \/ StrLt(KeyChars(k), KeyChars(k2))
      st1 == SetTop(SetTop(st, IF e.kn = "" THEN "_" ELSE e.kn, S(KeyChars(key))), e.vn, m[key])
      r   == ExecBlock(e.body, 1, R("ok", Nil, <<>>, st1, FALSE, FALSE)) IN
  CASE Bad(r)      -> NoUnk(r)
    \* break: which entries were visited before it depends on the order -- except in a map with one entry
    [] r.k = "brk" -> IF alts = <<>> /\ keys = {key} THEN R("ok", Perm(<<r.out>>), <<>>, r.st, FALSE, FALSE) ELSE Unspec(r.st)
    [] r.st.sc[Len(r.st.sc)] # st1.sc[Len(st1.sc)] \/ r.st.log # st.log -> Unspec(r.st)
    [] r.k = "ret" -> ForMap(e, m, keys \ {key}, Append(alts, r.out \o <<r.v>>), r.st)
    [] OTHER       -> ForMap(e, m, keys \ {key}, Append(alts, r.out), r.st)

\* statements of a block in order; acc carries k/out/st (and v for ret)
ExecBlock(ss, i, acc) ==
  IF acc.k # "ok" \/ i > Len(ss) THEN acc ELSE
  LET r == ExecStmt(ss[i], acc.st) IN
  IF Bad(r) THEN [r EXCEPT !.out = <<>>]
  ELSE IF r.k = "ok" THEN ExecBlock(ss, i + 1, [acc EXCEPT !.out = acc.out \o r.out, !.st = r.st])
  ELSE [r EXCEPT !.out = acc.out \o r.out]             \* brk / cnt / ret leave the block with what it produced

\* an output tag that emits a time.Time prints it with the TIME_FORMAT visible from the tag's own scope
\* (the instant is 2024-03-05 10:30:00 UTC; two formats are modelled, any other is unspecified)
TimeOut(r) ==
  LET f == Find(r.st, "TIME_FORMAT") IN
  IF ~f.found THEN [r EXCEPT !.out = <<H(<<"M","a","r","c","h"," ","0","5",","," ","2","0","2","4"," ","1","0",":","3","0",":","0","0"," ","+","0","0","0","0">>)>>]
  ELSE IF f.v = S(<<"2", "0", "0", "6", "-", "0", "1", "-", "0", "2">>) THEN [r EXCEPT !.out = <<H(<<"2","0","2","4","-","0","3","-","0","5">>)>>]
  ELSE Unspec(r.st)

\* a statement inside a block: result.out = what it adds to the block's value
ExecStmt(s, st) ==
  CASE s.t = "text" -> R("ok", Nil, <<H(s.s)>>, st, FALSE, FALSE)
    \* literal text written with an escape: the source spells s.src, the output is s.s
    [] s.t = "etext" -> R("ok", Nil, <<H(s.s)>>, st, FALSE, FALSE)
    [] s.t = "cmt"  -> R("ok", Nil, <<>>, st, FALSE, FALSE)
    [] s.t = "emit" -> LET r == EvalE(s.e, st) IN
                       IF r.k = "ok" THEN (IF r.v.t = "time" THEN TimeOut(r)
                                           ELSE IF SinkSpecified(r.v) THEN [r EXCEPT !.out = <<r.v>>] ELSE Unspec(r.st))
                       ELSE NoUnk(r)
    [] s.t = "code" -> LET r == EvalE(s.e, st) IN
                       IF r.k = "ok" THEN [r EXCEPT !.out = <<>>] ELSE NoUnk(r)      \* silent: contributes nothing
    [] s.t = "let"  -> LET r == EvalE(s.e, st) IN
                       IF r.k = "ok" THEN R("ok", Nil, <<>>, SetTop(r.st, s.n, r.v), FALSE, FALSE)
                       ELSE IF Bad(r) THEN NoUnk(r) ELSE Unspec(r.st)
    [] s.t = "letnl" -> LET r == EvalE(s.e, st) IN            \* a let spread over several lines: same meaning
                       IF r.k = "ok" THEN R("ok", Nil, <<>>, SetTop(r.st, s.n, r.v), FALSE, FALSE)
                       ELSE IF Bad(r) THEN NoUnk(r) ELSE Unspec(r.st)
    [] s.t = "rawtag" -> Err(st)                                \* a tag with a syntax error (given as tokens)
    [] s.t = "oktag" -> R("ok", Nil, <<>>, st, FALSE, FALSE)    \* a well-formed silent tag given as tokens: no output, no visible effect
    [] s.t = "ret"  -> LET r == EvalE(s.e, st) IN
                       IF r.k = "ok" THEN R("ret", r.v, <<>>, r.st, FALSE, FALSE)
                       ELSE IF Bad(r) THEN NoUnk(r) ELSE Unspec(r.st)

\* user-defined function (C16): arguments in the caller's scope, all before binding; fresh scope;
\* the value of the first return reached
CallUser(f, e, st) ==
  IF Len(e.args) < Len(f.ps) THEN Err(st)
  ELSE IF Len(e.args) > Len(f.ps) \/ e.blk # NoBlock THEN Unspec(st)
  ELSE LET a == EvalSeq(e.args, 1, [k |-> "ok", vs |-> <<>>, r |-> Ok(Nil, st)]) IN
       IF a.k # "ok" THEN NoUnk(a.r) ELSE
       LET st1 == BindAll(f.ps, a.vs, 1, Push(a.r.st))
           r   == ExecBlock(f.body, 1, R("ok", Nil, <<>>, st1, FALSE, FALSE)) IN
       CASE Bad(r)      -> [NoUnk(r) EXCEPT !.st = Pop(r.st)]
         [] r.k = "ret" -> IF r.out = <<>> THEN Ok(r.v, Pop(r.st)) ELSE Ok(Chunks(r.out \o <<r.v>>), Pop(r.st))
         [] r.k = "ok"  -> Ok(Chunks(r.out), Pop(r.st))
         [] OTHER       -> Unspec(Pop(r.st))

\* run a block (of a block helper) in scope stack st and give its rendered text as trusted HTML
RunBlockAsHTML(blk, st, asString, restore) ==
  LET r == ExecBlock(blk, 1, R("ok", Nil, <<>>, st, FALSE, FALSE)) IN
  IF Bad(r) THEN NoUnk(r)
  ELSE IF r.k # "ok" THEN Unspec(r.st)
  ELSE LET ps == Pieces(Chunks(r.out)) IN
       IF HasPerm(ps) THEN Unspec(r.st)
       ELSE Ok(IF asString THEN S(PieceChars(ps)) ELSE H(PieceChars(ps)), r.st)

BindMap(m, keys, st) ==
  IF keys = {} THEN st ELSE
  LET k == CHOOSE x \in keys : TRUE IN BindMap(m, keys \ {k}, SetTop(st, k, m[k]))

\* Go helpers with a specified meaning.  The harness registers real Go functions with exactly
\* these meanings (p, fail, id, blk, blks, blkown, blktry are test helpers; the others are plush built-ins).
CallGo(name, e, st) ==
  LET a == EvalSeq(e.args, 1, [k |-> "ok", vs |-> <<>>, r |-> Ok(Nil, st)]) IN
  IF a.k # "ok" THEN NoUnk(a.r) ELSE
  LET s1 == a.r.st
      n  == Len(a.vs) IN
  CASE name = "p" ->       \* p(id, v): records the call, returns v unchanged
         IF n # 2 \/ a.vs[1].t # "int" THEN Unspec(s1) ELSE Ok(a.vs[2], Log(s1, [f |-> "p", id |-> a.vs[1].n, v |-> a.vs[2]]))
    \* failc / faili: the same failure reported through a last result declared as a CONCRETE error type / as interface{}
    [] name \in {"failc", "faili"} ->
         IF n # 1 \/ a.vs[1].t # "int" THEN Unspec(s1) ELSE ErrW(Log(s1, [f |-> "fail", id |-> a.vs[1].n, v |-> Nil]))
    [] name = "fail" ->    \* fail(id): records the call, returns the sentinel error
         IF n # 1 \/ a.vs[1].t # "int" THEN Unspec(s1) ELSE ErrW(Log(s1, [f |-> "fail", id |-> a.vs[1].n, v |-> Nil]))
    [] name = "failrec" -> \* failrec(id): a (struct, error) helper: records the call, returns a struct AND the sentinel error
         IF n # 1 \/ a.vs[1].t # "int" THEN Unspec(s1) ELSE ErrW(Log(s1, [f |-> "fail", id |-> a.vs[1].n, v |-> Nil]))
    [] name = "id" ->  IF n # 1 THEN Unspec(s1) ELSE Ok(a.vs[1], s1)
    [] name = "boldh" ->   \* boldh(h template.HTML): a Go helper whose parameter is trusted HTML; string data is not assignable to it
         IF n # 1 THEN Unspec(s1)
         ELSE IF a.vs[1].t = "html" /\ "go" \in DOMAIN a.vs[1] THEN Err(s1)          \* an HTMLer is not a template.HTML
         ELSE IF a.vs[1].t = "html" THEN Ok(H(<<"<", "b", ">">> \o a.vs[1].s \o <<"<", "/", "b", ">">>), s1)
         ELSE IF a.vs[1].t = "str" THEN Err(s1) ELSE Unspec(s1)
    [] name = "vcount" -> Ok(I(n), s1)      \* vcount(xs...): a variadic Go helper, the number of arguments it received
    [] name = "getx" ->    \* getx(): the Go value the context data binds to x, handed over as a helper's result
         IF n # 0 \/ "x" \notin DOMAIN s1.sc[1] THEN Unspec(s1) ELSE Ok(s1.sc[1]["x"], s1)
    [] name = "raw" ->     \* raw(s): the same text, trusted
         IF n # 1 THEN Unspec(s1)
         ELSE IF a.vs[1].t = "str" THEN Ok(H(a.vs[1].s), s1)
         ELSE IF a.vs[1].t = "nil" THEN Ok(H(<<>>), s1)
         ELSE Err(s1)
    [] name = "len" ->
         IF n # 1 THEN Unspec(s1)
         ELSE CASE a.vs[1].t = "str" -> IF \A i \in 1..Len(a.vs[1].s) : OneByte(a.vs[1].s[i]) THEN Ok(I(Len(a.vs[1].s)), s1) ELSE Unspec(s1)
                [] a.vs[1].t = "arr" -> Ok(I(Len(a.vs[1].xs)), s1)
                [] a.vs[1].t = "map" -> Ok(I(Cardinality(DOMAIN a.vs[1].m)), s1)
                [] a.vs[1].t = "nil" -> Ok(I(0), s1)
                [] OTHER -> Unspec(s1)
    [] name \in {"range", "between", "until"} ->
         IF \E i \in 1..n : a.vs[i].t # "int" THEN (IF \E i \in 1..n : a.vs[i].t \notin {"int", "nil"} THEN Err(s1) ELSE Unspec(s1))
         ELSE IF name = "until" THEN (IF n # 1 THEN Unspec(s1) ELSE Ok(Iter([i \in 1..(IF a.vs[1].n > 0 THEN a.vs[1].n ELSE 0) |-> I(i - 1)]), s1))
         ELSE IF n # 2 THEN Unspec(s1)
         ELSE LET lo == IF name = "range" THEN a.vs[1].n ELSE a.vs[1].n + 1
                  hi == IF name = "range" THEN a.vs[2].n ELSE a.vs[2].n - 1
              \* (a span too long to write down: its first 16 numbers, then a marker -- a loop that gets that far is not specified)
              IN IF lo >= 0 /\ hi - lo >= 100000 THEN Ok(Iter([i \in 1..17 |-> IF i = 17 THEN [t |-> "endless"] ELSE I(lo + i - 1)]), s1)
                 ELSE Ok(Iter([i \in 1..(IF hi >= lo THEN hi - lo + 1 ELSE 0) |-> I(lo + i - 1)]), s1)
    [] name \in {"blk", "blks"} ->   \* block helper: what its block renders to, in the caller's scope
         IF n # 0 \/ e.blk = NoBlock THEN Unspec(s1) ELSE RunBlockAsHTML(e.blk, s1, name = "blks", FALSE)
    [] name = "blkown" ->            \* block helper that runs its block in a child scope with data
         IF n # 1 \/ a.vs[1].t # "map" \/ e.blk = NoBlock THEN Unspec(s1)
         ELSE LET r == RunBlockAsHTML(e.blk, BindMap(a.vs[1].m, DOMAIN a.vs[1].m, Push(s1)), FALSE, TRUE) IN
              [r EXCEPT !.st = Pop(r.st)]
    [] name = "blktry" ->            \* ... and renders a placeholder when its block fails (the caller's scope is current again)
         IF n # 1 \/ a.vs[1].t # "map" \/ e.blk = NoBlock THEN Unspec(s1)
         ELSE LET r == RunBlockAsHTML(e.blk, BindMap(a.vs[1].m, DOMAIN a.vs[1].m, Push(s1)), FALSE, TRUE) IN
              IF r.k = "err" THEN Ok(H(<<"E">>), Pop(r.st)) ELSE [r EXCEPT !.st = Pop(r.st)]
    [] name = "contentFor" ->        \* stores the block in the current scope; emits nothing
         IF n # 1 \/ a.vs[1].t # "str" \/ e.blk = NoBlock THEN Unspec(s1)
         ELSE Ok(Nil, SetTop(s1, CForKey(a.vs[1].s), [t |-> "cfor", body |-> e.blk, d |-> Depth(s1)]))
    [] name = "contentOf" ->         \* renders the stored block in a child of its defining scope, plus data
         IF n \notin {1, 2} \/ a.vs[1].t # "str" \/ (n = 2 /\ a.vs[2].t # "map") THEN Unspec(s1)
         ELSE LET data == IF n = 2 THEN a.vs[2].m ELSE EmptyScope
                  f    == Find(s1, CForKey(a.vs[1].s)) IN
              IF f.found /\ f.v.t = "cfor" THEN
                 LET d    == f.v.d
                     base == [s1 EXCEPT !.sc = SubSeq(s1.sc, 1, d)]
                     r    == RunBlockAsHTML(f.v.body, BindMap(data, DOMAIN data, Push(base)), FALSE, TRUE) IN
                 [r EXCEPT !.st = [r.st EXCEPT !.sc = SubSeq(r.st.sc, 1, d) \o SubSeq(s1.sc, d + 1, Len(s1.sc))]]
              ELSE IF e.blk # NoBlock THEN
                 LET r == RunBlockAsHTML(e.blk, BindMap(data, DOMAIN data, Push(s1)), FALSE, TRUE) IN
                 [r EXCEPT !.st = Pop(r.st)]
              ELSE Err(s1)
    [] name = "partial" ->
         \* (nil in the place of the data is no data: the partial still has a scope of its own)
         IF n \notin {1, 2} \/ a.vs[1].t # "str" \/ (n = 2 /\ a.vs[2].t \notin {"map", "nil"}) THEN Unspec(s1)
         ELSE RunPartial(a.vs[1].s, IF n = 2 /\ a.vs[2].t = "map" THEN a.vs[2].m ELSE EmptyScope, s1)
    [] OTHER -> Unspec(s1)

\* partial(name, data): the named text rendered in a child of the caller's scope extended with data,
\* inserted as trusted HTML; with data.layout the result becomes `yield` of the layout partial
RunPartial(name, data, st) ==
  IF JoinChars(name) \notin DOMAIN st.parts THEN Err(st) ELSE
  LET st1 == BindMap(data, DOMAIN data, Push(st))
      r   == ExecTop(st.parts[JoinChars(name)], 1, R("ok", Nil, <<>>, st1, FALSE, FALSE)) IN
  IF Bad(r) THEN [NoUnk(r) EXCEPT !.st = Pop(r.st)] ELSE
  LET ps == Pieces(Chunks(r.out)) IN
  IF HasPerm(ps) THEN Unspec(Pop(r.st)) ELSE
  LET ctv  == Find(r.st, "contentType")
      js   == ctv.found /\ ctv.v.t = "str" /\ Contains(ctv.v.s, <<"j","a","v","a","s","c","r","i","p","t">>)
                /\ ExtOf(name) \notin {<<>>, <<".", "j", "s">>}
      \* inside a javascript response the text of a non-.js partial is escaped for a JS string
      text == IF js THEN JsEscapeChars(PieceChars(ps)) ELSE PieceChars(ps)
      \* the child scope stays in place while the layout renders (it is rendered from inside)
      lay == IF "layout" \in DOMAIN data THEN data["layout"] ELSE Nil IN
  IF lay.t = "str" THEN
       LET lr == RunPartial(lay.s, [x \in {"yield"} |-> H(text)], r.st) IN
       [lr EXCEPT !.st = Pop(lr.st)]
  ELSE Ok(H(text), Pop(r.st))

\* top level of a template (and of a partial): output tags write, code tags are silent
ExecTop(ss, i, acc) ==
  IF acc.k # "ok" \/ i > Len(ss) THEN acc ELSE
  LET r == ExecStmt(ss[i], acc.st) IN
  IF Bad(r) THEN [r EXCEPT !.out = <<>>]
  ELSE IF r.k = "ok" THEN ExecTop(ss, i + 1, [acc EXCEPT !.out = acc.out \o r.out, !.st = r.st])
  ELSE Unspec(r.st)                                     \* break/continue/return at top level

\* ---------------------------------------------------------------- whole renders
\* result of Render: [k |-> "out", pieces, log] | [k |-> "err", w, log] | [k |-> "unspec"]
Run(prog, data, parts, ct) ==
  LET r == ExecTop(prog, 1, R("ok", Nil, <<>>, InitState(data, parts, ct), FALSE, FALSE)) IN
  CASE r.k = "unspec" -> [k |-> "unspec"]
    [] r.k = "err"    -> [k |-> "err", w |-> r.w, log |-> r.st.log, depth |-> Depth(r.st)]
    [] OTHER          -> [k |-> "out", pieces |-> Pieces(Chunks(r.out)), log |-> r.st.log, depth |-> Depth(r.st),
                          top |-> r.st.sc[1]]
=============================================================================
