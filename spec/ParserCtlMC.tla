---------------------------- MODULE ParserCtlMC ----------------------------
(* Properties and case emission for ParserCtl (kept apart from the PlusCal translation). *)
EXTENDS ParserCtl

NoPanic == ~panicked
\* the cursor never leaves the input by more than the EOF position
CursorOK == pos \in 1..(Len(toks) + 1)
Finished == pc = "Done"
DbgNoCA0 == pc # "CA0"

\* one case per input: the token classes and the model's prediction "Parse returns an error"
Emit == ~(EmitCases /\ Finished) \/ PrintT("CASE " \o ToJson([gen |-> "ParserCtl", toks |-> toks, errs |-> errs]))

\* vocabularies
VFull == {"ID", "ATOM", "BAD", "LET", "IF", "ELSE", "FOR", "IN", "FN", "RET", "BRK", "ASSIGN", "OPA", "OPE", "OPC", "OPL", "OPH", "MINUS", "BANG",
          "LP", "RP", "LB", "RB", "LK", "RK", "COMMA", "COLON", "SEMI", "DOT", "ILL", "SST", "EST", "CST"}
VSmall == {"ID", "ATOM", "BAD", "LET", "IF", "ELSE", "FOR", "IN", "FN", "BRK", "ASSIGN", "OPL", "BANG",
           "LP", "RP", "LB", "RB", "LK", "RK", "COMMA", "COLON", "DOT", "SST", "CST"}
VDbg == {"BAD", "LP"}
VTiny == {"ID", "BAD", "IF", "FOR", "IN", "FN", "BRK", "OPL", "LP", "RP", "LB", "RB", "LK", "RK", "COMMA", "DOT", "CST"}
=============================================================================
