------------------------------ MODULE GenScopes ------------------------------
(***************************************************************************)
(* Generator machine for C09: nestings up to MaxDepth of the constructs    *)
(* that open a scope -- for, user-function call, partial, contentFor /     *)
(* contentOf with data, block helper with its own context -- each binding  *)
(* the outer name x again (through the construct itself: loop variable,    *)
(* parameter, data; or through a let in its body), binding a fresh name    *)
(* y_i, and probing what is visible inside and after every level.  The     *)
(* reference semantics' scope stack is the environment-chain model.        *)
(* Theorem (TLC invariant): after the whole program the top scope has x    *)
(* and t unchanged, no y_i, and the stack depth is 1.                      *)
(***************************************************************************)
EXTENDS Unparse, Json

CONSTANT MaxDepth

\* foriter: a loop over an iterator (until(1)); cofdeep: the stored block is rendered from inside a loop body that has its own x
\* fn2: the function is called twice in a row from the same scope; its body reads x and y_i BEFORE it binds them
\* cofdef: contentOf of an undefined name with a default block and data; partialvar: the partial's data is a map the caller
\* keeps in a variable and uses again afterwards
\* for2: two loops one after the other in one scope, the body reading x and y_i before it binds them
Kinds == {"for", "for2", "fn", "fn2", "partial", "partialvar", "cof", "cof2", "cofdef", "blkown", "foriter", "cofdeep", "blktry",
          \* fnloop: a function without parameters whose body is a loop -- two scopes between the caller and the body
          "fnloop",
          \* fnargs: a function with a further parameter q whose ARGUMENT mentions x, the name of the parameter before it: the
          \* argument list is the caller's (q is the caller's x, not the value the call binds x to)
          "fnargs"}
\* bind: the construct itself binds x; let: it binds an unrelated name and its body lets x;
\* bare: it binds nothing at all (function without parameters, partial / contentOf without data) and its body lets x
\* keep: it binds nothing and its body does NOT bind x either: x read inside is the x of the nearest level above that binds it
Modes == {"bind", "let", "bare", "keep"}

\* xn: the outer name every level binds again -- "x", or the name of a built-in helper (a template's own binding of such a name
\* is an ordinary variable: it hides the helper in every scope below it, however deep)
VARIABLES fs, res, xn       \* frames: sequence of [k, m]
vars == <<fs, res, xn>>

XC == IF xn = "x" THEN <<"x">> ELSE <<"c", "a", "p", "i", "t", "a", "l", "i", "z", "e">>
D(i) == Digit(i)
XV(i) == <<"x", D(i)>>                      \* the value x is bound to at level i
YN(i) == "y" \o D(i)
FNm(i) == "f" \o D(i)
ON(i) == "o" \o D(i)
PN(i) == <<"p", D(i)>>                      \* partial name (characters)
CN(i) == <<"c", D(i)>>                      \* contentFor name

Probe == <<Text(<<"[">>), Emit(Id(xn)), Text(<<",">>), Emit(Id("t")), Text(<<"]">>)>>
\* after construct j (seen from the enclosing level): x is the enclosing level's again, y_j is gone
ProbeAfter(j) == IF j <= Len(fs) THEN <<Text(<<"(">>), Emit(Id(xn)), Emit(IfElse(Id(YN(j)), <<Text(<<"L">>)>>, <<Text(<<"-">>)>>)), Text(<<")">>)>> ELSE <<>>

RECURSIVE Body(_), Construct(_)
Body(i) == (IF fs[i].m \in {"let", "bare"} \/ (fs[i].k = "foriter" /\ fs[i].m # "keep") THEN <<Let(xn, Str(XV(i)))>> ELSE <<>>)
           \* (mode keep: the level binds NOTHING before the construct inside it is entered -- its scope is still empty then)
           \o (IF fs[i].m = "keep" THEN <<>> ELSE <<Let(YN(i), Str(<<"y", D(i)>>))>>) \o Probe
           \o (IF i < Len(fs) THEN Construct(i + 1) ELSE <<Text(<<"*">>)>>)
           \o ProbeAfter(i + 1)
           \o (IF fs[i].m = "keep" THEN <<Let(YN(i), Str(<<"y", D(i)>>))>> ELSE <<>>)

\* the name the construct itself binds: x in mode "bind", an unrelated u in mode "let"
BN(i) == IF fs[i].m = "bind" THEN xn ELSE "u"
BV(i) == IF fs[i].m = "bind" THEN Str(XV(i)) ELSE Str(<<"u">>)

Bare(i) == fs[i].m \in {"bare", "keep"}
Construct(i) ==
  CASE fs[i].k = "for"     -> <<Emit(For("", BN(i), Arr(<<BV(i)>>), Body(i)))>>
    [] fs[i].k = "fn"      -> IF Bare(i) THEN <<Let(FNm(i), FnLit(<<>>, Body(i))), Emit(Call(FNm(i), <<>>))>>
                              ELSE <<Let(FNm(i), FnLit(<<BN(i)>>, Body(i))), Emit(Call(FNm(i), <<BV(i)>>))>>
    [] fs[i].k = "for2"    -> LET pre == <<Text(<<"<">>), Emit(Id(xn)), Emit(IfElse(Id(YN(i)), <<Text(<<"L">>)>>, <<Text(<<"-">>)>>)), Text(<<">">>)>>
                                  lp  == Emit(For("", BN(i), Arr(<<BV(i)>>), pre \o Body(i))) IN
                              <<lp, Text(<<"/">>), lp>>
    [] fs[i].k = "fn2"     -> LET pre == <<Text(<<"<">>), Emit(Id(xn)), Emit(IfElse(Id(YN(i)), <<Text(<<"L">>)>>, <<Text(<<"-">>)>>)), Text(<<">">>)>> IN
                              IF Bare(i) THEN <<Let(FNm(i), FnLit(<<>>, pre \o Body(i))), Emit(Call(FNm(i), <<>>)), Text(<<"/">>), Emit(Call(FNm(i), <<>>))>>
                              ELSE <<Let(FNm(i), FnLit(<<BN(i)>>, pre \o Body(i))), Emit(Call(FNm(i), <<BV(i)>>)), Text(<<"/">>), Emit(Call(FNm(i), <<BV(i)>>))>>
    [] fs[i].k = "partial" -> IF Bare(i) THEN <<Emit(Call("partial", <<Str(PN(i))>>))>>
                              ELSE <<Emit(Call("partial", <<Str(PN(i)), Hash(<<BN(i)>>, <<BV(i)>>)>>))>>
    [] fs[i].k = "partialvar" -> LET dat == IF Bare(i) THEN Hash(<<>>, <<>>) ELSE Hash(<<BN(i)>>, <<BV(i)>>) IN
                              <<Let(ON(i), dat), Emit(Call("partial", <<Str(PN(i)), Id(ON(i))>>)),
                                Text(<<"#">>), Emit(Call("len", <<Id(ON(i))>>)), Emit(Idx(Id(ON(i)), Str(<<"y", D(i)>>))), Emit(Idx(Id(ON(i)), Str(XC))),
                                Emit(Call("partial", <<Str(PN(i)), Id(ON(i))>>))>>
    [] fs[i].k = "cofdef"  -> <<Emit(CallB("contentOf", <<Str(CN(i))>> \o (IF Bare(i) THEN <<>> ELSE <<Hash(<<BN(i), "w">>, <<BV(i), Str(<<"w">>)>>)>>), Body(i))),
                                Emit(IfElse(Id("w"), <<Text(<<"L">>)>>, <<Text(<<"-">>)>>))>>
    [] fs[i].k = "cof"     -> <<Code(CallB("contentFor", <<Str(CN(i))>>, Body(i)))>> \o
                              (IF Bare(i) THEN <<Emit(Call("contentOf", <<Str(CN(i))>>))>>
                               ELSE <<Emit(Call("contentOf", <<Str(CN(i)), Hash(<<BN(i)>>, <<BV(i)>>)>>))>>)
    \* the stored block rendered twice: with data, then without (the first call's names must be gone)
    [] fs[i].k = "cof2"    -> <<Code(CallB("contentFor", <<Str(CN(i))>>, Body(i))),
                                Emit(Call("contentOf", <<Str(CN(i)), Hash(<<BN(i), "w">>, <<BV(i), Str(<<"w">>)>>)>>)),
                                Text(<<"/">>),
                                Emit(Call("contentOf", <<Str(CN(i))>>)),
                                Emit(IfElse(Id("w"), <<Text(<<"L">>)>>, <<Text(<<"-">>)>>))>>
    [] fs[i].k = "fnargs"  -> LET pre == <<Text(<<"LBR">>), Emit(Id("q")), Text(<<"RBR">>)>> IN
                              IF Bare(i) THEN <<Let(FNm(i), FnLit(<<"q">>, pre \o Body(i))), Emit(Call(FNm(i), <<Id(xn)>>))>>
                              ELSE <<Let(FNm(i), FnLit(<<BN(i), "q">>, pre \o Body(i))), Emit(Call(FNm(i), <<BV(i), Id(xn)>>))>>
    [] fs[i].k = "fnloop"  -> <<Let(FNm(i), FnLit(<<>>, <<Emit(For("", BN(i), Arr(<<BV(i)>>), Body(i)))>>)), Emit(Call(FNm(i), <<>>))>>
    [] fs[i].k = "foriter" -> <<Emit(For("", "u", Call("until", <<IntL(1)>>), Body(i)))>>
    \* after contentOf returns, the loop body is still in the loop's scope: its own x and the loop variable
    [] fs[i].k = "cofdeep" -> <<Code(CallB("contentFor", <<Str(CN(i))>>, Body(i))),
                                Emit(For("", "u", Arr(<<Str(<<"u", "1">>), Str(<<"u", "2">>)>>),
                                         <<Let(xn, Str(<<"x", "n">>)),
                                           Emit(IF Bare(i) THEN Call("contentOf", <<Str(CN(i))>>) ELSE Call("contentOf", <<Str(CN(i)), Hash(<<BN(i)>>, <<BV(i)>>)>>)),
                                           Text(<<"LBR">>), Emit(Id(xn)), Emit(Id("u")), Text(<<"RBR">>)>>))>>
    [] fs[i].k = "blkown"  -> <<Emit(CallB("blkown", <<IF Bare(i) THEN Hash(<<>>, <<>>) ELSE Hash(<<BN(i)>>, <<BV(i)>>)>>, Body(i)))>>

    \* a block helper with its own context that swallows the failure of its block: what follows is in the caller's scope again
    [] fs[i].k = "blktry"  -> <<Emit(CallB("blktry", <<IF Bare(i) THEN Hash(<<>>, <<>>) ELSE Hash(<<BN(i)>>, <<BV(i)>>)>>, Body(i) \o <<Emit(Id("nope"))>>))>>

\* t is not bound by the template: it is a value of the context.Context the root context was built
\* around (plush.NewContextWithContext), visible from every scope like any other outer name
Data == [t |-> S(<<"t", "0">>)]
Prog == <<Let(xn, Str(<<"x", "0">>))>> \o Probe
        \o (IF Len(fs) >= 1 THEN Construct(1) ELSE <<>>) \o ProbeAfter(1) \o Probe
PartIdx == {i \in 1..Len(fs) : fs[i].k \in {"partial", "partialvar"}}
Parts == [nm \in {JoinChars(PN(i)) : i \in PartIdx} |-> Body(CHOOSE i \in PartIdx : JoinChars(PN(i)) = nm)]

Init == fs = <<>> /\ res = [k |-> "none"] /\ xn \in {"x", "capitalize"}
AddFrame == /\ res.k = "none" /\ Len(fs) < MaxDepth
            /\ \E k \in Kinds, m \in Modes : (k = "foriter" => m \in {"let", "keep"}) /\ fs' = Append(fs, [k |-> k, m |-> m])
            /\ UNCHANGED <<res, xn>>
Finish == /\ res.k = "none" /\ Len(fs) >= 1
          /\ res' = Run(Prog, WithHelpers(Data), Parts, "")
          /\ UNCHANGED <<fs, xn>>
Next == AddFrame \/ Finish
Spec == Init /\ [][Next]_vars

\* ---- theorems on the reference semantics
ScopeTheorem == res.k # "none" =>
   /\ res.k = "out"
   /\ res.depth = 1                                                    \* pushes and pops balance
   /\ res.top[xn] = S(<<"x", "0">>) /\ res.top["t"] = S(<<"t", "0">>)   \* outer bindings framed
   /\ \A i \in 1..MaxDepth : YN(i) \notin DOMAIN res.top               \* nothing leaked

\* the declarative expectation of the probes: x reads x_i inside level i and x_{i-1} after it
RECURSIVE PiecesText(_)
PiecesText(ps) == IF ps = <<>> THEN <<>> ELSE Head(ps).s \o PiecesText(Tail(ps))
RECURSIVE Inside(_)
ProbeText(i) == <<"[">> \o XV(i) \o <<",", "t", "0", "]">>
AfterText(j) == IF j <= Len(fs) THEN <<"(">> \o XV(j - 1) \o <<"-", ")">> ELSE <<>>
Inside(i) == ProbeText(i) \o (IF i < Len(fs) THEN Inside(i + 1) ELSE <<"*">>) \o AfterText(i + 1)
ProbeTheorem == (res.k = "out" /\ \A i \in 1..Len(fs) : fs[i].k \notin {"cof2", "cofdeep", "fn2", "for2", "partialvar", "cofdef", "blktry", "fnargs"} /\ fs[i].m # "keep") => PiecesText(res.pieces) = ProbeText(0) \o Inside(1) \o AfterText(1) \o ProbeText(0)

Expect(r) == CASE r.k = "out" -> [k |-> "out", pieces |-> r.pieces, log |-> r.log]
               [] r.k = "err" -> [k |-> "err", w |-> r.w, log |-> r.log]
               [] OTHER       -> [k |-> "unspec"]
RECURSIVE ShapeOf(_)
ShapeOf(i) == IF i > Len(fs) THEN "" ELSE fs[i].k \o "/" \o fs[i].m \o (IF i < Len(fs) THEN ">" ELSE "") \o ShapeOf(i + 1)

EmitOnce ==
            PrintT("CASE " \o ToJson([gen |-> "GenScopes", src |-> Unparse(Prog), data |-> Data, wrapped |-> <<"t">>,
                                       parts |-> [nm \in DOMAIN Parts |-> Unparse(Parts[nm])],
                                       shape |-> ShapeOf(1) \o (IF xn = "x" THEN "" ELSE ":" \o xn), expect |-> Expect(res)]))
EmitTwice ==
            PrintT("CASE " \o ToJson([gen |-> "GenScopes", src |-> Unparse(Prog \o Prog), data |-> Data, wrapped |-> <<"t">>,
                                       parts |-> [nm \in DOMAIN Parts |-> Unparse(Parts[nm])],
                                       shape |-> ShapeOf(1) \o (IF xn = "x" THEN "" ELSE ":" \o xn) \o ":twice", expect |-> Expect(Run(Prog \o Prog, WithHelpers(Data), Parts, ""))]))
EmitCase == res.k = "none" \/ (EmitOnce /\ EmitTwice)
=============================================================================
