------------------------------- MODULE Pratt -------------------------------
(***************************************************************************)
(* Layer B (implementation-shaped) machine of the expression core of       *)
(* parser/parser.go: parseExpression (the Pratt loop), the prefix parse    *)
(* functions for leaves, ! and -, grouping and array literals, and the     *)
(* infix parse functions parseInfixExpression, parseCallExpression and     *)
(* parseIndexExpression with parseExpressionList -- over a token sequence, *)
(* with the parser's cursor (curToken = ts[i], peekToken = ts[i+1]) as the *)
(* threaded state and the precedence table of parser/precedences.go.       *)
(*                                                                         *)
(* Every operator returns [ok, n, i]: ok = FALSE stands for "an error was  *)
(* recorded and nil returned", n is the node built, i the position of      *)
(* curToken when the Go function returns.                                  *)
(*                                                                         *)
(* Nodes are the ASTs of the reference semantics (Unparse.tla: Id, Not,    *)
(* Bin, Idx, Call, Arr), so the tree the machine builds can be evaluated   *)
(* by PlushSem and compared with the tree a generator started from.        *)
(*                                                                         *)
(* Deviation switch Table:                                                 *)
(*   "doc"        precedences.go as documented in C06 (and as built)       *)
(*   "sumprod"    + - and * / exchanged                                    *)
(*   "cmpeq"      < <= > >= and == != ~= exchanged                         *)
(*   "matchlow"   ~= ranked with && ||                                     *)
(*   "rightassoc" parseInfixExpression parses its right operand one level  *)
(*                lower (binary operators associate to the right)          *)
(*   "notlow"     ! parses its operand at LOWEST instead of PREFIX         *)
(* PrattAgree (GenPratt.tla) holds for "doc" and TLC refutes it for every  *)
(* other value.                                                            *)
(***************************************************************************)
EXTENDS Unparse

CONSTANT Table

LOWEST == 1  ANDOR == 2  EQUALS == 3  LESSGREATER == 4  SUM == 5  PRODUCT == 6  PREFIX == 7  CALLP == 8  INDEXP == 9

BinToks == {"+", "-", "*", "/", "<", "<=", ">", ">=", "==", "!=", "~=", "&&", "||"}
AtomToks == {"a", "b", "c", "id", "xs", "1", "2", "true", "nil"}

\* precedences[tok] of parser/precedences.go; LOWEST for every token without an entry
PrecTok(tok) ==
  CASE tok \in {"==", "!="}        -> IF Table = "cmpeq" THEN LESSGREATER ELSE EQUALS
    [] tok = "~="                  -> IF Table = "matchlow" THEN ANDOR ELSE IF Table = "cmpeq" THEN LESSGREATER ELSE EQUALS
    [] tok \in {"&&", "||"}        -> ANDOR
    [] tok \in {"<", "<=", ">", ">="} -> IF Table = "cmpeq" THEN EQUALS ELSE LESSGREATER
    [] tok \in {"+", "-"}          -> IF Table = "sumprod" THEN PRODUCT ELSE SUM
    [] tok \in {"*", "/"}          -> IF Table = "sumprod" THEN SUM ELSE PRODUCT
    [] tok = "("                   -> CALLP
    [] tok = "["                   -> INDEXP
    [] OTHER                       -> LOWEST

Tok(ts, i) == IF i >= 1 /\ i <= Len(ts) THEN ts[i] ELSE "EOF"

Fail(i)    == [ok |-> FALSE, n |-> [t |-> "none"], i |-> i]
Done(n, i) == [ok |-> TRUE, n |-> n, i |-> i]

Neg(e) == [t |-> "neg", e |-> e]           \* PrefixExpression with operator "-"
NilX   == [t |-> "nilx"]                   \* a nil expression returned WITHOUT an error (the prefix function of %>)

RECURSIVE ParseExpression(_, _, _), PrattLoop(_, _, _, _), PrefixFn(_, _), InfixFn(_, _, _), ExprList(_, _, _), ListTail(_, _, _, _)

\* func (p *parser) parseExpression(precedence int): curToken = ts[i]
ParseExpression(ts, i, prec) ==
  LET pre == PrefixFn(ts, i) IN
  IF ~pre.ok THEN pre ELSE PrattLoop(ts, pre.n, pre.i, prec)

\* for !p.peekTokenIs(SEMICOLON) && precedence < p.peekPrecedence() { ... }   -- one unfolding per iteration
PrattLoop(ts, left, i, prec) ==
  IF prec < PrecTok(Tok(ts, i + 1))
  THEN LET r == InfixFn(ts, left, i + 1) IN             \* p.nextToken(); leftExp = infix(leftExp)
       IF ~r.ok THEN r ELSE PrattLoop(ts, r.n, r.i, prec)
  ELSE Done(left, i)

\* prefixParseFns[curToken.Type]()
PrefixFn(ts, i) ==
  LET tk == Tok(ts, i) IN
  CASE tk \in {"a", "b", "c", "id", "xs", "nil"} -> Done(Id(tk), i)                    \* parseIdentifier
    [] tk = "1" -> Done(IntL(1), i)                                                    \* parseIntegerLiteral
    [] tk = "2" -> Done(IntL(2), i)
    [] tk = "true" -> Done(Bool(TRUE), i)                                              \* parseBoolean
    [] tk \in {"!", "-"} ->                                                            \* parsePrefixExpression
         LET r == ParseExpression(ts, i + 1, IF Table = "notlow" THEN LOWEST ELSE PREFIX) IN
         IF ~r.ok THEN r ELSE Done(IF tk = "!" THEN Not(r.n) ELSE Neg(r.n), r.i)
    [] tk = "(" ->                                                                     \* parseGroupedExpression
         LET r == ParseExpression(ts, i + 1, LOWEST) IN
         IF ~r.ok THEN r
         ELSE IF Tok(ts, r.i + 1) = ")" THEN Done(r.n, r.i + 1) ELSE Fail(r.i)        \* expectPeek(RPAREN)
    [] tk = "[" ->                                                                     \* parseArrayLiteral
         LET l == ExprList(ts, i, "]") IN
         IF ~l.ok THEN Fail(l.i) ELSE Done(Arr(l.n), l.i)
    [] tk = "%>" -> Done(NilX, i)                                                      \* registerPrefix(E_END, func() { return nil })
    [] OTHER -> Fail(i)                                                                \* noPrefixParseFnError

\* infixParseFns[curToken.Type](left): curToken = ts[i] is the operator / opener
InfixFn(ts, left, i) ==
  LET tk == Tok(ts, i) IN
  CASE tk \in BinToks ->                                                               \* parseInfixExpression
         LET p == IF Table = "rightassoc" THEN PrecTok(tk) - 1 ELSE PrecTok(tk)        \* precedence := p.curPrecedence()
             r == ParseExpression(ts, i + 1, p) IN
         IF ~r.ok THEN r ELSE Done(Bin(tk, left, r.n), r.i)
    [] tk = "(" ->                                                                     \* parseCallExpression
         LET l == ExprList(ts, i, ")") IN
         IF ~l.ok THEN Fail(l.i)
         ELSE IF left.t # "id" THEN Done([t |-> "callx", f |-> left, args |-> l.n], l.i)  \* a callee that is not a name
         ELSE Done(Call(left.id, l.n), l.i)
    [] tk = "[" ->                                                                     \* parseIndexExpression
         LET r == ParseExpression(ts, i + 1, LOWEST) IN
         IF ~r.ok THEN r
         ELSE IF Tok(ts, r.i + 1) = "]" THEN Done(Idx(left, r.n), r.i + 1) ELSE Fail(r.i)
    [] OTHER -> Fail(i)

\* parseExpressionList(end): curToken = ts[i] is the opening bracket
ExprList(ts, i, end) ==
  IF Tok(ts, i + 1) = end THEN Done(<<>>, i + 1)
  ELSE LET r == ParseExpression(ts, i + 1, LOWEST) IN
       IF ~r.ok THEN r ELSE ListTail(ts, <<r.n>>, r.i, end)

ListTail(ts, xs, i, end) ==
  IF Tok(ts, i + 1) = ","
  THEN LET r == ParseExpression(ts, i + 2, LOWEST) IN
       IF ~r.ok THEN r ELSE ListTail(ts, Append(xs, r.n), r.i, end)
  ELSE IF Tok(ts, i + 1) = end THEN Done(xs, i + 1) ELSE Fail(i)

\* parseProgram over one output tag `<%= ts`, where ts ends with "%>": the first statement is the tag's return
\* statement, every further one an expression statement; after each statement one nextToken; a statement that
\* prints as nothing (the nil expression of %>) is dropped.  ok = no error was recorded.
RECURSIVE TagLoop(_, _, _)
TagLoop(ts, i, acc) ==
  IF i > Len(ts) THEN [ok |-> TRUE, stmts |-> acc]
  ELSE LET r == ParseExpression(ts, i, LOWEST) IN
       IF ~r.ok THEN [ok |-> FALSE, stmts |-> <<>>]
       ELSE TagLoop(ts, r.i + 1, IF r.n = NilX /\ acc # <<>> THEN acc ELSE Append(acc, r.n))
ParseTag(ts) == TagLoop(ts, 1, <<>>)

\* the whole expression of an output tag: parsed at LOWEST, and the tag must end right after it
ParseAll(ts) == LET r == ParseExpression(ts, 1, LOWEST) IN
                IF r.ok /\ r.i = Len(ts) THEN r ELSE [r EXCEPT !.ok = FALSE]
=============================================================================
