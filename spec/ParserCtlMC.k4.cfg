CONSTANTS
  defaultInitValue = "none"
  K = 4
  Vocab <- VTiny
  Guards = TRUE
  EmitCases = FALSE
SPECIFICATION Spec
INVARIANTS NoPanic CursorOK
PROPERTY Termination
CHECK_DEADLOCK FALSE
