------------------------------ MODULE GenOpSeq ------------------------------
(***************************************************************************)
(* Generator machine for C06 (c): ONE operator expression evaluated        *)
(* several times in one render with different operand values -- the right  *)
(* (or left) operand is the variable of a loop over a list of values, or a *)
(* value computed from it.  The value of `l op r` is a function of the     *)
(* operands' current values only: nothing remembered from an earlier       *)
(* evaluation of the same source text may leak into a later one.           *)
(* Theorem (Pointwise): the rendered sequence is the sequence of the       *)
(* single evaluations.                                                     *)
(***************************************************************************)
EXTENDS Unparse, Json

BinOps == {"+", "-", "*", "/", "<", "<=", ">", ">=", "==", "!=", "~=", "&&", "||"}
Fixed  == { IntL(2), Str(<<"b", "2">>), Flt(3, 1), Bool(TRUE), Str(<<"a">>), Str(<<"a", "b", "c">>) }
\* the values the loop variable takes (patterns among them)
Lists  == { <<IntL(1), IntL(2), IntL(3)>>,
            <<Str(<<"^", "a">>), Str(<<"^", "b">>), Str(<<"2">>), Str(<<"a">>)>>,
            <<Str(<<"b", "2">>), Str(<<"a">>), Str(<<"b", "2">>)>>,
            \* patterns whose only metacharacter is the dot (it matches any one character)
            <<Str(<<"b", ".">>), Str(<<".", "2">>), Str(<<"a", ".", "c">>), Str(<<".">>), Str(<<"b", ".", ".">>)>>,
            <<Flt(1, 1), Flt(3, 1), Flt(5, 1)>>,
            <<Bool(TRUE), Bool(FALSE), Bool(TRUE)>>,
            <<Str(<<"b">>), IntL(2), Str(<<"b">>)>> }
\* how the varying operand is written: the loop variable itself, or computed from it
Shapes == {"var", "paren", "cat"}
VarE(sh) == CASE sh = "var" -> Id("v") [] sh = "paren" -> Par(Id("v")) [] sh = "cat" -> Par(Bin("+", Str(<<>>), Id("v")))

VARIABLE cs
vars == <<cs>>
Prog(op, fx, side, sh, xs) ==
  LET e == IF side = "right" THEN Bin(op, fx, VarE(sh)) ELSE Bin(op, VarE(sh), fx) IN
  <<Emit(For("", "v", Arr(xs), <<Emit(e), Text(<<";">>)>>))>>
Single(op, fx, side, sh, x) ==
  LET e == IF side = "right" THEN Bin(op, fx, VarE(sh)) ELSE Bin(op, VarE(sh), fx) IN
  Run(<<Let("v", x), Emit(e), Text(<<";">>)>>, WithHelpers(EmptyScope), EmptyScope, "")

Init == \E op \in BinOps, fx \in Fixed, side \in {"left", "right"}, sh \in Shapes, xs \in Lists :
          cs = [op |-> op, fx |-> fx, side |-> side, sh |-> sh, xs |-> xs,
                res |-> Run(Prog(op, fx, side, sh, xs), WithHelpers(EmptyScope), EmptyScope, "")]
Spec == Init /\ [][UNCHANGED cs]_vars

\* the loop's rendering is the concatenation of the single evaluations (when all of them are specified outputs)
RECURSIVE Cat(_)
Cat(rs) == IF rs = <<>> THEN <<>> ELSE Head(rs).pieces \o Cat(Tail(rs))
Singles == [i \in 1..Len(cs.xs) |-> Single(cs.op, cs.fx, cs.side, cs.sh, cs.xs[i])]
Pointwise == (\A i \in 1..Len(cs.xs) : Singles[i].k = "out") => (cs.res.k = "out" /\ PieceChars(cs.res.pieces) = PieceChars(Cat(Singles)))

Expect(r) == CASE r.k = "out" -> [k |-> "out", pieces |-> r.pieces, log |-> r.log]
               [] r.k = "err" -> [k |-> "err", w |-> r.w, log |-> r.log]
               [] OTHER       -> [k |-> "unspec"]
EmitCase == PrintT("CASE " \o ToJson([gen |-> "GenExpr", srcs |-> [min |-> Unparse(Prog(cs.op, cs.fx, cs.side, cs.sh, cs.xs))],
                                       data |-> EmptyScope, nops |-> 2, expect |-> Expect(cs.res)]))
=============================================================================
