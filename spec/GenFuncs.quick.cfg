CONSTANTS
  MaxParams = 2
  MaxLinks = 1
SPECIFICATION Spec
INVARIANTS ChainTheorem RecTheorem EmitCase
CHECK_DEADLOCK FALSE
