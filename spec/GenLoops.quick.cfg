CONSTANTS
  MaxLen = 2
SPECIFICATION Spec
INVARIANTS UnrollTheorem KindTheorem EmitCase
CHECK_DEADLOCK FALSE
