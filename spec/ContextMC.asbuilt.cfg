CONSTANTS
  Keys <- MCKeys
  HelperKeys <- MCHelperKeys
  MaxCtx = 3
  MaxOps = 3
  InjectByHas = TRUE
  EmitCases = FALSE
SPECIFICATION Spec
INVARIANTS Agree UserWins
PROPERTY Frame
CHECK_DEADLOCK FALSE
