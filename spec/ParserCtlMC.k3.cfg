CONSTANTS
  defaultInitValue = "none"
  K = 3
  Vocab <- VSmall
  Guards = TRUE
  EmitCases = TRUE
SPECIFICATION Spec
INVARIANTS NoPanic CursorOK Emit
PROPERTY Termination
CHECK_DEADLOCK FALSE
