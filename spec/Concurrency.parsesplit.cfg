CONSTANTS
  NP = 2
  OpsPer = 1
  ReadsLocked = TRUE
  ParseAtomic = FALSE
  EmitCases = FALSE
SPECIFICATION Spec
INVARIANTS NoRace InsertOnce MutexOK
PROPERTY Finishes
