CONSTANTS
  MaxSteps = 3
SPECIFICATION Spec
INVARIANTS NavTheorem FailTheorem EmitCase
CHECK_DEADLOCK FALSE
