CONSTANTS
  MaxSteps = 4
SPECIFICATION Spec
INVARIANTS NavTheorem FailTheorem RevisitTheorem EmitCase
CHECK_DEADLOCK FALSE
