CONSTANTS
  Texts <- MCTexts
  BadTexts <- MCBad
  MaxOps = 30
  EmitCases = TRUE
SPECIFICATION Spec
INVARIANTS OwnText SameSource Emit
PROPERTY Immutable
CHECK_DEADLOCK FALSE
