CONSTANTS
  MaxOps = 1
  Pool = "full"
  MinSize = 0
SPECIFICATION Spec
INVARIANTS EmitCase ParenSound ResultShape
CHECK_DEADLOCK FALSE
