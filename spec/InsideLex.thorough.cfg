SPECIFICATION Spec
CONSTANTS
  K = 4
  Mode = "chars"
  EmitCases = TRUE
INVARIANTS Total Emit
CHECK_DEADLOCK FALSE
