CONSTANTS
  Table = "sumprod"
  MaxOps = 2
  Pool = "small"
  MinSize = 0
  Family = "tree"
  WordLen = 0
SPECIFICATION Spec
INVARIANTS PrattAgree
CHECK_DEADLOCK FALSE
