CONSTANTS
  MinExp = 3
  MaxExp = 9
SPECIFICATION Spec
INVARIANTS WellFormed Bounded Emit
CHECK_DEADLOCK FALSE
