CONSTANTS
  Mode = "random"
SPECIFICATION Spec
INVARIANTS SameTokens Defined EmitCase
CHECK_DEADLOCK FALSE
