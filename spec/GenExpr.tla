------------------------------ MODULE GenExpr ------------------------------
(***************************************************************************)
(* Generator machine for C06: expression trees over a literal / variable   *)
(* pool, built by hole expansion (BFS = exhaustive small scope, -simulate  *)
(* = seeded random deeper trees).  Each closed tree t is evaluated by the  *)
(* reference semantics and printed three ways -- with the minimal          *)
(* parentheses the documented precedence table requires, with redundant    *)
(* parentheses around left operands, and fully parenthesised -- so the     *)
(* real parser must rebuild t from each of them to get the same value.     *)
(***************************************************************************)
EXTENDS Unparse, Json

CONSTANTS MaxOps,      \* operators per tree
          Pool,        \* "small" | "full"
          MinSize      \* simulation: no leaf production while the tree has fewer operators (bias to big trees)

Hole == [t |-> "hole"]

\* context data of every case
Data == [n |-> I(-3), s |-> S(<<"LT", "a", "GT">>), g |-> F(-5, 1)]

LeavesSmall == { IntL(0), IntL(2), IntL(7), Flt(3, 1), Str(<<"a">>), Bool(TRUE), Id("nil"), Id("zz") }
\* 1500000.0 and 2^-14 print with an exponent (1.5e+06, 6.103515625e-05); 0.0 is the divisor AND dividend of 0.0 / 0.0
LeavesFull  == LeavesSmall \cup { IntL(1), Flt(1, 2), Flt(4, 0), Flt(1500000, 0), Flt(1, 14), Flt(0, 0), MaxIntLit, Str(<<"b", "a">>), Str(<<>>), Bool(FALSE), Id("n"), Id("s"), Id("g"),
                                  Call("p", <<IntL(1), Bool(TRUE)>>), Call("p", <<IntL(2), IntL(0)>>), Call("p", <<IntL(3), Id("nil")>>) }
\* pool "cat": sums and products over a string and two numbers, three operators deep ("(" + (1 + 2) + ")")
Leaves == IF Pool = "small" THEN LeavesSmall ELSE IF Pool = "cat" THEN { Str(<<"a">>), IntL(1), IntL(2) } ELSE LeavesFull

BinOps == IF Pool = "cat" THEN {"+", "*"} ELSE {"+", "-", "*", "/", "<", "<=", ">", ">=", "==", "!=", "~=", "&&", "||"}

\* documented precedence:  ! > * / > + - > < <= > >= > == != ~= > && ||
Prec(op) == CASE op \in {"*", "/"} -> 5 [] op \in {"+", "-"} -> 4 [] op \in {"<", "<=", ">", ">="} -> 3
              [] op \in {"==", "!=", "~="} -> 2 [] op \in {"&&", "||"} -> 1

RECURSIVE HasHole(_), Fill(_, _), NOps(_), Paren(_, _)
HasHole(e) == CASE e.t = "hole" -> TRUE
                [] e.t = "bin" -> HasHole(e.l) \/ HasHole(e.r)
                [] e.t = "not" -> HasHole(e.e)
                [] OTHER -> FALSE
NOps(e) == CASE e.t = "bin" -> 1 + NOps(e.l) + NOps(e.r) [] e.t = "not" -> 1 + NOps(e.e) [] OTHER -> 0
\* replace the leftmost hole by r
Fill(e, r) == CASE e.t = "hole" -> r
                [] e.t = "bin" -> IF HasHole(e.l) THEN [e EXCEPT !.l = Fill(e.l, r)] ELSE [e EXCEPT !.r = Fill(e.r, r)]
                [] e.t = "not" -> [e EXCEPT !.e = Fill(e.e, r)]
                [] OTHER -> e

\* parenthesisation: "min" = only what the table needs (binary operators associate to the left),
\* "alt" = min plus redundant parentheses around every compound left operand, "full" = everywhere
Paren(e, mode) ==
  CASE e.t = "bin" ->
         LET lneed == e.l.t = "bin" /\ (mode = "full" \/ mode = "alt" \/ Prec(e.l.op) < Prec(e.op))
             rneed == e.r.t = "bin" /\ (mode = "full" \/ Prec(e.r.op) <= Prec(e.op))
             l == Paren(e.l, mode)
             r == Paren(e.r, mode)
         IN Bin(e.op, IF lneed \/ (mode = "full" /\ e.l.t = "not") THEN Par(l) ELSE l,
                      IF rneed \/ (mode = "full" /\ e.r.t = "not") THEN Par(r) ELSE r)
    [] e.t = "not" -> Not(IF e.e.t = "bin" \/ (mode = "full" /\ e.e.t = "not") THEN Par(Paren(e.e, mode)) ELSE Paren(e.e, mode))
    [] OTHER -> e

VARIABLES tree, res
vars == <<tree, res>>

Init == tree = Hole /\ res = [k |-> "none"]

Expand == /\ HasHole(tree) /\ res.k = "none"
          /\ \/ /\ NOps(tree) >= MinSize
                /\ \E lf \in Leaves : tree' = Fill(tree, lf)
             \/ /\ NOps(tree) < MaxOps
                /\ \/ \E op \in BinOps : tree' = Fill(tree, Bin(op, Hole, Hole))
                   \/ tree' = Fill(tree, Not(Hole))
          /\ UNCHANGED res

Finish == /\ ~HasHole(tree) /\ res.k = "none"
          /\ res' = Run(<<Emit(tree)>>, WithHelpers(Data), EmptyScope, "")
          /\ UNCHANGED tree

Next == Expand \/ Finish
Spec == Init /\ [][Next]_vars

Expect(r) == CASE r.k = "out" -> [k |-> "out", pieces |-> r.pieces, log |-> r.log]
               [] r.k = "err" -> [k |-> "err", w |-> r.w, log |-> r.log]
               [] OTHER       -> [k |-> "unspec"]

EmitCase == res.k = "none" \/
            PrintT("CASE " \o ToJson([gen |-> "GenExpr",
                                       srcs |-> [min  |-> Unparse(<<Emit(Paren(tree, "min"))>>),
                                                 alt  |-> Unparse(<<Emit(Paren(tree, "alt"))>>),
                                                 full |-> Unparse(<<Emit(Paren(tree, "full"))>>)],
                                       data |-> Data, nops |-> NOps(tree), expect |-> Expect(res)]))

\* ---- model-level theorems (checked on every generated tree)
\* the three printings differ only in parentheses
RECURSIVE Strip(_)
Strip(e) == CASE e.t = "par" -> Strip(e.e)
              [] e.t = "bin" -> Bin(e.op, Strip(e.l), Strip(e.r))
              [] e.t = "not" -> Not(Strip(e.e))
              [] OTHER -> e
ParenSound == HasHole(tree) \/ (Strip(Paren(tree, "min")) = tree /\ Strip(Paren(tree, "alt")) = tree /\ Strip(Paren(tree, "full")) = tree)
\* an error never carries output; && and || always yield a bool
ResultShape == res.k = "none" \/ res.k \in {"out", "err", "unspec"}
=============================================================================
