CONSTANTS
  MaxNodes = 4
  Family = "calls"
  FlattenOne = TRUE
  BreakDrops = FALSE
  RetEndsBlock = FALSE
SPECIFICATION Spec
INVARIANTS Agree Contained
CHECK_DEADLOCK FALSE
