CONSTANTS
  K = 3
  Vocabulary = "full"
SPECIFICATION Spec
INVARIANT Emit
CHECK_DEADLOCK FALSE
