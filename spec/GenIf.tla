------------------------------- MODULE GenIf -------------------------------
(***************************************************************************)
(* Generator machine for C07.                                              *)
(*  family "kind":  value kind x {if, else-if, !, !!, && true, || false}   *)
(*  family "chain": if / else-if / else chains of up to MaxN conditions    *)
(*                  with every truth assignment, each condition a counting *)
(*                  probe p(i, v), with or without else, at top level and  *)
(*                  nested in a loop / a function / a helper block.        *)
(* Theorems checked on every case: exactly one branch is rendered, it is   *)
(* the first truthy one, the evaluated conditions are exactly the prefix   *)
(* up to it; the six contexts agree for every kind.                        *)
(***************************************************************************)
EXTENDS Unparse, Json

CONSTANT MaxN

\* values tested for truthiness: [name, value bound to x, falsy?]  (falsy as C07 states it)
KindPool ==
  { [n |-> "nil", v |-> Nil], [n |-> "false", v |-> B(FALSE)], [n |-> "true", v |-> B(TRUE)],
    [n |-> "empty_string", v |-> S(<<>>)], [n |-> "string", v |-> S(<<"a">>)], [n |-> "string_false", v |-> S(<<"f","a","l","s","e">>)],
    [n |-> "empty_html", v |-> H(<<>>)], [n |-> "html", v |-> H(<<"b">>)], [n |-> "html_blank", v |-> H(<<" ", "NL">>)], [n |-> "string_blank", v |-> S(<<" ">>)],
    [n |-> "zero", v |-> I(0)], [n |-> "one", v |-> I(1)], [n |-> "float_zero", v |-> F(0, 0)],
    [n |-> "empty_array", v |-> A(<<>>)], [n |-> "array", v |-> A(<<I(0)>>)], [n |-> "empty_hash", v |-> M(EmptyScope)] }
  \cup { [n |-> k, v |-> Opq(k)] : k \in OpaqueKinds }

Falsy(v) == v.t = "nil" \/ (v.t = "bool" /\ ~v.b) \/ (v.t \in {"str", "html"} /\ v.s = <<>>) \/ (v.t = "opq" /\ v.kind \in NilPointerKinds)

T == <<Text(<<"T">>)>>
Fv == <<Text(<<"F">>)>>
Contexts == {"if", "elseif", "not", "notnot", "and", "or", "andR", "orR", "unknown"}
\* the route by which the tested value reaches the condition: read from a variable, element of a Go
\* slice, value of a Go map, result of a Go helper (no variable read at all)
Routes == {"var", "elem", "mapval", "helper"}
XE(route) == CASE route = "var"    -> Id("x")
               [] route = "elem"   -> Idx(Id("xs"), IntL(0))
               [] route = "mapval" -> Idx(Id("xm"), Str(<<"k">>))
               [] route = "helper" -> Call("getx", <<>>)
KindData(v) == [x |-> v, xs |-> A(<<v>>), xm |-> M([k \in {"k"} |-> v])]
KindProgR(ctx, route) ==
  LET X == XE(route) IN
  CASE ctx = "if"     -> <<Emit(IfElse(X, T, Fv))>>
    [] ctx = "elseif" -> <<Emit(IfChain(Bool(FALSE), <<Text(<<"N">>)>>, <<[c |-> X, b |-> T]>>, Fv, TRUE))>>
    [] ctx = "not"    -> <<Emit(Not(X))>>
    [] ctx = "notnot" -> <<Emit(Not(Not(X)))>>
    [] ctx = "and"    -> <<Emit(Bin("&&", X, Bool(TRUE)))>>
    [] ctx = "or"     -> <<Emit(Bin("||", X, Bool(FALSE)))>>
    \* the tested value is the RIGHT operand (the left one does not decide)
    [] ctx = "andR"   -> <<Emit(Bin("&&", Bool(TRUE), X))>>
    [] ctx = "orR"    -> <<Emit(Bin("||", Bool(FALSE), X))>>
KindProg(ctx) == KindProgR(ctx, "var")
\* what the statement of C07 says each context renders for a truthy / falsy value
KindText(ctx, truthy) ==
  CASE ctx \in {"if", "elseif"} -> IF truthy THEN <<"T">> ELSE <<"F">>
    [] ctx = "not" -> IF truthy THEN <<"f","a","l","s","e">> ELSE <<"t","r","u","e">>
    [] OTHER       -> IF truthy THEN <<"t","r","u","e">> ELSE <<"f","a","l","s","e">>

\* ---- chains
Markers == <<"A", "B", "C", "D", "E">>
Cond(i, b) == Call("p", <<IntL(i), Bool(b)>>)
\* fb: every branch body fails at run time after its marker (the failure of the TAKEN branch must fail the render)
Body(m, fb) == IF fb THEN <<Text(<<m>>), Code(Call("fail", <<IntL(9)>>)), Text(<<"x">>)>> ELSE <<Text(<<m>>)>>
ChainIfB(tv, hasel, fb) ==
  IfChain(Cond(1, tv[1]), Body(Markers[1], fb),
          [i \in 1..(Len(tv) - 1) |-> [c |-> Cond(i + 1, tv[i + 1]), b |-> Body(Markers[i + 1], fb)]],
          Body("Z", fb), hasel)
ChainIf(tv, hasel) == ChainIfB(tv, hasel, FALSE)
Places == {"top", "for", "fn", "blk", "silent_in_for"}
Place(pl, e) ==
  CASE pl = "top" -> <<Text(<<"[">>), Emit(e), Text(<<"]">>)>>
    [] pl = "for" -> <<Emit(For("", "i", Arr(<<IntL(1), IntL(2)>>), <<Text(<<"[">>), Emit(e), Text(<<"]">>)>>))>>
    [] pl = "fn"  -> <<Let("f", FnLit(<<>>, <<Text(<<"[">>), Emit(e), Text(<<"]">>)>>)), Emit(Call("f", <<>>))>>
    [] pl = "blk" -> <<Emit(CallB("blk", <<>>, <<Text(<<"[">>), Emit(e), Text(<<"]">>)>>))>>
    [] pl = "silent_in_for" -> <<Emit(For("", "i", Arr(<<IntL(1)>>), <<Text(<<"[">>), Code(e), Text(<<"]">>)>>))>>

VARIABLE cs      \* the case under construction / finished
vars == <<cs>>

FirstTrue(tv) == IF \E i \in 1..Len(tv) : tv[i] THEN CHOOSE i \in 1..Len(tv) : tv[i] /\ \A j \in 1..(i-1) : ~tv[j] ELSE 0

Init ==
  \/ \E k \in KindPool, ctx \in Contexts \ {"unknown"}, rt \in Routes :
        cs = [fam |-> "kind", name |-> k.n \o (IF rt = "var" THEN "" ELSE "@" \o rt), ctx |-> ctx, prog |-> KindProgR(ctx, rt), data |-> KindData(k.v),
              res |-> Run(KindProgR(ctx, rt), WithHelpers(KindData(k.v)), EmptyScope, ""), want |-> KindText(ctx, ~Falsy(k.v))]
  \/ \E ctx \in Contexts \ {"unknown"} :      \* x not bound at all: an unknown identifier is falsy
        cs = [fam |-> "kind", name |-> "unknown_identifier", ctx |-> ctx, prog |-> KindProg(ctx), data |-> EmptyScope,
              res |-> Run(KindProg(ctx), WithHelpers(EmptyScope), EmptyScope, ""), want |-> KindText(ctx, FALSE)]
  \/ \E n \in 1..MaxN : \E tv \in [1..n -> BOOLEAN], hasel \in BOOLEAN, pl \in Places :
        LET prog == Place(pl, ChainIf(tv, hasel)) IN
        cs = [fam |-> "chain", name |-> pl, ctx |-> "chain", prog |-> prog, data |-> EmptyScope, tv |-> tv, hasel |-> hasel,
              res |-> Run(prog, WithHelpers(EmptyScope), EmptyScope, ""), want |-> <<>>]
  \* chains whose branch bodies are completely empty (only the else block has text)
  \/ \E n \in 1..MaxN : \E tv \in [1..n -> BOOLEAN], pl \in {"top", "fn"} :
        LET prog == Place(pl, IfChain(Cond(1, tv[1]), <<>>, [i \in 1..(n - 1) |-> [c |-> Cond(i + 1, tv[i + 1]), b |-> <<>>]], <<Text(<<"Z">>)>>, TRUE)) IN
        cs = [fam |-> "emptychain", name |-> pl, ctx |-> "chain", prog |-> prog, data |-> EmptyScope, tv |-> tv, hasel |-> TRUE,
              res |-> Run(prog, WithHelpers(EmptyScope), EmptyScope, ""), want |-> <<>>]
  \* a chain with else-ifs that holds, in a later branch, another chain with else-ifs -- after an earlier chain with an else-if
  \/ \E t4 \in BOOLEAN, t5 \in BOOLEAN, t7 \in BOOLEAN, where \in {"elif2", "else"} :
        LET inner == IfChain(Cond(6, FALSE), <<Text(<<"E">>)>>, <<[c |-> Cond(7, t7), b |-> <<Text(<<"G">>)>>]>>, <<Text(<<"H">>)>>, TRUE)
            first == IfChain(Cond(1, FALSE), <<Text(<<"A">>)>>, <<[c |-> Cond(2, TRUE), b |-> <<Text(<<"B">>)>>]>>, <<>>, FALSE)
            outer == IF where = "elif2"
                     THEN IfChain(Cond(3, FALSE), <<Text(<<"C">>)>>, <<[c |-> Cond(4, t4), b |-> <<Text(<<"D">>)>>], [c |-> Cond(5, t5), b |-> <<Text(<<"<">>), Emit(inner), Text(<<">">>)>>]>>, <<Text(<<"Z">>)>>, TRUE)
                     ELSE IfChain(Cond(3, FALSE), <<Text(<<"C">>)>>, <<[c |-> Cond(4, t4), b |-> <<Text(<<"D">>)>>], [c |-> Cond(5, t5), b |-> <<Text(<<"F">>)>>]>>, <<Text(<<"<">>), Emit(inner), Text(<<">">>)>>, TRUE)
            prog == <<Emit(first), Text(<<"|">>), Emit(outer), Text(<<"|">>), Emit(first)>> IN
        cs = [fam |-> "nested", name |-> where, ctx |-> "chain", prog |-> prog, data |-> EmptyScope, tv |-> <<t4, t5, t7>>, hasel |-> TRUE,
              res |-> Run(prog, WithHelpers(EmptyScope), EmptyScope, ""), want |-> <<>>]
  \* two values tested one after the other in ONE render (a verdict about one value must not carry over to the next)
  \/ \E k1 \in KindPool, k2 \in KindPool, ctx \in {"if", "not"} :
        LET X(v) == IF ctx = "if" THEN Emit(IfElse(Id(v), T, Fv)) ELSE Emit(Not(Id(v)))
            prog == <<X("x"), Text(<<"|">>), X("y"), Text(<<"|">>), X("x")>> IN
        cs = [fam |-> "pair", name |-> k1.n \o "," \o k2.n, ctx |-> ctx, prog |-> prog, data |-> [x |-> k1.v, y |-> k2.v],
              res |-> Run(prog, WithHelpers([x |-> k1.v, y |-> k2.v]), EmptyScope, ""),
              want |-> KindText(ctx, ~Falsy(k1.v)) \o <<"|">> \o KindText(ctx, ~Falsy(k2.v)) \o <<"|">> \o KindText(ctx, ~Falsy(k1.v))]
  \* the leading condition names something that is not set (falsy, not an error): the else-ifs are still tried in order
  \/ \E n \in 1..MaxN : \E tv \in [1..n -> BOOLEAN], hasel \in BOOLEAN, pl \in {"top", "fn"} :
        LET prog == Place(pl, IfChain(Id("zz"), Body("U", FALSE), [i \in 1..n |-> [c |-> Cond(i, tv[i]), b |-> Body(Markers[i], FALSE)]], Body("Z", FALSE), hasel)) IN
        cs = [fam |-> "unkchain", name |-> pl, ctx |-> "chain", prog |-> prog, data |-> EmptyScope, tv |-> tv, hasel |-> hasel,
              res |-> Run(prog, WithHelpers(EmptyScope), EmptyScope, ""), want |-> <<>>]
  \* a name tested while it is unknown, then bound (loop variable, parameter, let, assignment) and tested again in the same render
  \/ \E how \in {"loop", "param", "let", "helperdata"} :
        LET T2 == Emit(IfElse(Id("it"), T, Fv))
            prog == <<T2, Text(<<"|">>)>> \o
                    (CASE how = "loop"  -> <<Emit(For("", "it", Arr(<<Str(<<"a">>), Str(<<>>)>>), <<T2, Emit(Not(Id("it")))>>))>>
                       [] how = "param" -> <<Let("f", FnLit(<<"it">>, <<T2>>)), Emit(Call("f", <<Str(<<"x">>)>>)), Emit(Call("f", <<Bool(FALSE)>>))>>
                       [] how = "let"   -> <<Let("it", IntL(0)), T2>>
                       [] how = "helperdata" -> <<Emit(CallB("blkown", <<Hash(<<"it">>, <<Str(<<"d">>)>>)>>, <<T2>>))>>)
                    \o <<Text(<<"|">>), T2>> IN
        cs = [fam |-> "unkthenbound", name |-> how, ctx |-> "if", prog |-> prog, data |-> EmptyScope, tv |-> <<>>, hasel |-> TRUE,
              res |-> Run(prog, WithHelpers(EmptyScope), EmptyScope, ""), want |-> <<>>]
  \/ \E n \in 1..MaxN : \E tv \in [1..n -> BOOLEAN], hasel \in BOOLEAN :
        LET prog == Place("top", ChainIfB(tv, hasel, TRUE)) IN
        cs = [fam |-> "failchain", name |-> "top", ctx |-> "chain", prog |-> prog, data |-> EmptyScope, tv |-> tv, hasel |-> hasel,
              res |-> Run(prog, WithHelpers(EmptyScope), EmptyScope, ""), want |-> <<>>]

Next == UNCHANGED cs
Spec == Init /\ [][Next]_vars

\* ---- theorems
RECURSIVE PiecesText(_)
PiecesText(ps) == IF ps = <<>> THEN <<>> ELSE Head(ps).s \o PiecesText(Tail(ps))

\* kind family: the reference semantics renders what the statement says, in all six contexts
KindTheorem == cs.fam \in {"kind", "pair"} => (cs.res.k = "out" /\ PiecesText(cs.res.pieces) = cs.want)


\* chain family: exactly the first truthy branch (else block, or nothing); conditions evaluated = prefix
ChainBody(tv, hasel) == LET f == FirstTrue(tv) IN IF f > 0 THEN <<Markers[f]>> ELSE IF hasel THEN <<"Z">> ELSE <<>>
ChainEvaluated(tv) == LET f == FirstTrue(tv) IN IF f > 0 THEN f ELSE Len(tv)
Reps(pl) == IF pl = "for" THEN 2 ELSE 1
\* empty bodies: the first truthy condition ends the chain with nothing rendered; later conditions are not evaluated
EmptyChainTheorem ==
  cs.fam = "emptychain" =>
    /\ cs.res.k = "out"
    /\ PiecesText(cs.res.pieces) = <<"[">> \o (IF FirstTrue(cs.tv) > 0 THEN <<>> ELSE <<"Z">>) \o <<"]">>
    /\ Len(cs.res.log) = ChainEvaluated(cs.tv)
ChainTheorem ==
  cs.fam = "chain" =>
    /\ cs.res.k = "out"
    /\ LET once == IF cs.name = "silent_in_for" THEN <<"[", "]">> ELSE <<"[">> \o ChainBody(cs.tv, cs.hasel) \o <<"]">>
       IN PiecesText(cs.res.pieces) = (IF Reps(cs.name) = 2 THEN once \o once ELSE once)
    /\ Len(cs.res.log) = Reps(cs.name) * ChainEvaluated(cs.tv)
    /\ \A i \in 1..Len(cs.res.log) : cs.res.log[i].id = ((i - 1) % ChainEvaluated(cs.tv)) + 1

UnkChainTheorem ==
  cs.fam = "unkchain" =>
    /\ cs.res.k = "out"
    /\ PiecesText(cs.res.pieces) = <<"[">> \o ChainBody(cs.tv, cs.hasel) \o <<"]">>
    /\ Len(cs.res.log) = ChainEvaluated(cs.tv)

\* a chain whose bodies fail: the render fails exactly when a branch is taken, after evaluating the
\* same prefix of conditions, and the failing helper runs once (no second branch is entered)
FailChainTheorem ==
  cs.fam = "failchain" =>
    LET taken == FirstTrue(cs.tv) > 0 \/ cs.hasel
        nc    == ChainEvaluated(cs.tv) IN
    /\ IF taken THEN cs.res.k = "err" /\ cs.res.w ELSE (cs.res.k = "out" /\ PiecesText(cs.res.pieces) = <<"[", "]">>)
    /\ Len(cs.res.log) = nc + (IF taken THEN 1 ELSE 0)
    /\ \A i \in 1..nc : cs.res.log[i].f = "p" /\ cs.res.log[i].id = i
    /\ taken => cs.res.log[nc + 1].f = "fail"

\* nested chains: the reference semantics renders them (the expectation is its output and probe sequence)
NestedTheorem == cs.fam \in {"nested", "unkthenbound"} => cs.res.k = "out"

Expect(r) == CASE r.k = "out" -> [k |-> "out", pieces |-> r.pieces, log |-> r.log]
               [] r.k = "err" -> [k |-> "err", w |-> r.w, log |-> r.log]
               [] OTHER       -> [k |-> "unspec"]

EmitCase == PrintT("CASE " \o ToJson([gen |-> "GenIf", src |-> Unparse(cs.prog), data |-> cs.data,
                                       shape |-> cs.fam \o ":" \o cs.name \o ":" \o cs.ctx, expect |-> Expect(cs.res)]))
=============================================================================
