------------------------------- MODULE GenIf -------------------------------
(***************************************************************************)
(* Generator machine for C07.                                              *)
(*  family "kind":  value kind x {if, else-if, !, !!, && true, || false}   *)
(*  family "chain": if / else-if / else chains of up to MaxN conditions    *)
(*                  with every truth assignment, each condition a counting *)
(*                  probe p(i, v), with or without else, at top level and  *)
(*                  nested in a loop / a function / a helper block.        *)
(* Theorems checked on every case: exactly one branch is rendered, it is   *)
(* the first truthy one, the evaluated conditions are exactly the prefix   *)
(* up to it; the six contexts agree for every kind.                        *)
(***************************************************************************)
EXTENDS Unparse, Json

CONSTANT MaxN

\* values tested for truthiness: [name, value bound to x, falsy?]  (falsy as C07 states it)
KindPool ==
  { [n |-> "nil", v |-> Nil], [n |-> "false", v |-> B(FALSE)], [n |-> "true", v |-> B(TRUE)],
    [n |-> "empty_string", v |-> S(<<>>)], [n |-> "string", v |-> S(<<"a">>)], [n |-> "string_false", v |-> S(<<"f","a","l","s","e">>)],
    [n |-> "empty_html", v |-> H(<<>>)], [n |-> "html", v |-> H(<<"b">>)],
    [n |-> "zero", v |-> I(0)], [n |-> "one", v |-> I(1)], [n |-> "float_zero", v |-> F(0, 0)],
    [n |-> "empty_array", v |-> A(<<>>)], [n |-> "array", v |-> A(<<I(0)>>)], [n |-> "empty_hash", v |-> M(EmptyScope)] }
  \cup { [n |-> k, v |-> Opq(k)] : k \in OpaqueKinds }

Falsy(v) == v.t = "nil" \/ (v.t = "bool" /\ ~v.b) \/ (v.t \in {"str", "html"} /\ v.s = <<>>) \/ (v.t = "opq" /\ v.kind \in NilPointerKinds)

T == <<Text(<<"T">>)>>
Fv == <<Text(<<"F">>)>>
Contexts == {"if", "elseif", "not", "notnot", "and", "or", "unknown"}
KindProg(ctx) ==
  CASE ctx = "if"     -> <<Emit(IfElse(Id("x"), T, Fv))>>
    [] ctx = "elseif" -> <<Emit(IfChain(Bool(FALSE), <<Text(<<"N">>)>>, <<[c |-> Id("x"), b |-> T]>>, Fv, TRUE))>>
    [] ctx = "not"    -> <<Emit(Not(Id("x")))>>
    [] ctx = "notnot" -> <<Emit(Not(Not(Id("x"))))>>
    [] ctx = "and"    -> <<Emit(Bin("&&", Id("x"), Bool(TRUE)))>>
    [] ctx = "or"     -> <<Emit(Bin("||", Id("x"), Bool(FALSE)))>>
\* what the statement of C07 says each context renders for a truthy / falsy value
KindText(ctx, truthy) ==
  CASE ctx \in {"if", "elseif"} -> IF truthy THEN <<"T">> ELSE <<"F">>
    [] ctx = "not" -> IF truthy THEN <<"f","a","l","s","e">> ELSE <<"t","r","u","e">>
    [] OTHER       -> IF truthy THEN <<"t","r","u","e">> ELSE <<"f","a","l","s","e">>

\* ---- chains
Markers == <<"A", "B", "C", "D", "E">>
Cond(i, b) == Call("p", <<IntL(i), Bool(b)>>)
ChainIf(tv, hasel) ==
  IfChain(Cond(1, tv[1]), <<Text(<<Markers[1]>>)>>,
          [i \in 1..(Len(tv) - 1) |-> [c |-> Cond(i + 1, tv[i + 1]), b |-> <<Text(<<Markers[i + 1]>>)>>]],
          <<Text(<<"Z">>)>>, hasel)
Places == {"top", "for", "fn", "blk", "silent_in_for"}
Place(pl, e) ==
  CASE pl = "top" -> <<Text(<<"[">>), Emit(e), Text(<<"]">>)>>
    [] pl = "for" -> <<Emit(For("", "i", Arr(<<IntL(1), IntL(2)>>), <<Text(<<"[">>), Emit(e), Text(<<"]">>)>>))>>
    [] pl = "fn"  -> <<Let("f", FnLit(<<>>, <<Text(<<"[">>), Emit(e), Text(<<"]">>)>>)), Emit(Call("f", <<>>))>>
    [] pl = "blk" -> <<Emit(CallB("blk", <<>>, <<Text(<<"[">>), Emit(e), Text(<<"]">>)>>))>>
    [] pl = "silent_in_for" -> <<Emit(For("", "i", Arr(<<IntL(1)>>), <<Text(<<"[">>), Code(e), Text(<<"]">>)>>))>>

VARIABLE cs      \* the case under construction / finished
vars == <<cs>>

FirstTrue(tv) == IF \E i \in 1..Len(tv) : tv[i] THEN CHOOSE i \in 1..Len(tv) : tv[i] /\ \A j \in 1..(i-1) : ~tv[j] ELSE 0

Init ==
  \/ \E k \in KindPool, ctx \in Contexts \ {"unknown"} :
        cs = [fam |-> "kind", name |-> k.n, ctx |-> ctx, prog |-> KindProg(ctx), data |-> [x |-> k.v],
              res |-> Run(KindProg(ctx), WithHelpers([x |-> k.v]), EmptyScope, ""), want |-> KindText(ctx, ~Falsy(k.v))]
  \/ \E ctx \in Contexts \ {"unknown"} :      \* x not bound at all: an unknown identifier is falsy
        cs = [fam |-> "kind", name |-> "unknown_identifier", ctx |-> ctx, prog |-> KindProg(ctx), data |-> EmptyScope,
              res |-> Run(KindProg(ctx), WithHelpers(EmptyScope), EmptyScope, ""), want |-> KindText(ctx, FALSE)]
  \/ \E n \in 1..MaxN : \E tv \in [1..n -> BOOLEAN], hasel \in BOOLEAN, pl \in Places :
        LET prog == Place(pl, ChainIf(tv, hasel)) IN
        cs = [fam |-> "chain", name |-> pl, ctx |-> "chain", prog |-> prog, data |-> EmptyScope, tv |-> tv, hasel |-> hasel,
              res |-> Run(prog, WithHelpers(EmptyScope), EmptyScope, ""), want |-> <<>>]

Next == UNCHANGED cs
Spec == Init /\ [][Next]_vars

\* ---- theorems
RECURSIVE PiecesText(_)
PiecesText(ps) == IF ps = <<>> THEN <<>> ELSE Head(ps).s \o PiecesText(Tail(ps))

\* kind family: the reference semantics renders what the statement says, in all six contexts
KindTheorem == cs.fam = "kind" => (cs.res.k = "out" /\ PiecesText(cs.res.pieces) = cs.want)

\* chain family: exactly the first truthy branch (else block, or nothing); conditions evaluated = prefix
ChainBody(tv, hasel) == LET f == FirstTrue(tv) IN IF f > 0 THEN <<Markers[f]>> ELSE IF hasel THEN <<"Z">> ELSE <<>>
ChainEvaluated(tv) == LET f == FirstTrue(tv) IN IF f > 0 THEN f ELSE Len(tv)
Reps(pl) == IF pl = "for" THEN 2 ELSE 1
ChainTheorem ==
  cs.fam = "chain" =>
    /\ cs.res.k = "out"
    /\ LET once == IF cs.name = "silent_in_for" THEN <<"[", "]">> ELSE <<"[">> \o ChainBody(cs.tv, cs.hasel) \o <<"]">>
       IN PiecesText(cs.res.pieces) = (IF Reps(cs.name) = 2 THEN once \o once ELSE once)
    /\ Len(cs.res.log) = Reps(cs.name) * ChainEvaluated(cs.tv)
    /\ \A i \in 1..Len(cs.res.log) : cs.res.log[i].id = ((i - 1) % ChainEvaluated(cs.tv)) + 1

Expect(r) == CASE r.k = "out" -> [k |-> "out", pieces |-> r.pieces, log |-> r.log]
               [] r.k = "err" -> [k |-> "err", w |-> r.w, log |-> r.log]
               [] OTHER       -> [k |-> "unspec"]

EmitCase == PrintT("CASE " \o ToJson([gen |-> "GenIf", src |-> Unparse(cs.prog), data |-> cs.data,
                                       shape |-> cs.fam \o ":" \o cs.name \o ":" \o cs.ctx, expect |-> Expect(cs.res)]))
=============================================================================
