#!/usr/bin/env python3
"""Writes /verif/MANIFEST.json from the table below (single source of truth for the interface)."""
import json, os, subprocess

BASE_OFF = ("cd /repo && GOFLAGS=-mod=mod GOPROXY=off GOSUMDB=off GOTOOLCHAIN=local "
            "go test -json -vet=off -count=1 -timeout 25m ./...")

CHECKS = {
 "C10": dict(
   technique="TLC explicit-state model checking of Context.tla/ContextMC.tla (impl-shaped machine vs declarative chain semantics) + replay of every TLC-generated history into real plush.Context + TLC trace validation (ContextTrace.tla) of context events recorded by the verif hooks from the repository's own tests",
   text="Exhaustive within the bound: every history of New/Set over a tree of <=3 (quick) / <=4 (thorough) contexts, 3 keys (one a built-in helper name), values {1,2,nil}, 5 root data maps; the model-level theorems Agree (as-built lookup = declarative chain semantics), Frame (a Set never changes what non-descendants observe, action property) and UserWins hold in the model, and every history is replayed on the real Context with the full Value/Has table compared. Beyond the bound: seeded random walks (all successors of every visited state). Code->spec: all context constructions/writes/reads of the repository's 350 tests are accepted by the trace spec; a corrupted trace is rejected.",
   note="Trusted: TLC, the Go harness's materialisation of the three abstract values, the hooks' fingerprints. Bounded in tree size and history length; unbounded histories only sampled.",
   design="§6 C10"),
 "C06": dict(
   technique="TLC explicit-state enumeration of expression trees (GenExpr.tla, hole expansion) evaluated by the TLA+ reference semantics PlushSem.tla; every tree replayed into real plush.Render in three parenthesisations (conformance: spec -> code)",
   text="Exhaustive within the bound: all expression trees with <=2 operators (13 binary operators and !) over a pool of 8 (quick) / 20 (thorough) literals, variables and probe calls; each tree is evaluated by the reference semantics (documented operator meaning, precedence table, left associativity, short-circuit, truncating division, errors) and printed with minimal, redundant and full parentheses; the real renderer must produce the model's value (or an error where the model says error) and the recorded helper-call sequence must match (short-circuit). Beyond the bound: seeded random trees with 3-5 operators.",
   note="Trusted: TLC, PlushSem.tla as the documented meaning, the harness's materialisation of values. Cases whose meaning the property leaves open (cross-kind ==, string vs non-string comparison, bool arithmetic, float division by a non power of two) are only checked for totality.",
   design="§6 C06"),
 "C07": dict(
   technique="TLC explicit-state enumeration of truthiness matrix and if/else-if/else chains (GenIf.tla) with model-level theorems as invariants; every case replayed into real plush.Render with recording probe helpers",
   text="Exhaustive: 31 value kinds (incl. unknown identifier, typed nil pointers, empty collections, other numeric widths) x 6 contexts; all chains of <=3 (quick) / <=5 (thorough) probe conditions x every truth assignment x with/without else x 5 placements. TLC checks KindTheorem and ChainTheorem (exactly the first truthy branch, evaluated conditions are exactly the prefix, contexts agree) on the reference semantics; the real renderer's output and recorded probe sequence must equal the model's.",
   note="Trusted: TLC, PlushSem.tla, harness kind registry. Truthiness of HTMLer values with empty HTML is not covered (statement speaks of empty HTML values).",
   design="§6 C07"),
 "C05": dict(
   technique="TLC explicit-state enumeration of fault positions (GenFaults.tla) over the TLA+ reference semantics with NoSilentFailure as invariant; every case replayed into real plush.Render with an instrumented failing helper (oracle fires when the helper was really invoked)",
   text="Exhaustive within the bound: 4 faults x 19 statement contexts x stacks of <=1 (quick) / <=2 (thorough) of 35 expression contexts (about 3k / 109k programs). TLC checks on the reference semantics that a reached failing helper makes the render an error wrapping the sentinel with no output. On the real code, independent of the model: whenever the failing helper was invoked, err != nil, errors.Is(err, sentinel), output empty; plus model outcome and probe sequence equality.",
   note="Trusted: TLC, PlushSem.tla, harness helpers. Positions are those of the generator's grammar; deeper nestings only in thorough.",
   design="§6 C05"),
 "C08": dict(
   technique="TLC explicit-state enumeration of iterables x loop bodies (GenLoops.tla) over the TLA+ reference semantics, loop-unrolling equivalence as TLC invariant; loop and unrolled programs replayed into real plush.Render",
   text="Exhaustive within the bound: 28 iterables x all bodies of <=2 (quick) / <=3 (thorough) statements over 12 building blocks. TLC checks UnrollTheorem (loop = body instantiated per element, for control-free bodies) and KindTheorem (nil renders nothing, non-iterable is an error, scope depth restored). The real renderer must produce the model's output for the loop and for the unrolled program; map loops are compared as a set of admissible orders.",
   note="Trusted: TLC, PlushSem.tla. `return` inside a loop body follows the behaviour pinned by the repository's own test.",
   design="§6 C08"),
 "C09": dict(
   technique="TLC explicit-state enumeration of scope nestings (GenScopes.tla) with ScopeTheorem/ProbeTheorem invariants on the reference semantics' scope stack; replay into real plush.Render; TLC trace validation (ContextTrace.tla) of the context operations the real evaluator performs while rendering the generated programs",
   text="Exhaustive within the bound: all nestings of depth <=2 (quick) / <=3 (thorough) of 5 scope-opening constructs x 2 binding modes. TLC checks that pushes/pops balance, outer bindings are framed and nothing leaks; the real renderer's probe output must equal the model's; the evaluator's recorded context constructions/writes/reads must be accepted by the Context machine.",
   note="Trusted: TLC, PlushSem.tla, verif hooks (guarded, add-only).",
   design="§6 C09"),
 "C16": dict(
   technique="TLC explicit-state enumeration of decision-chain functions x argument tuples x uses (GenFuncs.tla) with ChainTheorem (reference semantics = declarative first-match reading) as invariant; replay into real plush.Render with probes",
   text="Exhaustive within the bound: functions of 0..2 (quick) / 0..3 (thorough) parameters, chains of <=1 / <=2 links, all argument tuples over a pool of 7 (incl. caller variables named like the parameters), 6 uses of the result. Real output and probe sequence must equal the model's.",
   note="Trusted: TLC, PlushSem.tla. Recursion and bodies that print before returning are covered by fixed extra programs only.",
   design="§6 C16"),
 "C01": dict(
   technique="TLC explicit-state enumeration of payload routes (GenRoutes.tla: start x plumbing steps x sink) over the TLA+ reference semantics with TaintTheorem as invariant; every route replayed into real plush.Render and matched per payload occurrence (entity vs verbatim)",
   text="Exhaustive within the bound: 5 payloads x 15 starts x <=1 (quick) / <=2 (thorough) of 10 plumbing steps x 14 sinks. TLC checks on the reference semantics that data never contributes a raw < > ' \" and trusted HTML appears verbatim exactly once; the real renderer's output must match piece by piece: data pieces with every special character as some HTML entity, trusted pieces byte-identical exactly once, literal text byte for byte. PLAIN/MB character classes are instantiated from VERIF_SEED.",
   note="Trusted: TLC, PlushSem.tla, harness kind registry. Routes outside the grammar (fmt.Stringer values, string+HTML concatenation, block helpers returning string) are not claimed.",
   design="§6 C01"),
 "C02": dict(
   technique="TLC explicit-state model checking of the byte-level scanner machine against the declarative text segmentation (TextLex.tla, invariant Agree) over all short strings, each string replayed into real plush.Render byte for byte; plus TLC enumeration of text/tag interleavings (GenText.tla, invariant SourceOrder) over the reference semantics, replayed likewise",
   text="Exhaustive within the bound: all strings of length <=4 (quick, 16k) / <=6 (thorough, 1.9M) over 8 bytes + 3 macro tags: implementation-shaped scanner = declarative segmentation in the model, and real output = declarative expectation byte for byte; all sequences of <=2 (quick) / <=3 (thorough) of 47 items (literal segments, string literals with tag delimiters / # / backslashes / newlines / quotes / multi-byte, silent tags of 8 kinds, comments) x 5 placements. The as-built scanner of the pinned commit is shown to violate Agree in the model (sensitivity).",
   note="Trusted: TLC, PlushSem.tla. Text that opens a tag from raw bytes is only checked for totality (its meaning depends on the tag's contents).",
   design="§6 C02"),
 "C19": dict(
   technique="TLC explicit-state model checking of the iterator machines Ranger.tla (W-bit wrap-around integers, liveness Terminates) and GroupBy.tla (partition invariants, liveness), every (kind,a,b)/(len,n) replayed on the real helpers (both groupBy implementations, direct and through template for loops)",
   text="Exhaustive within the bound: range/between/until over ALL pairs of 4-bit (quick) / 5-bit (thorough) integers with the values next to the extremes mapped to math.MinInt/MaxInt; TLC checks PrefixOK, Exact and termination on the machine; real iterators compared with the declarative interval (first 40 values + exhaustion). groupBy for len 0..20 (quick) / 0..40 (thorough) x n -1..12: TLC checks Partition, YieldsAll, ErrorIffBadN, termination; real groups from both implementations over 7 container/element types must equal the model's. len() over 13 kinds.",
   note="Trusted: TLC, mapping of W-bit extremes to int extremes. Interior values beyond the W-bit range are not explored.",
   design="§6 C19"),
 "C20": dict(
   technique="TLC explicit-state model checking of the transcribed truncate algorithm over character classes (Truncate.tla, invariants Unchanged/PrefixTrail) with every case replayed on real text.Truncate; TLC-enumerated class strings and JSON values (StrGen.tla) for htmlEscape/jsEscape/raw/toJSON with the statement checked on the real results",
   text="Exhaustive within the bound: truncate for all s of length <=4 (quick) / <=6 (thorough) over {ASCII, multi-byte, combining, invalid byte} x size in [-2, N+6] x trails of length 0..4 / 0..8 (22k / 740k cases): real result equals the model's and satisfies the statement (byte prefix at a character boundary + trail, bounded length). All strings of length <=3 / <=4 over 15 character classes for htmlEscape (no raw specials, every & an entity, decodes back), jsEscape (no raw < > & =, no unescaped quote or line break), raw (byte identity through a template). 555 JSON values: toJSON is valid JSON, decodes back to the value, has no raw < > &.",
   note="Encode/decode fidelity is decided by Go's decoders on TLC-generated inputs, not by the model (stated limit of the technique, DESIGN §7). Strings longer than the bound and sizes up to 70 are not enumerated.",
   design="§6 C20"),
 "C13": dict(
   technique="TLC explicit-state model checking of the cache/template machine (Cache.tla, CacheMC.tla: invariants OwnText, SameSource, action property Immutable) with every history replayed on the real Parse/Render/Exec/Clone API over a corpus of TLC-generated programs; TLC trace validation (CacheTrace.tla) of Parse/CacheSet events recorded by the verif hooks from the repository's tests",
   text="Exhaustive within the bound: every history of <=3 (quick) / <=4 (thorough) operations {Parse, Render, Exec, Clone, Toggle} over 3 texts x 2 data sets plus seeded random walks; on the real code the outcome of each Parse (fresh / hit / inserted) must be the model's, all results for equal (text, data) must be identical (output, error text, helper-call order), and the deep structural hash of the parsed program (verif accessor) must be unchanged by every Exec. Every corpus program (about 200 quick / 2400 thorough, from the loop/fault/scope/text/function/route generators plus hash literals with side effects and duplicate keys) is executed 8 times over fresh parse, repeated Exec, Clone, cache cold/warm. The repository suite's cache events are accepted by the trace spec; a corrupted trace is rejected.",
   note="Trusted: TLC, the reflection-based tree hash, the hooks. Go map iteration order dependence is caught probabilistically (8 executions). Programs that loop over Go maps are compared as sets in C08 and excluded here.",
   design="§6 C13"),
 "C14": dict(
   technique="TLC explicit-state model checking of all interleavings of lock/access micro-steps (Concurrency.tla: NoRace, InsertOnce, deadlock freedom, liveness Finishes); every operation mix emitted by TLC run as real goroutines in a Go race-detector (-race) build of the conformance driver, plus corpus templates executed from 2-32 goroutines with results compared with sequential execution",
   text="Exhaustive within the bound: all assignments of 8 operations to 2 goroutines x 1 operation (quick; + 3 goroutines x 1 and 2 goroutines x 2 operations thorough) with every interleaving of their lock / begin-access / end-access steps; the unlocked-read variant of the pinned commit and a split-lock Parse are shown to violate the invariants. On the real code every distinct mix runs as 2 real goroutines per model goroutine for 1500 rounds under the race detector; corpus templates (loops, scopes, partials, faults; more generators in thorough) run from 2/8/32 goroutines with own child contexts of a shared parent or own roots, cache off/on: any race report, runtime abort, panic or result differing from the sequential result is a violation.",
   note="Race freedom of the implementation is observed by the race detector on the schedules that occur (probabilistic); the model decides the design's lock discipline for all interleavings. Needs cgo (race detector) - present in this sandbox.",
   design="§6 C14"),
 "C03": dict(
   technique="TLC explicit-state model checking of the parser's control skeleton (ParserCtl.tla, PlusCal: invariant NoPanic, liveness Termination for every token string up to K; as-built variant refuted) with every model input parsed by the real parser and the predicted error / no-error class compared; TLC enumeration of token sequences in every tag framing (Soup.tla, BFS exhaustive + seeded simulation) replayed into the real Parse/Render under a watchdog; harness-side byte mutations of TLC-generated well-formed programs and deep nestings",
   text="Exhaustive within the bound: every sequence of <=2 tokens over 50 token classes and <=3 tokens over 30 classes (quick; <=3 over 50 and <=4 over 30 thorough: about 1M sequences) x 5 framings, plus seeded random soup of up to 30 tokens (every successor of every visited state), 40 (quick) / 200 (thorough) byte-level mutations of each of 240 / 2400 generated programs, and 16 bracketing constructs nested to depth 256. Oracle: Parse and Render return within 3 s and do not panic.",
   note="ParserCtl.tla: every token string of length <= 2 over the full class vocabulary (quick; <= 3 reduced, <= 5 tiny vocabulary thorough) x 4 continuations; NoPanic and Termination hold with the repaired guards and are refuted for the pinned commit's parser; the model's error / no-error prediction equals the real parser's on all inputs (drift would be reported). Beyond the skeleton the verdict is enumeration and observation of the real parser. Inputs outside the enumerated token classes are only reached by mutations.",
   design="§6 C03"),
 "C04": dict(
   technique="TLC enumeration of the kind matrices (GenKinds.tla) replayed into real plush.Render with a Go value per kind; TLC model checking of the transcribed index/update/append/len decision procedures (IndexGuards.tla, invariant NoPanic: guards imply reflect preconditions) with every cell replayed and the predicted ok/error class compared",
   text="Exhaustive: about 105k cells = 119 template forms over free variables instantiated with every tuple of 41 value kinds (operators, index read, index assignment, members and methods incl. nil receivers, iteration, calls with 0-3 arguments / blocks / wrong arity, 40 built-in helper forms, sinks). Oracle: Render returns output or an error, never a panic or hang. IndexGuards.tla: 1278 (container, index, value) cells; TLC proves NoPanic for the repaired guards and refutes it for the checks of the pinned commit; the real code's ok/error class equals the model's prediction on every cell (no drift).",
   note="One representative value per kind; random programs over the kind pool are not generated yet. Panics raised inside user-supplied methods are not attributed to plush.",
   design="§6 C04"),
 "C12": dict(
   technique="TLC explicit-state model checking of the transcribed argument-binding code against the declarative binding rule (CallBinding.tla, invariant Agree) over the signature family x call shapes; every cell replayed into real plush with a reflect.MakeFunc recorder and probe-wrapped arguments",
   text="Exhaustive within the bound: 300 (quick) / 1176 (thorough) signatures (0..1 / 0..2 fixed parameters of 4 types, +/- options map, +/- helper context by struct or interface type, 6 result shapes; variadic ...string / ...interface{}) x all calls with 0..3 / 0..4 arguments of 5 kinds x +/- block: 62k / 1.8M cells. TLC: the transcription of evalCallExpression's binding equals the declarative expectation wherever the statement determines it; the pinned commit's variadic nil handling violates it. Real code: invoked-or-not, each received argument (value / zero value / auto-supplied empty map / helper context with HasBlock and rendered block), arguments evaluated once left to right, first result as value, failing error result wraps and empties the output.",
   note="Calls omitting an ordinary parameter (zero-filled by the code) are unspecified. Signatures with 3 fixed parameters are not enumerated.",
   design="§6 C12"),
 "C11": dict(
   technique="TLC explicit-state exploration of a path walker over a self-describing data graph (GenPaths.tla, invariants NavTheorem/FailTheorem on the reference semantics); every path prefix replayed into real plush.Render over the same graph built from real Go types",
   text="Exhaustive within the bound: all navigations of <=3 (quick) / <=7 (thorough) steps from 4 roots over 3 struct types (fields, nil pointers, slices, slices of pointers, arrays, maps, value/pointer-receiver methods returning strings, structs, pointers, nil), steps = field (existing/missing/unexported/through nil), index (literal and variable, out of range), map key (present/missing), method call; 3 uses each. Real code: a completed navigation must render exactly the leaf that spells that Go path (computed by the harness from the Go navigation itself), an impossible one must be an error or empty output; never another leaf, never a panic.",
   note="Trusted: the harness's Go graph mirrors the spec's graph (mismatch would show as failures on the unchanged tree). Methods with arguments and paths inside index expressions are not walked.",
   design="§6 C11"),
 "C17": dict(
   technique="TLC explicit-state enumeration of bodies x composition mechanisms x content types (GenCompose.tla) over the reference semantics with InlineTheorem (composed = inline, a program transformation) and FrameTheorem as invariants; composed and inlined programs replayed into real plush.Render",
   text="Exhaustive within the bound: bodies of <=2 (quick) / <=3 (thorough) of 9 item kinds x 17 mechanisms (partials with/without data, extensions, one/two layouts, layout under javascript, nested partial, contentFor/contentOf once, twice with different data, redefined, default block, undefined name, unused default, block helpers with caller's / own context, string-returning block helper) x 3 content types: 4.6k / 42k programs, each with its inlined equivalent where one exists. Real output must equal the model's for composed and inlined source (JavaScript escaping per character as Go's template.JSEscapeString).",
   note="Trusted: PlushSem.tla's composition rules (child scope, data, trusted result, layout recursion, contentFor closure in the defining scope). JS escaping is modelled per character class as the pinned Go toolchain does it.",
   design="§6 C17"),
 "C18": dict(
   technique="TLC explicit-state enumeration of layouts of canonical token lists (GenLayout.tla: every single-position variation exhaustively, seeded random full layouts by simulation) with SameTokens as invariant and the reference semantics' meaning of the canonical program as expectation; canonical and laid-out sources replayed into real plush.Render. TLC model checking of the transcribed in-tag scanner (InsideLex.tla, invariant LayoutInsensitive over token words x separators), bound to lexer.go by scanning every short string with the real lexer (types, literals, line numbers) and every (laid out, canonical) word pair",
   text="11 programs covering all statement kinds; every layout that differs from the canonical printing in exactly one position (separator inside a tag x {space, tab, newline, CR LF, two spaces, # comment, nothing next to a delimiter}; adjacent code tags x {keep, merge with newline / semicolon / space}; comment tag after a tag end): 1.5k layouts exhaustively, plus 300 (quick) / 6000 (thorough) seeded random layouts differing in every position. Real output of canonical and laid-out source must both equal the model's. InsideLex.tla: token words <= 2 (quick) / 3 (thorough, 3.4M states) from a 25-word vocabulary x 6 separators after each word: same (type, literal) sequence as with single spaces; all 22.8k (quick) / 637k (thorough) strings of <= 3 / 4 of 28 characters scanned by the real lexer give the machine's tokens.",
   note="The program set is fixed (11 programs); layouts never remove a separator between two tokens (the property's exception for - and . is therefore not exercised).",
   design="§6 C18"),
 "C15": dict(
   technique="TLC explicit-state enumeration of multi-line templates with one failing tag (GenLines.tla) with the expected line computed declaratively in the model, ErrTheorem (reference semantics reports an error) and ShiftTheorem as invariants; every case replayed into real plush.Render, unshifted and shifted by k newlines",
   text="Exhaustive within the bound: up to 1 (quick) / 3 (thorough) of 12 line-occupying items before one failing tag of 16 kinds (10 run-time faults, 6 syntax errors) in 11 placements: 2.2k / 320k templates. Real code: Render fails, the error starts with 'line N:' with N = 1 + newlines before the failing tag (the outer calling tag for a fault inside a partial), failing helpers stay wrapped, and for k in {1, 2, 7, 100} the shifted template yields the identical error with every own line number increased by exactly k.",
   note="The failing tag itself is on one line, so the statement's 'first line of the tag' and 'line of the failing token' coincide; inputs ending inside an unterminated string are not generated.",
   design="§6 C15"),
}

NOT_YET = "check not built yet in this session (work in progress, see DESIGN.md §8)"

def main():
    props = [json.loads(l)["id"] for l in open("/verif/properties.jsonl")]
    checks = []
    for pid in props:
        if pid not in CHECKS: continue
        c = CHECKS[pid]
        checks.append({
            "property_id": pid,
            "quick_cmd": f"bin/check {pid} --tier quick",
            "thorough_cmd": f"bin/check {pid} --tier thorough",
            "evidence_file": f"/verif/evidence/{pid}.json",
            "replay_cmd_template": f"bin/check {pid} --replay {{path}}",
            "engine": "tlc+go-conformance",
            "level_claimed": {"category": "model_checking", "text": c["text"], "design_ref": c["design"]},
            "level_note": c["note"],
            "technique": c["technique"],
        })
    na = [{"property_id": p, "reason": NOT_YET} for p in props if p not in CHECKS]
    hooks = subprocess.run(["git","-C","/repo","log","--format=%h %s"],capture_output=True,text=True).stdout.splitlines()
    hook_commits = [l.split()[0] for l in hooks if l.split(" ",1)[1].startswith("verif:")]
    m = {
      "version": 1,
      "setup_cmd": "cd /verif && sh bin/setup",
      "hooks": {"guard": "verif", "enable": "go build -tags verif (bin/check builds the harness against /repo with the tag on)",
                "baseline_off_cmd": BASE_OFF, "source_commits": hook_commits, "add_only": True},
      "engines": [{"name": "tlc+go-conformance", "path": "/verif/bin/check",
                   "serves_properties": [c["property_id"] for c in checks],
                   "kind_free_text": "explicit TLA+ specifications under /verif/spec checked with TLC; TLC-generated cases/behaviours replayed into the real code by /verif/harness (Go, linked against /repo's working tree with -tags verif); traces recorded from the real code validated by TLC trace specifications"}],
      "checks": checks,
      "not_applicable": na,
      "notes": "Every check rebuilds the harness from /repo's current working tree. VERIF_SEED seeds TLC simulation and Go-side instantiation. Exit 0 held / 1 VIOLATION / 2 inconclusive (tooling). known_findings.json lists recorded findings and fixed defects.",
    }
    json.dump(m, open("/verif/MANIFEST.json","w"), indent=1)
    print("MANIFEST.json:", len(checks), "checks,", len(na), "not applicable")

main()
