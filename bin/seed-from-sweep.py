#!/usr/bin/env python3
"""bin/seed-from-sweep.py <sweep log>: writes the outcome lines of a bin/mutant-sweep run into the meta.json of the seeded changes."""
import json, re, sys
for l in open(sys.argv[1]):
    m = re.match(r"SWEEP (C\d\d-\d+) (exit=(\d+)|patch-does-not-apply)(.*)", l)
    if not m:
        continue
    sid = m.group(1); p = f"/verif/seeded/{sid}/meta.json"
    d = json.load(open(p))
    if d.get("neutralised"):
        continue
    if m.group(3) is None:
        d["checked_with"] = {"cmd": "bin/mutant-sweep quick", "exit": 2, "output": l.strip()}
        d["detected_by_quick_check"] = None
        d["stale"] = "the patch does not apply to the current /repo HEAD (its context was changed by later fix: commits)"
    else:
        rc = int(m.group(3))
        d["checked_with"] = {"cmd": "bin/mutant-sweep quick", "exit": rc, "output": l.strip()[:200]}
        d["detected_by_quick_check"] = rc == 1
        d.pop("stale", None)
    json.dump(d, open(p, "w"), indent=1)
