#!/usr/bin/env python3
"""bin/seed-add.py <src mutant dir> <PROP> <n> <demo dir> <needs text>
Copies a confirmed seeded change into /verif/seeded/<PROP>-<n>/ and writes meta.json after re-running
bin/mutant-confirm and bin/mutant-run (quick) on it."""
import sys, os, shutil, subprocess, json, re
src, prop, n, demodir, needs = sys.argv[1:6]
dst = f"/verif/seeded/{prop}-{n}"
os.makedirs(dst, exist_ok=True)
for f in ("patch.diff", "demo_test.go", "README.md"):
    if os.path.exists(os.path.join(src, f)):
        shutil.copy(os.path.join(src, f), os.path.join(dst, f))
conf = subprocess.run(["/verif/bin/mutant-confirm", dst, demodir], capture_output=True, text=True)
m = re.search(r"RESULT (.*)", conf.stdout)
run = subprocess.run(["/verif/bin/mutant-run", os.path.join(dst, "patch.diff"), prop], capture_output=True, text=True)
line = [l for l in run.stdout.splitlines() if l.startswith("MUTANT")]
meta = {
 "breaks_property": prop,
 "needs_to_manifest": needs,
 "demo_goes_in": demodir,
 "confirmed": {"cmd": f"bin/mutant-confirm seeded/{prop}-{n} {demodir}", "result": m.group(1) if m else conf.stdout[-200:],
               "meaning": "in a scratch worktree of /repo HEAD: patch applies and builds, `go test ./...` passes with it, the demonstration test fails with it and passes without it"},
 "checked_with": {"cmd": f"bin/mutant-run seeded/{prop}-{n}/patch.diff {prop}", "exit": run.returncode, "output": line[0] if line else run.stdout[-300:]},
 "detected_by_quick_check": run.returncode == 1,
}
json.dump(meta, open(os.path.join(dst, "meta.json"), "w"), indent=1)
print(prop, n, meta["confirmed"]["result"], "| detected:", meta["detected_by_quick_check"])
