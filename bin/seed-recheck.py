#!/usr/bin/env python3
"""bin/seed-recheck.py <ID-n>...: re-runs bin/mutant-run (quick) for stored seeded changes and updates their meta.json."""
import json, os, subprocess, sys
for sid in sys.argv[1:]:
    d = f"/verif/seeded/{sid}"; prop = sid.split("-")[0]
    run = subprocess.run(["/verif/bin/mutant-run", os.path.join(d, "patch.diff"), prop], capture_output=True, text=True)
    line = [l for l in run.stdout.splitlines() if l.startswith("MUTANT")]
    m = json.load(open(d + "/meta.json"))
    if m.get("neutralised"):
        print(sid, "neutralised (meta left as it is); now:", run.returncode, (line[0] if line else "")[:120]); continue
    m["checked_with"] = {"cmd": f"bin/mutant-run seeded/{sid}/patch.diff {prop}", "exit": run.returncode, "output": line[0] if line else run.stdout[-300:]}
    m["detected_by_quick_check"] = run.returncode == 1
    json.dump(m, open(d + "/meta.json", "w"), indent=1)
    print(sid, "exit", run.returncode, (line[0] if line else run.stdout[-200:])[:170])
