package main

import (
	"encoding/json"
	"fmt"
	"time"

	"github.com/gobuffalo/plush/v5/lexer"
)

// InsideLex.tla: the scanner inside code tags as a machine.
//  - chars mode: every string over the alphabet up to length K; the real lexer must yield the
//    machine's tokens (types, literals, line numbers). A difference means the machine no longer
//    describes lexer.go (drift, recorded in the evidence): the theorem LayoutInsensitive proved
//    by TLC on the machine then does not carry over, which is why
//  - words mode also sends every (laid out, canonical) pair to the real lexer: two layouts of the
//    same token words that scan to different tokens are a violation of C18 in the real code.

type lexTok struct {
	Type string   `json:"type"`
	Lit  []string `json:"lit"`
	Line int      `json:"line"`
}

type lexCase struct {
	Gen   string   `json:"gen"`
	S     []string `json:"s"`
	Toks  []lexTok `json:"toks"`
	Laid  []string `json:"laid"`
	Canon []string `json:"canon"`
}

var lexTypeNames = map[string]string{"E_END": "%>", "S_START": "<%", "C_START": "<%#", "E_START": "<%=", "LBR": "{", "RBR": "}"}

type realTok struct {
	Type, Lit string
	Line      int
}

// realLex scans "<%"+body with the real lexer up to the first %> or EOF.
func realLex(body string) (toks []realTok, panicked string) {
	defer func() {
		if r := recover(); r != nil {
			panicked = fmt.Sprint(r)
		}
	}()
	l := lexer.New("<%" + body)
	for i := 0; i < 4*len(body)+16; i++ {
		t := l.NextToken()
		toks = append(toks, realTok{string(t.Type), t.Literal, t.LineNumber})
		if t.Type == "EOF" || t.Type == "%>" {
			return
		}
	}
	return toks, "scan did not end"
}

func sideLex(c *Ctx, raw json.RawMessage) {
	var lc lexCase
	if err := json.Unmarshal(raw, &lc); err != nil {
		c.Fail("harness:json", err.Error(), string(raw))
		return
	}
	if lc.Gen == "InsideLexW" {
		laid, canon := decodeChars(lc.Laid), decodeChars(lc.Canon)
		c.Eval("lexw:" + laid)
		c.Rule("lexer:layout")
		a, pa := realLex(laid)
		b, pb := realLex(canon)
		if pa != "" || pb != "" {
			c.Drift("lexer:panic")
			return
		}
		same := len(a) == len(b)
		for i := 0; same && i < len(a); i++ {
			same = a[i].Type == b[i].Type && a[i].Lit == b[i].Lit
		}
		if !same {
			c.Fail("lexer:layout", fmt.Sprintf("the same token words scan differently: %q gives %v, %q gives %v", "<%"+laid, a, "<%"+canon, b),
				map[string]interface{}{"gen": lc.Gen, "laid": lc.Laid, "canon": lc.Canon})
		}
		return
	}
	body := decodeChars(lc.S)
	c.Eval("")
	c.Rule("lexer:machine")
	got, p := realLex(body)
	if p != "" {
		c.Drift("lexer:panic")
		return
	}
	if len(got) != len(lc.Toks) {
		c.Drift("lexer:machine:tokens")
		c.noteDrift(fmt.Sprintf("%q: machine %v, lexer %v", "<%"+body, lc.Toks, got))
		return
	}
	for i, t := range lc.Toks {
		ty := t.Type
		if v, ok := lexTypeNames[ty]; ok {
			ty = v
		} else if v, ok := charNames[ty]; ok {
			ty = v
		}
		if ty != got[i].Type || decodeChars(t.Lit) != got[i].Lit {
			c.Drift("lexer:machine:tokens")
			c.noteDrift(fmt.Sprintf("%q: token %d: machine %s %q, lexer %s %q", "<%"+body, i, ty, decodeChars(t.Lit), got[i].Type, got[i].Lit))
			return
		}
		if t.Line != got[i].Line {
			c.Drift("lexer:machine:line")
			c.noteDrift(fmt.Sprintf("%q: token %d (%s): machine line %d, lexer line %d", "<%"+body, i, ty, t.Line, got[i].Line))
			return
		}
	}
	c.Drift("lexer:machine:agrees")
}

// lexMachine runs InsideLex.tla: theorem on the machine, conformance of the machine, and the
// real-code layout relation on token words.
func lexMachine(c *Ctx, feed func(json.RawMessage)) error {
	chars, words, theorem := "InsideLex.quick.cfg", "InsideLex.words2.cfg", ""
	if c.Thorough() {
		chars, theorem = "InsideLex.thorough.cfg", "InsideLex.words.cfg"
	}
	if _, err := c.mustTLC("InsideLex/"+chars, TLCOpts{Module: "InsideLex", Cfg: chars, Workers: 8, Seed: c.Seed, Timeout: 30 * time.Minute}, true, feed); err != nil {
		return err
	}
	if _, err := c.mustTLC("InsideLex/"+words, TLCOpts{Module: "InsideLex", Cfg: words, Workers: 8, Seed: c.Seed, Timeout: 30 * time.Minute}, true, feed); err != nil {
		return err
	}
	if theorem != "" {
		if _, err := c.mustTLC("InsideLex/"+theorem, TLCOpts{Module: "InsideLex", Cfg: theorem, Workers: 12, Seed: c.Seed, Timeout: 30 * time.Minute, NoCases: true}, true, nil); err != nil {
			return err
		}
		if _, err := c.mustTLC("InsideLex/InsideLex.wordsim.cfg", TLCOpts{Module: "InsideLex", Cfg: "InsideLex.wordsim.cfg", Workers: 1, Simulate: 400, Depth: 8, Seed: c.Seed, Timeout: 30 * time.Minute}, false, feed); err != nil {
			return err
		}
	}
	return nil
}
