package main

import (
	"encoding/json"
	"fmt"
	"time"

	"github.com/gobuffalo/plush/v5"
)

// C02 — output = literal text verbatim + values of <%= %> tags, in source order.
//
//  (a) TextLex.tla: every string up to length K over single bytes and macro tags; TLC checks that
//      the implementation-shaped scanner (Layer B) equals the declarative segmentation (Layer A)
//      and emits every string with the DECLARATIVE expected output; real plush must render exactly
//      those bytes.
//  (b) GenText.tla: literal segments interleaved with output tags (string literals with arbitrary
//      contents), silent tags and comments, at top level and inside blocks, over the reference
//      semantics.

type textCase struct {
	Src    []string `json:"src"`
	Expect struct {
		K    string   `json:"k"`
		Text []string `json:"text"`
	} `json:"expect"`
	Agree bool `json:"agree"`
}

func init() { register("C02", checkC02) }

var c02Sem = semSpec{
	ID: "C02", Module: "GenText", CheckLog: false,
	Quick:    []semRun{{Cfg: "GenText.quick.cfg", Workers: 8}},
	Thorough: []semRun{{Cfg: "GenText.thorough.cfg", Workers: 12}},
}

func checkC02(c *Ctx) error {
	c.ruleText = "(a) TextLex.tla: every string of length <= K over 8 single bytes (backslash, <, %, >, =, a, newline, quote) and 3 macro symbols standing for whole tags (<%= 1 %>, <% 1 %>, <%# c %>); TLC checks Agree (byte-level scanner as in lexer.readHTML = declarative segmentation of the property) and Identity; each string is rendered by real plush and compared byte for byte with the declarative expectation (strings that open a tag from raw bytes are only checked for totality). (b) GenText.tla: interleavings of literal segments, output tags holding string literals with arbitrary contents, silent tags, comment tags, at top level and inside if / for / function / block-helper bodies, expected output from the reference semantics. distinct_nontrivial = distinct inputs with a specified outcome that contain a backslash, a tag or a quote."
	if c.ReplayPath != "" {
		return replayFile(c, func(raw json.RawMessage) {
			var probe struct {
				Gen string `json:"gen"`
			}
			json.Unmarshal(raw, &probe)
			if probe.Gen == "TextLex" {
				c02Text(c, raw)
			} else {
				semRunCase(c, &c02Sem, raw)
			}
		})
	}
	pool := newPool(12, func(raw json.RawMessage) { c02Text(c, raw) })
	cfg := "TextLex.quick.cfg"
	if c.Thorough() {
		cfg = "TextLex.thorough.cfg"
	}
	_, err := c.mustTLC("TextLex/"+cfg, TLCOpts{Module: "TextLex", Cfg: cfg, Workers: 12, Seed: c.Seed, Timeout: 40 * time.Minute}, true, pool.feed)
	pool.close()
	if err != nil {
		return err
	}
	// model sensitivity: the scanner as it was at the pinned commit must be distinguishable
	r, err := RunTLC(TLCOpts{Module: "TextLex", Cfg: "TextLex.asbuilt.cfg", Workers: 4, Seed: c.Seed, Timeout: 10 * time.Minute, NoCases: true}, nil)
	if err != nil {
		return err
	}
	c.extra["model_sensitivity"] = fmt.Sprintf("TextLex.tla with AsBuilt=TRUE (readHTML of the pinned commit): TLC reports %q", r.Violated)
	if r.Violated == "" {
		return fmt.Errorf("TextLex.tla no longer distinguishes the as-built scanner")
	}
	rule := c.ruleText
	err = runSemSpec(c, &c02Sem)
	c.ruleText = rule
	return err
}

func c02Text(c *Ctx, raw json.RawMessage) {
	var tc textCase
	if err := json.Unmarshal(raw, &tc); err != nil {
		c.Fail("harness:json", err.Error(), string(raw))
		return
	}
	src := decodeChars(tc.Src)
	interesting := false
	for _, s := range tc.Src {
		if s == "BSL" || s == "PCT" || s == "QUOT" {
			interesting = true
		}
	}
	shape := ""
	if interesting && tc.Expect.K == "out" {
		shape = src
	}
	c.Eval(shape)
	c.Rule("text:" + tc.Expect.K)
	o := guarded(5*time.Second, func() (string, error) { return plush.Render(src, plush.NewContext()) })
	if shape != "" && len(tc.Src) >= 4 {
		c.Sample(map[string]interface{}{"source": src, "expected": decodeChars(tc.Expect.Text), "observed": o})
	}
	cas := map[string]interface{}{"gen": "TextLex", "src": tc.Src, "expect": tc.Expect, "agree": tc.Agree, "source_text": src, "observed": o}
	switch {
	case o.Hang:
		c.Drift("hang") // totality is C03's verdict
	case o.Panic != "":
		c.Drift("panic@" + o.Site)
	case tc.Expect.K == "unspec":
	case o.IsErr:
		c.Fail("text:error", fmt.Sprintf("%q: expected output %q, got error %s", src, decodeChars(tc.Expect.Text), trunc(o.Err, 100)), cas)
	case o.Out != decodeChars(tc.Expect.Text):
		c.Fail("text:"+c02Class(tc.Src), fmt.Sprintf("%q: expected %q, rendered %q", src, decodeChars(tc.Expect.Text), o.Out), cas)
	}
}

// c02Class names the shape of a text input: which escape-like byte groups it contains.
func c02Class(src []string) string {
	s := ""
	for _, t := range src {
		switch t {
		case "BSL":
			s += "\\"
		case "<", "PCT":
			s += decodeChars([]string{t})
		default:
			if len(s) == 0 || s[len(s)-1] != '.' {
				s += "."
			}
		}
	}
	return s
}
