package main

import (
	"encoding/json"
	"fmt"
	"html/template"
	"strings"
	"time"

	"github.com/gobuffalo/plush/v5"
)

// WriteOf.tla bound to compiler.write: every value of the machine is built from real Go types (eight method sets x
// value / pointer / nil pointer, lists, wrappers) and printed by an output tag; the output must be the machine's pieces.
//
// A difference is a VIOLATION of C01 only where the statement speaks: a Go string that reaches the output raw, or a value
// made only of strings / booleans / trusted HTML / nil pointers / lists of those printed otherwise than "data escaped,
// trusted verbatim once, in order". Everything else the machine describes (numbers, Stringers, time values, wrappers,
// defined string types) is as-built behaviour: a difference there is drift of the machine, not a verdict.

type woVal struct {
	K     string   `json:"k"`
	Meths []string `json:"meths"`
	Mode  string   `json:"mode"`
	Inner *woVal   `json:"inner"`
	IsNil bool     `json:"isnil"`
	Xs    []woVal  `json:"xs"`
}

type woCase struct {
	V      woVal   `json:"v"`
	Pieces []piece `json:"pieces"`
}

const woStr, woHTML, woObjHTML, woObjString = "p<&q", "<b>", "<i>h", "s<t"

type woRole string

type wo0 struct{ inner interface{} }
type woS struct{ inner interface{} }
type woH struct{ inner interface{} }
type woHS struct{ inner interface{} }
type woI struct{ inner interface{} }
type woIS struct{ inner interface{} }
type woIH struct{ inner interface{} }
type woIHS struct{ inner interface{} }

func (woS) String() string             { return woObjString }
func (woH) HTML() template.HTML        { return woObjHTML }
func (woHS) HTML() template.HTML       { return woObjHTML }
func (woHS) String() string            { return woObjString }
func (w woI) Interface() interface{}   { return w.inner }
func (w woIS) Interface() interface{}  { return w.inner }
func (woIS) String() string            { return woObjString }
func (w woIH) Interface() interface{}  { return w.inner }
func (woIH) HTML() template.HTML       { return woObjHTML }
func (w woIHS) Interface() interface{} { return w.inner }
func (woIHS) HTML() template.HTML      { return woObjHTML }
func (woIHS) String() string           { return woObjString }

func woBuild(v *woVal) interface{} {
	if v == nil {
		return nil
	}
	switch v.K {
	case "nil":
		return nil
	case "str":
		return woStr
	case "bool":
		return true
	case "html":
		return template.HTML(woHTML)
	case "int":
		return 42
	case "float":
		return 1.5
	case "uint8":
		return uint8(7)
	case "time":
		return time.Date(2024, 3, 5, 10, 30, 0, 0, time.UTC)
	case "ptrtime":
		if v.IsNil {
			return (*time.Time)(nil)
		}
		t := time.Date(2024, 3, 5, 10, 30, 0, 0, time.UTC)
		return &t
	case "defstr":
		return woRole("r<")
	case "other":
		return map[string]int{"a": 1}
	case "strs":
		return []string{woStr, "z"}
	case "anys":
		xs := make([]interface{}, 0, len(v.Xs))
		for i := range v.Xs {
			xs = append(xs, woBuild(&v.Xs[i]))
		}
		return xs
	case "obj":
		in := woBuild(v.Inner)
		key := ""
		for _, m := range []string{"Interface", "HTML", "String"} {
			for _, h := range v.Meths {
				if h == m {
					key += m[:1]
				}
			}
		}
		n := v.Mode == "nilptr"
		p := v.Mode != "val"
		switch key {
		case "":
			return woPick(n, p, wo0{in}, &wo0{in}, (*wo0)(nil))
		case "S":
			return woPick(n, p, woS{in}, &woS{in}, (*woS)(nil))
		case "H":
			return woPick(n, p, woH{in}, &woH{in}, (*woH)(nil))
		case "HS":
			return woPick(n, p, woHS{in}, &woHS{in}, (*woHS)(nil))
		case "I":
			return woPick(n, p, woI{in}, &woI{in}, (*woI)(nil))
		case "IS":
			return woPick(n, p, woIS{in}, &woIS{in}, (*woIS)(nil))
		case "IH":
			return woPick(n, p, woIH{in}, &woIH{in}, (*woIH)(nil))
		case "IHS":
			return woPick(n, p, woIHS{in}, &woIHS{in}, (*woIHS)(nil))
		}
	}
	return nil
}

func woPick(isNil, isPtr bool, val, ptr, nilp interface{}) interface{} {
	if isNil {
		return nilp
	}
	if isPtr {
		return ptr
	}
	return val
}

// woStated: the value is made only of what C01 speaks about (strings, booleans, trusted HTML, nil pointers, lists of those).
func woStated(v *woVal) bool {
	if v == nil {
		return true
	}
	switch v.K {
	case "nil", "str", "bool", "html", "strs":
		return true
	case "ptrtime":
		return v.IsNil
	case "anys":
		for i := range v.Xs {
			if !woStated(&v.Xs[i]) {
				return false
			}
		}
		return true
	case "obj":
		if v.Mode == "nilptr" {
			return true
		}
		has := func(m string) bool {
			for _, h := range v.Meths {
				if h == m {
					return true
				}
			}
			return false
		}
		return has("HTML") && !has("Interface")
	}
	return false
}

func sideWriteOf(c *Ctx, raw json.RawMessage) {
	var wc woCase
	if err := json.Unmarshal(raw, &wc); err != nil {
		c.Fail("harness:json", err.Error(), string(raw))
		return
	}
	stated := woStated(&wc.V)
	shape := ""
	if stated {
		shape = "writeof:" + string(raw[:min(len(raw), 400)])
	}
	c.Eval(shape)
	c.Rule(map[bool]string{true: "writeof:stated", false: "writeof:as-built"}[stated])
	ctx := plush.NewContext()
	ctx.Set("x", woBuild(&wc.V))
	o := guarded(5*time.Second, func() (string, error) { return plush.Render("[<%= x %>]", ctx) })
	want := append(append([]piece{{K: "raw", S: []string{"["}}}, wc.Pieces...), piece{K: "raw", S: []string{"]"}})
	cas := map[string]interface{}{"gen": "WriteOf", "v": wc.V, "pieces": wc.Pieces, "observed": o}
	desc := fmt.Sprintf("<%%= x %%> with x = %#v", woBuild(&wc.V))
	switch {
	case o.Panic != "" || o.Hang:
		c.Fail("writeof:crash", fmt.Sprintf("%s: panic %q hang %v", trunc(desc, 200), o.Panic, o.Hang), cas)
	case !o.IsErr && strings.Contains(o.Out, woStr):
		c.Fail("writeof:data-emitted-raw", fmt.Sprintf("%s: the Go string %q reaches the output unescaped: %q", trunc(desc, 200), woStr, o.Out), cas)
	default:
		ok, why := false, "error: "+o.Err
		if !o.IsErr {
			ok, why = matchPieces(o.Out, want)
		}
		if ok {
			return
		}
		if stated {
			c.Fail("writeof:differs", fmt.Sprintf("%s rendered %q, expected %q (%s)", trunc(desc, 200), o.Out, expectedText(want), why), cas)
		} else {
			c.Drift("WriteOf.tla no longer describes compiler.write for as-built cases (numbers, Stringers, wrappers, time): " + trunc(desc, 120))
		}
	}
}

// writeMachine: TLC checks Agree (the switch as transcribed = the ranking of classes) and DataEscaped, emits every value;
// the three deviations of the switch must be refuted (the machine distinguishes the orders the statement cares about).
func writeMachine(c *Ctx, feed func(json.RawMessage)) error {
	cfg := "WriteOf.quick.cfg"
	if c.Thorough() {
		cfg = "WriteOf.thorough.cfg"
	}
	if _, err := c.mustTLC("WriteOf/"+cfg, TLCOpts{Module: "WriteOf", Cfg: cfg, Workers: 8, Seed: c.Seed, Timeout: 30 * time.Minute}, true, feed); err != nil {
		return err
	}
	for _, dev := range []string{"stringerFirst", "nilMethods", "ifaceLate"} {
		r, err := RunTLC(TLCOpts{Module: "WriteOf", Cfg: "WriteOf." + dev + ".cfg", Workers: 4, Seed: c.Seed, Timeout: 10 * time.Minute, NoCases: true}, nil)
		if err != nil {
			return err
		}
		if r.Violated == "" {
			return fmt.Errorf("WriteOf.tla no longer distinguishes the deviation %s", dev)
		}
	}
	return nil
}
