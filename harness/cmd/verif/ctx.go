package main

import (
	"crypto/sha1"
	"encoding/json"
	"fmt"
	"hash/fnv"
	"os"
	"path/filepath"
	"regexp"
	"sort"
	"sync"
	"sync/atomic"
	"time"
)

// verifRoot is the directory that holds spec/, evidence/, replay/, known_findings.json (bin/check sets VERIF_ROOT).
var verifRoot = envOr("VERIF_ROOT", "/verif")

// Ctx carries everything one check run accumulates: coverage counters for the
// evidence file, violations, known findings that were hit.
type Ctx struct {
	ID, Tier   string
	Seed       int64
	Start      time.Time
	ReplayPath string

	mu          sync.Mutex
	evals       int64
	shapes      map[uint64]struct{} // distinct non-trivial shapes (by 64-bit FNV hash: millions of long inputs do not fit as strings)
	rules       map[string]int64    // coverage by rule / action
	samples     []interface{}
	states      int64
	transitions int64
	traces      int64
	exhaustive  bool
	ruleText    string
	drift       map[string]int64
	assumptions []string
	extra       map[string]interface{}
	tlcRuns     []map[string]interface{}

	kept []*semCase // cases kept for the trace-validation pass

	violations []violation
	knownHit   map[string]string // finding id -> what
	findings   *findingsFile
}

type violation struct {
	Sig  string      `json:"signature"`
	Msg  string      `json:"message"`
	Case interface{} `json:"case"`
}

func newCtx(id, tier string, seed int64) *Ctx {
	c := &Ctx{ID: id, Tier: tier, Seed: seed, Start: time.Now(),
		shapes: map[uint64]struct{}{}, rules: map[string]int64{}, drift: map[string]int64{},
		knownHit: map[string]string{}, extra: map[string]interface{}{}, exhaustive: false,
		assumptions: []string{"TLC explores the stated bounded space completely; beyond it only seeded samples", "the TLA+ reference semantics (spec/PlushSem.tla) is the documented meaning"}}
	c.findings = loadFindings()
	return c
}

func (c *Ctx) Thorough() bool { return c.Tier == "thorough" }

// Eval counts one executed case; shape != "" marks it non-trivial with that shape.
func (c *Ctx) Eval(shape string) {
	c.mu.Lock()
	c.evals++
	if shape != "" {
		c.shapes[shapeKey(shape)] = struct{}{}
	}
	c.mu.Unlock()
}

func shapeKey(s string) uint64 {
	h := fnv.New64a()
	h.Write([]byte(s))
	return h.Sum64()
}

func (c *Ctx) Rule(r string) {
	c.mu.Lock()
	c.rules[r]++
	c.mu.Unlock()
}

func (c *Ctx) Drift(kind string) {
	c.mu.Lock()
	c.drift[kind]++
	c.mu.Unlock()
}

// noteDrift keeps a few examples of model/code drift for the evidence file.
func (c *Ctx) noteDrift(msg string) {
	c.mu.Lock()
	if ex, _ := c.extra["drift_examples"].([]string); len(ex) < 12 {
		c.extra["drift_examples"] = append(ex, msg)
	}
	c.mu.Unlock()
}

func (c *Ctx) Sample(s interface{}) {
	c.mu.Lock()
	if len(c.samples) < 8 {
		c.samples = append(c.samples, s)
	}
	c.mu.Unlock()
}

func (c *Ctx) AddTraces(n int64) {
	c.mu.Lock()
	c.traces += n
	c.mu.Unlock()
}

func (c *Ctx) Assume(s string) { c.assumptions = append(c.assumptions, s) }

// Fail records a failing case. sig is the failure signature (failure mode + shape)
// that known findings are matched against; anything not listed is a violation.
func (c *Ctx) Fail(sig, msg string, cas interface{}) {
	c.failLocked(sig, msg, cas)
	if atomic.LoadInt32(&runaway) == 1 {
		// a call that never returned is eating the memory: report what is known and leave now
		os.Exit(c.finish(nil))
	}
}

// runaway is set by the watchdog when a call that did not return keeps allocating.
var runaway int32

func (c *Ctx) failLocked(sig, msg string, cas interface{}) {
	c.mu.Lock()
	defer c.mu.Unlock()
	if f := c.findings.match(c.ID, sig); f != nil {
		c.knownHit[f.ID] = f.What
		return
	}
	// keep at most 20 distinct signatures, 3 cases each
	n := 0
	for _, v := range c.violations {
		if v.Sig == sig {
			n++
		}
	}
	if n >= 3 || len(c.violations) >= 400 {
		return
	}
	c.violations = append(c.violations, violation{sig, msg, cas})
}

func (c *Ctx) NumViolations() int {
	c.mu.Lock()
	defer c.mu.Unlock()
	return len(c.violations)
}

func (c *Ctx) finish(err error) int {
	wall := time.Since(c.Start).Seconds()
	if err != nil {
		fmt.Fprintf(os.Stderr, "INCONCLUSIVE property=%s: %v\n", c.ID, err)
		// still leave an evidence file describing what was covered, but the verdict is exit 2
		c.extra["inconclusive"] = err.Error()
		c.writeEvidence(wall)
		return 2
	}
	c.writeEvidence(wall)
	ids := []string{}
	for id := range c.knownHit {
		ids = append(ids, id)
	}
	sort.Strings(ids)
	for _, id := range ids {
		fmt.Printf("KNOWN-FINDING: property=%s %s [%s]\n", c.ID, c.knownHit[id], id)
	}
	if len(c.violations) == 0 {
		fmt.Printf("OK property=%s tier=%s seed=%d evaluations=%d distinct_nontrivial=%d states=%d wall=%.1fs\n",
			c.ID, c.Tier, c.Seed, c.evals, len(c.shapes), c.states, wall)
		return 0
	}
	dir := filepath.Join(verifRoot, "replay", c.ID)
	os.MkdirAll(dir, 0o755)
	for _, v := range c.violations {
		b, _ := json.MarshalIndent(v, "", " ")
		h := sha1.Sum(b)
		p := filepath.Join(dir, fmt.Sprintf("%x.json", h[:6]))
		os.WriteFile(p, b, 0o644)
		fmt.Printf("VIOLATION property=%s replay=%s\n", c.ID, p)
		fmt.Printf("  signature: %s\n  %s\n", v.Sig, v.Msg)
	}
	return 1
}

func (c *Ctx) writeEvidence(wall float64) {
	cov := map[string]interface{}{
		"evaluations":                   c.evals,
		"distinct_nontrivial":           len(c.shapes),
		"rule":                          c.ruleText,
		"samples":                       c.samples,
		"states":                        c.states,
		"transitions":                   c.transitions,
		"traces_validated_against_impl": c.traces,
		"exhaustive":                    c.exhaustive,
		"coverage_by_rule":              c.rules,
		"drift":                         c.drift,
		"tlc_runs":                      c.tlcRuns,
	}
	if len(c.samples) == 0 {
		cov["samples"] = []interface{}{"(no case executed)"}
	}
	kh := []string{}
	for id := range c.knownHit {
		kh = append(kh, id)
	}
	sort.Strings(kh)
	cov["known_findings_hit"] = kh
	for k, v := range c.extra {
		cov[k] = v
	}
	ev := map[string]interface{}{
		"property_id": c.ID,
		"tier":        c.Tier,
		"seed":        c.Seed,
		"level":       "model_checking",
		"coverage":    cov,
		"assumptions": c.assumptions,
		"wall_s":      wall,
		"violations":  len(c.violations),
	}
	b, _ := json.MarshalIndent(ev, "", " ")
	os.MkdirAll(filepath.Join(verifRoot, "evidence"), 0o755)
	os.WriteFile(filepath.Join(verifRoot, "evidence", c.ID+".json"), b, 0o644)
}

// ---------------------------------------------------------------- known findings

type finding struct {
	Property string `json:"property"`
	ID       string `json:"id"`
	Sig      string `json:"signature"` // regular expression, anchored
	What     string `json:"what"`
	Witness  string `json:"witness,omitempty"`
	re       *regexp.Regexp
}

type findingsFile struct {
	Findings []*finding `json:"findings"`
	Fixed    []string   `json:"fixed"`
}

func loadFindings() *findingsFile {
	ff := &findingsFile{}
	b, err := os.ReadFile(filepath.Join(verifRoot, "known_findings.json"))
	if err != nil {
		return ff
	}
	if err := json.Unmarshal(b, ff); err != nil {
		fmt.Fprintf(os.Stderr, "known_findings.json: %v\n", err)
		os.Exit(2)
	}
	for _, f := range ff.Findings {
		f.re = regexp.MustCompile("^(?:" + f.Sig + ")$")
	}
	return ff
}

func (ff *findingsFile) match(prop, sig string) *finding {
	for _, f := range ff.Findings {
		if f.Property == prop && f.re.MatchString(sig) {
			return f
		}
	}
	return nil
}
