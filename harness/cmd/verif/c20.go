package main

import (
	"bytes"
	"encoding/json"
	"fmt"
	"html"
	"html/template"
	"reflect"
	"strings"
	"time"
	"unicode/utf8"

	"github.com/gobuffalo/plush/v5"
	"github.com/gobuffalo/plush/v5/helpers/encoders"
	"github.com/gobuffalo/plush/v5/helpers/escapes"
	"github.com/gobuffalo/plush/v5/helpers/hctx"
	"github.com/gobuffalo/plush/v5/helpers/helptest"
	"github.com/gobuffalo/plush/v5/helpers/text"
)

// C20 — text and encoding helpers.
//
// Truncate.tla: the algorithm over character classes, all (s, size, trail) within the bound, with
// the statement of C20 as TLC invariants; each case is instantiated with concrete bytes and run on
// the real text.Truncate (directly and from a template); the result must equal the model's and
// satisfy the statement. StrGen.tla: strings for htmlEscape / jsEscape / raw and JSON values for
// toJSON; the statement is checked on the real results (fidelity is decided by Go's decoders).

type truncCase struct {
	S      []string `json:"s"`
	Size   int      `json:"size"`
	Trail  []string `json:"trail"`
	Result []string `json:"result"`
}

type strCase struct {
	Fam  string   `json:"fam"`
	S    []string `json:"s"`
	HTML []string `json:"html"`
	JS   []string `json:"js"`
	V    absVal   `json:"v"`
}

func init() {
	register("C20", checkC20)
	charNames["U2028"] = " "
	charNames["FFFD"] = "�"
}

func checkC20(c *Ctx) error {
	c.ruleText = "Truncate.tla: every s of length <= N over the classes {ASCII, multi-byte, combining mark, invalid UTF-8 byte} x size in [-2, N+6] x trails of length 0..MaxTrail (N=4, MaxTrail=4 quick: 22k; N=6, MaxTrail=8 thorough: 740k); TLC checks Unchanged and PrefixTrail on the transcribed algorithm; the real text.Truncate (direct call and <%= truncate(s, {size, trail}) %>) must return the model's result and satisfy the statement (unchanged / byte prefix of s ending at a character boundary + trail, at most max(size, len trail) characters). StrGen.tla: every string of length <= N over 15 character classes for htmlEscape, jsEscape and raw (statement checked on the real output; htmlEscape also equal to the model's), and 555 JSON values of depth <= 2 for toJSON (valid JSON, decodes back to v, no raw < > &). distinct_nontrivial = distinct truncations that actually cut, plus distinct strings containing a character that must be escaped, plus JSON values."
	run := func(raw json.RawMessage) {
		var probe struct {
			Gen string `json:"gen"`
		}
		json.Unmarshal(raw, &probe)
		if probe.Gen == "Truncate" {
			c20Trunc(c, raw)
		} else {
			c20Str(c, raw)
		}
	}
	if c.ReplayPath != "" {
		return replayFile(c, run)
	}
	pool := newPool(12, run)
	tc, sc := "Truncate.quick.cfg", "StrGen.quick.cfg"
	if c.Thorough() {
		tc, sc = "Truncate.thorough.cfg", "StrGen.thorough.cfg"
	}
	_, err := c.mustTLC("Truncate/"+tc, TLCOpts{Module: "Truncate", Cfg: tc, Workers: 12, Seed: c.Seed, Timeout: 30 * time.Minute}, true, pool.feed)
	if err == nil {
		_, err = c.mustTLC("StrGen/"+sc, TLCOpts{Module: "StrGen", Cfg: sc, Workers: 8, Seed: c.Seed, Timeout: 30 * time.Minute}, true, pool.feed)
	}
	pool.close()
	if err != nil {
		return err
	}
	c.exhaustive = true
	r, err := RunTLC(TLCOpts{Module: "Truncate", Cfg: "Truncate.asbuilt.cfg", Workers: 4, Seed: c.Seed, Timeout: 10 * time.Minute, NoCases: true}, nil)
	if err != nil {
		return err
	}
	c.extra["model_sensitivity"] = fmt.Sprintf("Truncate.tla with RewritesInvalid=TRUE (pinned commit): TLC reports %q", r.Violated)
	if r.Violated == "" {
		return fmt.Errorf("Truncate.tla no longer distinguishes the rune round trip")
	}
	return nil
}

func c20Trunc(c *Ctx, raw json.RawMessage) {
	var tc truncCase
	if err := json.Unmarshal(raw, &tc); err != nil {
		c.Fail("harness:json", err.Error(), string(raw))
		return
	}
	s, trail, want := decodeChars(tc.S), decodeChars(tc.Trail), decodeChars(tc.Result)
	cuts := len(tc.S) > tc.Size
	hasBad := false
	for _, ch := range tc.S {
		if ch == "BAD" {
			hasBad = true
		}
	}
	shape := ""
	if cuts {
		shape = fmt.Sprintf("%q/%d/%q", s, tc.Size, trail)
	}
	c.Eval(shape)
	c.Rule(map[bool]string{true: "cuts", false: "unchanged"}[cuts])
	var got, again, optsLeft string
	o := guarded(3*time.Second, func() (string, error) {
		// (one options map serves two calls: it is the caller's, the helper only reads it)
		opts := hctx.Map{"size": tc.Size, "trail": trail}
		got = text.Truncate(s, opts)
		again = text.Truncate(s, opts)
		optsLeft = fmt.Sprintf("%v/%v/%d", opts["size"], opts["trail"], len(opts))
		return "", nil
	})
	if cuts && len(tc.S) >= 3 && hasBad {
		c.Sample(map[string]interface{}{"s": s, "size": tc.Size, "trail": trail, "model_result": want, "real_result": got})
	}
	cas := map[string]interface{}{"gen": "Truncate", "s": tc.S, "size": tc.Size, "trail": tc.Trail, "result": tc.Result, "real": got}
	cls := "valid"
	if hasBad {
		cls = "invalid-utf8"
	}
	if o.Panic != "" || o.Hang {
		c.Fail("truncate:crash:"+cls, fmt.Sprintf("Truncate(%q, size %d, trail %q): panic %s", s, tc.Size, trail, o.Panic), cas)
		return
	}
	// the statement itself, on the real result
	nS, nT := charCount(s), charCount(trail)
	switch {
	case !cuts:
		if got != s {
			c.Fail("truncate:changed:"+cls, fmt.Sprintf("Truncate(%q, size %d) = %q: s has at most size characters and must come back unchanged", s, tc.Size, got), cas)
			return
		}
	default:
		if !strings.HasSuffix(got, trail) || !strings.HasPrefix(s, got[:len(got)-len(trail)]) {
			c.Fail("truncate:not-prefix-plus-trail:"+cls, fmt.Sprintf("Truncate(%q, size %d, trail %q) = %q is not a prefix of s followed by trail", s, tc.Size, trail, got), cas)
			return
		}
		p := got[:len(got)-len(trail)]
		if !boundary(s, len(p)) {
			c.Fail("truncate:split-char:"+cls, fmt.Sprintf("Truncate(%q, size %d, trail %q) = %q cuts inside a multi-byte character", s, tc.Size, trail, got), cas)
			return
		}
		max := tc.Size
		if nT > max {
			max = nT
		}
		if charCount(p)+nT > max {
			c.Fail("truncate:too-long:"+cls, fmt.Sprintf("Truncate(%q, size %d, trail %q) = %q has more than max(size, len trail) characters", s, tc.Size, trail, got), cas)
			return
		}
	}
	_ = nS
	if got != want {
		c.Fail("truncate:differs-from-model:"+cls, fmt.Sprintf("Truncate(%q, size %d, trail %q) = %q, the model gives %q", s, tc.Size, trail, got, want), cas)
		return
	}
	if o.Panic == "" && !o.Hang && (again != got || optsLeft != fmt.Sprintf("%v/%v/2", tc.Size, trail)) {
		c.Fail("truncate:options-consumed:"+cls, fmt.Sprintf("Truncate(%q, opts) twice with one options map {size: %d, trail: %q}: %q then %q, the map afterwards: %s", s, tc.Size, trail, got, again, optsLeft), cas)
	}
	// from a template (valid UTF-8 only: the template source carries the trail as a literal)
	if hasBad || strings.ContainsAny(trail, "\"\\") || len(tc.S) > 4 {
		return
	}
	ctx := plush.NewContext()
	ctx.Set("s", s)
	ctx.Set("n", tc.Size)
	ctx.Set("t", trail)
	ro := guarded(3*time.Second, func() (string, error) { return plush.Render(`<%= raw(truncate(s, {size: n, trail: t})) %>`, ctx) })
	if ro.Out != want || ro.IsErr || ro.Panic != "" {
		c.Fail("truncate:template:"+cls, fmt.Sprintf("truncate(%q, {size: %d, trail: %q}) in a template: %+v, want %q", s, tc.Size, trail, ro, want), cas)
	}
	ro2 := guarded(3*time.Second, func() (string, error) {
		return plush.Render(`<% let o = {size: n, trail: t} %><%= raw(truncate(s, o)) %>|<%= raw(truncate(s, o)) %>|<%= len(o) %>`, ctx)
	})
	if ro2.Out != want+"|"+want+"|2" || ro2.IsErr || ro2.Panic != "" {
		c.Fail("truncate:template-shared-options:"+cls, fmt.Sprintf("truncate(%q, o) twice with o = {size: %d, trail: %q} in a template: %+v, want %q", s, tc.Size, trail, ro2, want+"|"+want+"|2"), cas)
	}
}

// charCount counts characters the way the helper does: runes, an invalid byte counting as one.
func charCount(s string) int { return len([]rune(s)) }

// boundary reports whether byte offset i of s is a character boundary.
func boundary(s string, i int) bool {
	j := 0
	for j < i {
		_, w := utf8.DecodeRuneInString(s[j:])
		j += w
	}
	return j == i
}

func c20Str(c *Ctx, raw json.RawMessage) {
	var sc strCase
	if err := json.Unmarshal(raw, &sc); err != nil {
		c.Fail("harness:json", err.Error(), string(raw))
		return
	}
	if sc.Fam == "json" {
		c20JSON(c, &sc)
		return
	}
	s := decodeChars(sc.S)
	needs := strings.ContainsAny(s, "<>&'\"=\\\n\r ")
	shape := ""
	if needs {
		shape = s
	}
	cas := map[string]interface{}{"gen": "StrGen", "fam": "str", "s": sc.S, "html": sc.HTML, "js": sc.JS}
	valid := utf8.ValidString(s)

	// htmlEscape
	c.Eval(shape)
	c.Rule("htmlEscape")
	hout, herr := escapes.HTMLEscape(s, helptest.NewContext())
	if needs && len(sc.S) == 3 {
		c.Sample(map[string]interface{}{"s": s, "htmlEscape": hout, "jsEscape": escapes.JSEscape(s)})
	}
	switch {
	case herr != nil:
		c.Fail("htmlEscape:error", herr.Error(), cas)
	case strings.ContainsAny(hout, "<>'\""):
		c.Fail("htmlEscape:raw-special", fmt.Sprintf("htmlEscape(%q) = %q contains a raw special character", s, hout), cas)
	case !ampsAreEntities(hout):
		c.Fail("htmlEscape:raw-amp", fmt.Sprintf("htmlEscape(%q) = %q contains a raw &", s, hout), cas)
	case valid && html.UnescapeString(hout) != s:
		c.Fail("htmlEscape:not-faithful", fmt.Sprintf("htmlEscape(%q) = %q does not decode back", s, hout), cas)
	case valid && hout != decodeChars(sc.HTML) && html.UnescapeString(hout) != html.UnescapeString(decodeChars(sc.HTML)):
		c.Fail("htmlEscape:differs-from-model", fmt.Sprintf("htmlEscape(%q) = %q, model %q", s, hout, decodeChars(sc.HTML)), cas)
	}
	// htmlEscape of a block, from a template
	if valid && !strings.ContainsAny(s, "%\\") {
		ctx := plush.NewContext()
		ctx.Set("s", template.HTML(s))
		ro := guarded(3*time.Second, func() (string, error) { return plush.Render(`<%= raw(htmlEscape("") { %><%= s %><% }) %>`, ctx) })
		if ro.IsErr || ro.Panic != "" || strings.ContainsAny(ro.Out, "<>'\"") || html.UnescapeString(ro.Out) != s {
			c.Fail("htmlEscape:block", fmt.Sprintf("htmlEscape of a block rendering %q: %+v", s, ro), cas)
		}
	}

	// jsEscape
	c.Eval(shape)
	c.Rule("jsEscape")
	jout := escapes.JSEscape(s)
	if bad := jsUnclean(jout); bad != "" {
		c.Fail("jsEscape:"+bad, fmt.Sprintf("jsEscape(%q) = %q: %s", s, jout, bad), cas)
	}

	// raw(s) reaches the output byte-identical
	c.Eval(shape)
	c.Rule("raw")
	ctx := plush.NewContext()
	ctx.Set("s", s)
	ro := guarded(3*time.Second, func() (string, error) { return plush.Render(`[<%= raw(s) %>]`, ctx) })
	if ro.Out != "["+s+"]" || ro.IsErr {
		c.Fail("raw:changed", fmt.Sprintf("<%%= raw(s) %%> with s = %q rendered %+v", s, ro), cas)
	}
	if string(encoders.Raw(s)) != s {
		c.Fail("raw:direct", fmt.Sprintf("Raw(%q) changed the bytes", s), cas)
	}
}

func ampsAreEntities(s string) bool {
	for i := 0; i < len(s); i++ {
		if s[i] != '&' {
			continue
		}
		j := strings.IndexByte(s[i:], ';')
		if j < 2 || j > 8 {
			return false
		}
		ent := s[i : i+j+1]
		if u := html.UnescapeString(ent); u == ent {
			return false
		}
	}
	return true
}

// jsUnclean returns what is wrong with an escaped JS string: a raw < > & =, a quote or line
// break that is not backslash-escaped.
func jsUnclean(s string) string {
	bs := 0
	for _, r := range s {
		switch {
		case r == '\\':
			bs++
			continue
		case strings.ContainsRune("<>&=", r):
			return fmt.Sprintf("raw %q", r)
		case r == '\n' || r == '\r' || r == ' ' || r == ' ':
			return "raw line break"
		case (r == '\'' || r == '"') && bs%2 == 0:
			return "unescaped quote"
		}
		bs = 0
	}
	return ""
}

func c20JSON(c *Ctx, sc *strCase) {
	v := materialize(sc.V, nil)
	c.Eval(fmt.Sprintf("json:%v", v))
	c.Rule("toJSON")
	cas := map[string]interface{}{"gen": "StrGen", "fam": "json", "v": sc.V}
	out, err := encoders.ToJSON(v)
	if err != nil {
		c.Fail("toJSON:error", fmt.Sprintf("toJSON(%#v): %v", v, err), cas)
		return
	}
	c.Sample(map[string]interface{}{"value": v, "toJSON": string(out)})
	// the value returned is the caller's: later calls must not change it (a result kept in a
	// variable and emitted after further toJSON calls is still the JSON of v)
	first := strings.Clone(string(out))
	for _, w := range []interface{}{v, []interface{}{1, 2, 3}, "x", v} {
		encoders.ToJSON(w)
	}
	if string(out) != first {
		c.Fail("toJSON:result-changed-later", fmt.Sprintf("toJSON(%#v) returned %s; after further toJSON calls the same value reads %s", v, first, string(out)), cas)
		return
	}
	if strings.ContainsAny(string(out), "<>&") {
		c.Fail("toJSON:raw-special", fmt.Sprintf("toJSON(%#v) = %s contains a raw < > &", v, out), cas)
		return
	}
	dec := json.NewDecoder(bytes.NewReader([]byte(out)))
	var back interface{}
	if err := dec.Decode(&back); err != nil || dec.More() {
		c.Fail("toJSON:invalid", fmt.Sprintf("toJSON(%#v) = %s is not valid JSON: %v", v, out, err), cas)
		return
	}
	if !reflect.DeepEqual(jsonNorm(v), back) {
		c.Fail("toJSON:not-faithful", fmt.Sprintf("toJSON(%#v) = %s decodes to %#v", v, out, back), cas)
		return
	}
	// the JSON text of v as a VALUE of its own, handed over as trusted HTML (what raw() and toJSON() return): toJSON of
	// it is the JSON string whose content is that text -- a value like any other, encoded once more
	for _, h := range []template.HTML{template.HTML(first), template.HTML(`{"a":"<b>&</b>"}`)} {
		o2, err2 := encoders.ToJSON(h)
		var s2 string
		if err2 != nil || strings.ContainsAny(string(o2), "<>&") || json.Unmarshal([]byte(o2), &s2) != nil || s2 != string(h) {
			c.Fail("toJSON:html-json-text", fmt.Sprintf("toJSON(template.HTML(%q)) = %s (error %v): not the JSON string of that text", string(h), o2, err2), cas)
			return
		}
	}
	// from a template
	ctx := plush.NewContext()
	ctx.Set("v", v)
	ro := guarded(3*time.Second, func() (string, error) { return plush.Render(`<%= toJSON(v) %>`, ctx) })
	if v != nil && (ro.IsErr || ro.Out != string(out)) {
		c.Fail("toJSON:template", fmt.Sprintf("<%%= toJSON(v) %%> rendered %+v, want %s", ro, out), cas)
		return
	}
	if v != nil {
		ro = guarded(3*time.Second, func() (string, error) {
			return plush.Render(`<% let a = toJSON(v) %><% let b = toJSON([1, 2, 3]) %><% let c = toJSON(v) %><%= a %>|<%= b %>|<%= c %>`, ctx)
		})
		if want := first + "|[1,2,3]|" + first; ro.IsErr || ro.Out != want {
			c.Fail("toJSON:template-kept", fmt.Sprintf("toJSON results kept in variables rendered %+v, want %s", ro, want), cas)
		}
	}
}

// jsonNorm converts a materialised value to what encoding/json decodes into.
func jsonNorm(v interface{}) interface{} {
	switch t := v.(type) {
	case int:
		return float64(t)
	case []interface{}:
		out := make([]interface{}, len(t))
		for i, x := range t {
			out[i] = jsonNorm(x)
		}
		return out
	case map[string]interface{}:
		out := map[string]interface{}{}
		for k, x := range t {
			out[k] = jsonNorm(x)
		}
		return out
	}
	return v
}
