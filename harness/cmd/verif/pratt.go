package main

import (
	"encoding/json"
	"fmt"
	"reflect"
	"strconv"
	"time"

	"github.com/gobuffalo/plush/v5/ast"
	"github.com/gobuffalo/plush/v5/parser"
)

// Pratt.tla / GenPratt.tla (part of the C06 check).
//
// Family "tree": every expression tree is printed by the documented precedence rules, parsed by the
// parser MACHINE (TLC checks PrattAgree: machine(print(t)) = t) and evaluated by the reference
// semantics under four valuations.  The real plush must render the reference value from each
// printing (a difference is a violation of C06); and the real parser must build the machine's tree
// (canonical prefix form computed here from the real AST by a type switch -- a difference is DRIFT:
// it voids the transfer of PrattAgree to parser.go, it is not by itself a wrong rendering).
// Family "word": every token word; machine verdict (tree / syntax error) vs the real parser's (drift).

type prattCase struct {
	semCase
	Canon []string `json:"canon"`
	Val   int      `json:"val"`
}

type prattWord struct {
	Src   []string `json:"src"`
	OK    bool     `json:"ok"`
	Canon []string `json:"canon"`
}

// astCanon is the canonical prefix form of a parsed expression (the same as GenPratt.tla's Canon).
func astCanon(e ast.Expression) []string {
	if e == nil || (reflect.ValueOf(e).Kind() == reflect.Ptr && reflect.ValueOf(e).IsNil()) {
		return []string{"<nil>"}
	}
	switch n := e.(type) {
	case *ast.InfixExpression:
		return append(append([]string{"bin", n.Operator}, astCanon(n.Left)...), astCanon(n.Right)...)
	case *ast.PrefixExpression:
		return append([]string{"pre", n.Operator}, astCanon(n.Right)...)
	case *ast.IndexExpression:
		out := append(append([]string{"idx"}, astCanon(n.Left)...), astCanon(n.Index)...)
		if n.Callee != nil || n.Value != nil {
			out = append(out, "+callee/value")
		}
		return out
	case *ast.CallExpression:
		var out []string
		if id, ok := n.Function.(*ast.Identifier); ok && id.Callee == nil {
			out = []string{"call", id.Value, strconv.Itoa(len(n.Arguments))}
		} else {
			out = append([]string{"callx", strconv.Itoa(len(n.Arguments))}, astCanon(n.Function)...)
		}
		for _, a := range n.Arguments {
			out = append(out, astCanon(a)...)
		}
		if n.Block != nil || n.ChainCallee != nil {
			out = append(out, "+block/chain")
		}
		return out
	case *ast.ArrayLiteral:
		out := []string{"arr", strconv.Itoa(len(n.Elements))}
		for _, a := range n.Elements {
			out = append(out, astCanon(a)...)
		}
		return out
	case *ast.Identifier:
		if n.Callee != nil {
			return []string{"id", n.String()}
		}
		return []string{"id", n.Value}
	case *ast.IntegerLiteral:
		return []string{"int", strconv.Itoa(n.Value)}
	case *ast.Boolean:
		return []string{"bool", strconv.FormatBool(n.Value)}
	}
	return []string{fmt.Sprintf("<%T>", e)}
}

// realCanon parses `<%= expr %>` with the real parser: (canonical tree, parsed without error).
func realCanon(src string) (canon []string, ok bool, o observation) {
	o = guarded(3*time.Second, func() (string, error) {
		p, err := parser.Parse(src)
		if err != nil {
			return "", err
		}
		ok = true
		var all [][]string
		for _, st := range p.Statements {
			switch t := st.(type) {
			case *ast.ReturnStatement:
				all = append(all, astCanon(t.ReturnValue))
			case *ast.ExpressionStatement:
				all = append(all, astCanon(t.Expression))
			default:
				all = append(all, []string{fmt.Sprintf("<%T>", st)})
			}
		}
		if len(all) == 1 {
			canon = all[0]
			return "", nil
		}
		canon = []string{"stmts", strconv.Itoa(len(all))}
		for _, a := range all {
			canon = append(canon, a...)
		}
		return "", nil
	})
	return
}

func prattRun(c *Ctx, raw json.RawMessage) {
	var pc prattCase
	if err := json.Unmarshal(raw, &pc); err != nil {
		c.Fail("harness:json", err.Error(), string(raw))
		return
	}
	sc := &pc.semCase
	for mode, src := range sc.sources() {
		shape := ""
		if sc.NOps >= 1 && sc.Expect.K != "unspec" {
			shape = fmt.Sprintf("%s#%d", src, pc.Val)
		}
		c.Eval(shape)
		c.Rule("pratt:expect:" + sc.Expect.K)
		// (a) the value
		v := runSem(sc, src, true)
		if sc.NOps >= 2 && mode == "min" && pc.Val == 1 {
			c.Sample(map[string]interface{}{"source": src, "tree": pc.Canon, "expected": sc.Expect, "observed": v.Obs, "verdict": okOr(v.Sig, v.Msg)})
		}
		if v.Sig != "" {
			if sc.Expect.K == "unspec" {
				c.Drift("unspecified-case:" + v.Sig)
			} else {
				c.Fail("pratt:"+v.Sig, fmt.Sprintf("%s  [%s parentheses, valuation %d]: %s", src, mode, pc.Val, v.Msg),
					map[string]interface{}{"gen": sc.Gen, "srcs": map[string][]string{mode: sc.Srcs[mode]}, "canon": pc.Canon, "val": pc.Val, "data": sc.Data, "expect": sc.Expect, "nops": sc.NOps, "source_text": src, "observed": v.Obs})
			}
		}
		// (b) the tree (once per tree: with the first valuation)
		if pc.Val != 1 {
			continue
		}
		got, ok, o := realCanon(src)
		switch {
		case o.Panic != "" || o.Hang:
			c.Drift("pratt-structure:crash") // totality is C03's verdict
		case !ok:
			c.Drift("pratt-structure:real-parser-rejects")
			c.noteDrift(fmt.Sprintf("the parser rejects %q, the machine builds %v: %s", src, pc.Canon, o.Err))
		case !reflect.DeepEqual(got, pc.Canon):
			c.Drift("pratt-structure:tree-differs")
			c.noteDrift(fmt.Sprintf("%q: parser.go builds %v, Pratt.tla builds %v", src, got, pc.Canon))
		default:
			c.AddTraces(1)
		}
	}
}

func prattWordRun(c *Ctx, raw json.RawMessage) {
	var pw prattWord
	if err := json.Unmarshal(raw, &pw); err != nil {
		c.Fail("harness:json", err.Error(), string(raw))
		return
	}
	src := decodeChars(pw.Src)
	c.Eval("")
	c.Rule("pratt:word")
	got, ok, o := realCanon(src)
	switch {
	case o.Panic != "" || o.Hang:
		c.Drift("pratt-word:crash")
	case ok != pw.OK:
		c.Drift("pratt-word:accepts-differs")
		c.noteDrift(fmt.Sprintf("%q: real parser accepts=%v (%s), machine accepts=%v", src, ok, o.Err, pw.OK))
	case ok && !reflect.DeepEqual(got, pw.Canon):
		c.Drift("pratt-word:tree-differs")
		c.noteDrift(fmt.Sprintf("%q: parser.go builds %v, Pratt.tla builds %v", src, got, pw.Canon))
	default:
		c.AddTraces(1)
	}
}
