package main

import (
	"encoding/json"
	"fmt"
	"reflect"
	"strings"
	"sync"
	"time"

	"github.com/gobuffalo/plush/v5"
	"github.com/gobuffalo/plush/v5/helpers/hctx"
)

// C12 — Go helpers receive exactly the supplied arguments, in order, or are not called.
//
// CallBinding.tla: declarative Expect vs the transcription Bind of evalCallExpression's binding
// code, invariant Agree over the signature family x call shapes. Every cell is replayed: the
// signature is built with reflect.FuncOf / reflect.MakeFunc as a recording function, the call is
// rendered with every argument wrapped in a probe, and what the recorder received (or that it was
// not invoked) is compared with Expect.

type cbSig struct {
	Fixed []string `json:"fixed"`
	Map   bool     `json:"map"`
	HC    string   `json:"hc"`
	Var   string   `json:"var"`
	Res   string   `json:"res"`
}

type cbRecv struct {
	K string `json:"k"`
	I int    `json:"i"`
	T string `json:"t"`
}

type cbCase struct {
	Sig    cbSig    `json:"sig"`
	Args   []string `json:"args"`
	Blk    bool     `json:"blk"`
	Bind   string   `json:"bind"`
	Expect struct {
		K         string   `json:"k"`
		Recv      []cbRecv `json:"recv"`
		Evaluated int      `json:"evaluated"`
		Block     bool     `json:"block"`
	} `json:"expect"`
}

var (
	tString = reflect.TypeOf("")
	tInt    = reflect.TypeOf(0)
	tBool   = reflect.TypeOf(true)
	tIface  = reflect.TypeOf((*interface{})(nil)).Elem()
	tMap    = reflect.TypeOf(map[string]interface{}{})
	tHCS    = reflect.TypeOf(plush.HelperContext{})
	tHCI    = reflect.TypeOf((*hctx.HelperContext)(nil)).Elem()
	tError  = reflect.TypeOf((*error)(nil)).Elem()
)

func cbType(n string) reflect.Type {
	switch n {
	case "string":
		return tString
	case "int":
		return tInt
	case "bool":
		return tBool
	case "iface":
		return tIface
	case "map":
		return tMap
	case "hcs":
		return tHCS
	case "hci":
		return tHCI
	}
	panic("harness: type " + n)
}

func init() { register("C12", checkC12) }

func checkC12(c *Ctx) error {
	c.ruleText = "CallBinding.tla: signatures with 0..MaxFixed fixed parameters of {string, int, bool, interface{}} x (no / trailing options map) x (no / struct-typed / interface-typed helper context) x 6 result shapes, and variadic signatures (...string, ...interface{}) x 2 result shapes; calls with 0..MaxArgs arguments of {string, int, bool, nil, hash literal} x with / without block (MaxFixed=1, MaxArgs=3 quick: 62k cells; MaxFixed=2, MaxArgs=3 thorough: 1.28M cells; four arguments exhausted the model checker's memory once three more argument kinds were added). TLC checks Agree (transcription of evalCallExpression's binding = declarative expectation on every determined cell). Real code: the signature is built with reflect.MakeFunc as a recorder; every argument is a probe call; compared: invoked or not, every received argument (value, zero value, supplied empty map, helper context with HasBlock and the block's rendering), probes evaluated once and left to right, rendered value, error wrapping for failing error results. distinct_nontrivial = distinct (signature, call) cells with a determined expectation."
	c.Assume("a call that omits an ordinary (non-map, non-context) parameter is unspecified and only checked for totality")
	run := func(raw json.RawMessage) { c12Run(c, raw) }
	if c.ReplayPath != "" {
		return replayFile(c, run)
	}
	pool := newPool(12, run)
	cfg := "CallBinding.quick.cfg"
	if c.Thorough() {
		cfg = "CallBinding.thorough.cfg"
	}
	_, err := c.mustTLC("CallBinding/"+cfg, TLCOpts{Module: "CallBinding", Cfg: cfg, Workers: 12, Seed: c.Seed, Timeout: 60 * time.Minute}, true, pool.feed)
	pool.close()
	if err != nil {
		return err
	}
	c.exhaustive = true
	c12Rebind(c)
	c12Recv(c)
	r, err := RunTLC(TLCOpts{Module: "CallBinding", Cfg: "CallBinding.asbuilt.cfg", Workers: 4, Seed: c.Seed, Timeout: 10 * time.Minute, NoCases: true}, nil)
	if err != nil {
		return err
	}
	c.extra["model_sensitivity"] = fmt.Sprintf("CallBinding.tla with VariadicNilPtr=TRUE (pinned commit): TLC reports %q", r.Violated)
	if r.Violated == "" {
		return fmt.Errorf("CallBinding.tla no longer distinguishes the variadic nil handling")
	}
	return nil
}

// c12Rebind: ONE call site reached several times in a render with its name bound to another Go function each time (a
// loop variable, a parameter of a template function): every call goes to the function bound NOW, with that function's
// signature deciding what is supplied automatically.
func c12Rebind(c *Ctx) {
	type rec struct {
		mu    sync.Mutex
		calls []string
	}
	progs := []struct{ src, want, calls string }{
		{`<%= for (f) in fns { %><%= f(3) %>,<% } %>`, "4,6,4,", "inc(3) dbl(3,map[]) inc(3)"},
		{`<% let ap = fn(f, x) { return f(x) } %><%= ap(inc, 1) %>|<%= ap(dbl, 1) %>|<%= ap(inc, 5) %>`, "2|2|6", "inc(1) dbl(1,map[]) inc(5)"},
		{`<%= for (i) in [0, 1, 0] { %><%= fns[i](2) %>;<% } %>`, "3;4;3;", "inc(2) dbl(2,map[]) inc(2)"},
		{`<% let g = inc %><%= g(1) %><% g = dbl %><%= g(1) %><% g = inc %><%= g(1) %>`, "222", "inc(1) dbl(1,map[]) inc(1)"},
	}
	for _, p := range progs {
		r := &rec{}
		inc := func(n int) int {
			r.mu.Lock()
			r.calls = append(r.calls, fmt.Sprintf("inc(%d)", n))
			r.mu.Unlock()
			return n + 1
		}
		dbl := func(n int, opts map[string]interface{}) int {
			r.mu.Lock()
			r.calls = append(r.calls, fmt.Sprintf("dbl(%d,%v)", n, opts))
			r.mu.Unlock()
			return 2 * n
		}
		ctx := plush.NewContext()
		ctx.Set("inc", inc)
		ctx.Set("dbl", dbl)
		ctx.Set("fns", []interface{}{inc, dbl, inc})
		c.Eval("rebind:" + p.src)
		c.Rule("rebind")
		o := guarded(5*time.Second, func() (string, error) { return plush.Render(p.src, ctx) })
		got := strings.Join(r.calls, " ")
		if o.Panic != "" || o.Hang || o.IsErr || o.Out != p.want || got != p.calls {
			c.Fail("rebind", fmt.Sprintf("%s: rendered (%q, %v) with calls [%s]; every call goes to the function its name is bound to at that moment: expected %q with calls [%s]", p.src, o.Out, o.Err, got, p.want, p.calls),
				map[string]interface{}{"gen": "c12Rebind", "source_text": p.src, "observed": o, "calls": got})
		}
	}
}

// c12Probe: a method that reports what it received
type c12Probe struct{ Name string }

func (p c12Probe) Show(x interface{}) string { return fmt.Sprintf("%s got %T", p.Name, x) }
func (p c12Probe) Pick(i int) string         { return fmt.Sprintf("%s.Pick(%d)", p.Name, i) }

// c12Recv: an argument of a method call that mentions the variable the receiver path starts from is THAT variable (the whole
// slice, the function), whatever the receiver is.
func c12Recv(c *Ctx) {
	progs := []struct{ src, want string }{
		{`<%= a[0].Show(a) %>`, "A0 got []main.c12Probe"},
		{`<%= a[1].Pick(len(a)) %>`, "A1.Pick(2)"},
		{`<%= mk("z").Show(mk) %>`, "z got func(string) main.c12Probe"},
		{`<%= a[0].Show(a[1]) %>|<%= a[1].Show(a[0].Name) %>`, "A0 got main.c12Probe|A1 got string"},
	}
	for _, p := range progs {
		ctx := plush.NewContext()
		ctx.Set("a", []c12Probe{{"A0"}, {"A1"}})
		ctx.Set("mk", func(n string) c12Probe { return c12Probe{n} })
		c.Eval("recvroot:" + p.src)
		c.Rule("recvroot")
		o := guarded(5*time.Second, func() (string, error) { return plush.Render(p.src, ctx) })
		if o.Panic != "" || o.Hang || o.IsErr || o.Out != p.want {
			c.Fail("recvroot", fmt.Sprintf("%s: rendered (%q, %v), expected %q: an argument is evaluated in the caller's scope", p.src, o.Out, o.Err, p.want),
				map[string]interface{}{"gen": "c12Recv", "source_text": p.src, "observed": o})
		}
	}
}

var cbMapMu sync.Mutex

// cbDecoy: two methods with one ordinary parameter and an omitted trailing one (options map / helper context)
type cbDecoy struct{ bad *string }

func (d cbDecoy) Tag(x interface{}, opts map[string]interface{}) string {
	cbMapMu.Lock()
	if opts == nil || len(opts) != 0 {
		*d.bad = fmt.Sprintf("a decoy method's omitted options map arrived nil or with %d entries", len(opts))
	}
	cbMapMu.Unlock()
	return ""
}

func (d cbDecoy) Wrap(x interface{}, help plush.HelperContext) string {
	if help.Context == nil {
		*d.bad = "a decoy method's omitted helper context arrived empty"
	}
	return ""
}

func cbArgLiteral(kind string, i int) (src string, val interface{}) {
	switch kind {
	case "str":
		return fmt.Sprintf(`"s%d"`, i), fmt.Sprintf("s%d", i)
	case "int":
		return fmt.Sprint(40 + i), 40 + i
	case "bool":
		return "true", true
	case "nil":
		return "nil", nil
	case "hash":
		return fmt.Sprintf("{k: %d}", i), map[string]interface{}{"k": i}
	case "arr":
		return fmt.Sprintf("[%d, %d]", i, i+1), []interface{}{i, i + 1}
	case "strs":
		return "ss", []string{"u", "v"}
	case "nilptr":
		return "np", (*vRec)(nil)
	}
	panic("harness: arg kind " + kind)
}

func c12Run(c *Ctx, raw json.RawMessage) {
	var cc cbCase
	if err := json.Unmarshal(raw, &cc); err != nil {
		c.Fail("harness:json", err.Error(), string(raw))
		return
	}
	// the function
	in := []reflect.Type{}
	for _, f := range cc.Sig.Fixed {
		in = append(in, cbType(f))
	}
	if cc.Sig.Map {
		in = append(in, tMap)
	}
	if cc.Sig.HC != "none" {
		in = append(in, cbType(cc.Sig.HC))
	}
	variadic := cc.Sig.Var != "none"
	if variadic {
		in = append(in, reflect.SliceOf(cbType(cc.Sig.Var)))
	}
	var out []reflect.Type
	switch cc.Sig.Res {
	case "T":
		out = []reflect.Type{tString}
	case "Tnil", "Terr":
		out = []reflect.Type{tString, tError}
	case "err", "nilerr":
		out = []reflect.Type{tError}
	case "Snil", "Serr":
		out = []reflect.Type{reflect.TypeOf(vRec{}), tError}
	}
	var mu sync.Mutex
	invoked := 0
	var received []interface{}
	var hcBlock []string
	fn := reflect.MakeFunc(reflect.FuncOf(in, out, variadic), func(args []reflect.Value) []reflect.Value {
		mu.Lock()
		defer mu.Unlock()
		invoked++
		for i, a := range args {
			if variadic && i == len(args)-1 {
				for j := 0; j < a.Len(); j++ {
					received = append(received, a.Index(j).Interface())
				}
				continue
			}
			v := a.Interface()
			if m, ok := v.(map[string]interface{}); ok && m != nil {
				// (should one map reach calls in several goroutines, the harness at least must not race on it)
				cbMapMu.Lock()
				// record a copy, then write into the map the way helpers fill in defaults: a map
				// supplied automatically must be a fresh one for every call
				cp := make(map[string]interface{}, len(m))
				for k, x := range m {
					cp[k] = x
				}
				m["seen-by-helper"] = true
				cbMapMu.Unlock()
				v = cp
			}
			received = append(received, v)
			if h, ok := v.(hctx.HelperContext); ok && h != nil {
				func() {
					defer func() { recover() }()
					if h.HasBlock() {
						s, err := h.Block()
						hcBlock = append(hcBlock, fmt.Sprintf("block:%q,%v", s, err))
					} else {
						hcBlock = append(hcBlock, "noblock")
					}
				}()
			}
		}
		var res []reflect.Value
		errV := reflect.Zero(tError)
		if cc.Sig.Res == "Terr" || cc.Sig.Res == "err" || cc.Sig.Res == "Serr" {
			errV = reflect.ValueOf(&errSentinel).Elem()
		}
		switch cc.Sig.Res {
		case "T":
			res = []reflect.Value{reflect.ValueOf("R")}
		case "Tnil":
			res = []reflect.Value{reflect.ValueOf("R"), errV}
		case "Terr":
			res = []reflect.Value{reflect.ValueOf(""), errV}
		case "err", "nilerr":
			res = []reflect.Value{errV}
		case "Snil", "Serr":
			res = []reflect.Value{reflect.ValueOf(vRec{Name: "R"}), errV}
		}
		return res
	})
	// the call
	env := newRunEnv()
	ctx := env.context(nil)
	ctx.Set("h", fn.Interface())
	ctx.Set("ss", []string{"u", "v"})
	ctx.Set("np", (*vRec)(nil))
	// decoys: two more functions made the same way, with as many parameters as the call under test has arguments
	// plus one omitted trailing parameter -- an options map for the one, the helper context for the other (and two
	// METHODS of one receiver with the same two shapes): how the omitted parameter of one function is filled must not
	// depend on what another function wanted at the same position
	decoyIn := []reflect.Type{}
	zeros := []string{}
	for range cc.Args {
		decoyIn = append(decoyIn, tIface)
		zeros = append(zeros, "0")
	}
	decoyBad := ""
	decoy := func(last reflect.Type) interface{} {
		return reflect.MakeFunc(reflect.FuncOf(append(append([]reflect.Type{}, decoyIn...), last), []reflect.Type{tString}, false), func(args []reflect.Value) []reflect.Value {
			v := args[len(args)-1].Interface()
			switch t := v.(type) {
			case map[string]interface{}:
				cbMapMu.Lock()
				if t == nil || len(t) != 0 {
					decoyBad = fmt.Sprintf("a decoy's omitted options map arrived nil or with %d entries", len(t))
				}
				cbMapMu.Unlock()
			case plush.HelperContext:
				if t.Context == nil {
					decoyBad = "a decoy's omitted helper context arrived empty"
				}
			}
			return []reflect.Value{reflect.ValueOf("")}
		}).Interface()
	}
	ctx.Set("d1", decoy(tMap))
	ctx.Set("d2", decoy(tHCS))
	ctx.Set("dm", cbDecoy{bad: &decoyBad})
	parts := []string{}
	vals := []interface{}{}
	for i, a := range cc.Args {
		lit, v := cbArgLiteral(a, i+1)
		parts = append(parts, fmt.Sprintf("p(%d, %s)", i+1, lit))
		vals = append(vals, v)
	}
	// (an earlier Go call with an argument in the same render: nothing of it may reach the call under test)
	dz := strings.Join(zeros, ", ")
	src := "<% vcount(0, 0, 0, 0, 0, 0) %><% id(0) %><% d1(" + dz + ") %><% d2(" + dz + ") %><% dm.Tag(0) %><% dm.Wrap(0) %><% dm.Tag(0) %><%= h(" + strings.Join(parts, ", ") + ")"
	// the block's text: some text, nothing between two tags, nothing inside one tag (an empty block is still the call's block)
	blkText := "B"
	if cc.Blk {
		switch (len(cc.Args) + len(cc.Sig.Res)) % 3 {
		case 0:
			src += " { %>B<% }"
		case 1:
			src, blkText = src+" { %><% }", ""
		default:
			src, blkText = src+" { }", ""
		}
	}
	if cc.Sig.Res == "Snil" || cc.Sig.Res == "Serr" {
		if cc.Blk {
			// (a member path cannot follow a block; these cells are covered without the block)
			c.Eval("")
			return
		}
		src += ".Name" // the first result is a struct: the call is followed by a member path
	}
	src += " %>"
	shape := ""
	if cc.Expect.K != "unspec" {
		shape = fmt.Sprintf("%v|%v|%v", cc.Sig, cc.Args, cc.Blk)
	}
	c.Eval(shape)
	c.Rule("expect:" + cc.Expect.K)
	o := guarded(5*time.Second, func() (string, error) { return plush.Render(src, ctx) })
	cas := map[string]interface{}{"gen": "CallBinding", "sig": cc.Sig, "args": cc.Args, "blk": cc.Blk, "expect": cc.Expect, "source_text": src, "observed": o}
	if len(cc.Args) >= 2 && cc.Expect.K == "call" {
		c.Sample(map[string]interface{}{"signature": fmt.Sprint(fn.Type()), "call": src, "expected": cc.Expect, "received": fmt.Sprintf("%#v", received), "observed": o})
	}
	sigDesc := fmt.Sprintf("%v called as %s", fn.Type(), src)
	fail := func(kind, msg string) {
		cls := "fixed"
		if variadic {
			cls = "variadic"
		}
		c.Fail(kind+":"+cls, sigDesc+": "+msg, cas)
	}
	if decoyBad != "" {
		fail("decoy", decoyBad)
		return
	}
	if o.Panic != "" || o.Hang {
		c.Drift("crash") // totality is C04's verdict
		if cc.Expect.K != "unspec" {
			fail("panic", "panic "+o.Panic)
		}
		return
	}
	if cc.Expect.K == "unspec" {
		// not decided by the statement; still compared with the transcription of the code (drift only)
		if (cc.Bind == "call") == (invoked == 1) {
			c.Drift("undetermined-cell:as-transcribed")
		} else {
			c.Drift("undetermined-cell:differs-from-transcription")
		}
		return
	}
	// probes: each supplied argument evaluated once, left to right (as far as the binding got)
	env.mu.Lock()
	calls := append([]probeCall{}, env.calls...)
	env.mu.Unlock()
	wantProbes := cc.Expect.Evaluated
	if cc.Expect.K == "call" {
		wantProbes = len(cc.Args)
	}
	if len(calls) != wantProbes {
		fail("arguments-evaluated", fmt.Sprintf("%d arguments were evaluated, expected %d", len(calls), wantProbes))
		return
	}
	for i, cl := range calls {
		if cl.ID != i+1 {
			fail("argument-order", fmt.Sprintf("arguments evaluated in order %v", callIDs(calls)))
			return
		}
	}
	switch cc.Expect.K {
	case "err":
		if invoked != 0 {
			fail("invoked-despite-bad-call", "the function was invoked although the call is invalid")
		} else if !o.IsErr {
			fail("no-error", fmt.Sprintf("invalid call rendered %q without error", o.Out))
		} else if !strings.Contains(o.Err, "h") {
			fail("error-does-not-name-call", "error does not name the call: "+o.Err)
		}
	case "call":
		if invoked != 1 {
			fail("not-invoked-once", fmt.Sprintf("the function was invoked %d times", invoked))
			return
		}
		if len(received) != len(cc.Expect.Recv) {
			fail("argument-count", fmt.Sprintf("received %d arguments %#v, expected %d", len(received), received, len(cc.Expect.Recv)))
			return
		}
		ptypes := append(append([]string{}, cc.Sig.Fixed...), map[bool][]string{true: {"map"}, false: {}}[cc.Sig.Map]...)
		if cc.Sig.HC != "none" {
			ptypes = append(ptypes, cc.Sig.HC)
		}
		for i, r := range cc.Expect.Recv {
			got := received[i]
			pt := cc.Sig.Var
			if i < len(ptypes) {
				pt = ptypes[i]
			}
			ok := true
			switch r.K {
			case "arg":
				ok = looseEqual(got, vals[r.I-1])
			case "zero":
				z := reflect.Zero(cbType(pt)).Interface()
				ok = looseEqual(got, z) || (got == nil && z == nil)
			case "emptymap":
				m, isMap := got.(map[string]interface{})
				ok = isMap && m != nil && len(m) == 0
			case "ctx":
				h, isH := got.(hctx.HelperContext)
				ok = isH && h != nil
			}
			if !ok {
				fail("argument-value", fmt.Sprintf("parameter %d received %#v, expected %+v", i+1, got, r))
				return
			}
		}
		// the helper context carries the call's block
		for _, b := range hcBlock {
			want := "noblock"
			if cc.Expect.Block {
				want = fmt.Sprintf("block:%q,<nil>", blkText)
			}
			if b != want {
				fail("block", fmt.Sprintf("helper context: %s, expected %s", b, want))
				return
			}
		}
		switch cc.Sig.Res {
		case "Terr", "err", "Serr":
			if !o.IsErr || !o.Wraps || o.Out != "" {
				fail("error-result-ignored", fmt.Sprintf("the function returned an error but Render gave (%q, %v)", o.Out, o.Err))
			}
		case "T", "Tnil", "Snil":
			if o.IsErr || o.Out != "R" {
				fail("value", fmt.Sprintf("rendered (%q, %v), expected the first result \"R\"", o.Out, o.Err))
			}
		default:
			if o.IsErr || o.Out != "" {
				fail("value", fmt.Sprintf("rendered (%q, %v), expected nothing", o.Out, o.Err))
			}
		}
	}
}
