package main

import (
	"bufio"
	"bytes"
	"encoding/json"
	"fmt"
	"io"
	"math/rand"
	"os"
	"os/exec"
	"runtime/debug"
	"strings"
	"sync"
	"sync/atomic"
	"time"

	"github.com/gobuffalo/plush/v5"
	"github.com/gobuffalo/plush/v5/parser"
)

// C03 — parsing is total: any text yields a program or an error, never a crash or a hang.
//
// Soup.tla enumerates every token sequence up to K over the lexer's whole token vocabulary in five
// tag framings (exhaustive) and seeded long random soup; ParserCtl.tla (Layer B) is the control
// skeleton of the recursive-descent parser on which TLC checks termination (liveness) and the
// absence of nil dereferences. Every generated input is fed to the real Parse and Render under a
// watchdog; the harness adds byte-level mutations of well-formed generated programs and deep
// nestings. Verdict: returned within the watchdog, no panic.

type soupCase struct {
	N    int                 `json:"n"`
	Srcs map[string][]string `json:"srcs"`
}

var c03Hangs int32

func init() { register("C03", checkC03) }

func c03Try(c *Ctx, src, origin string, cas interface{}) {
	if atomic.LoadInt32(&c03Hangs) > 2 {
		return // do not pile up spinning goroutines; the hangs found so far are the verdict
	}
	shape := ""
	if strings.Contains(src, "<%") {
		shape = src
	}
	c.Eval(shape)
	c.Rule(origin)
	ctx := plush.NewContext()
	reparse := ""
	var parsed *plush.Template
	o := guarded(3*time.Second, func() (string, error) {
		t, err := plush.NewTemplate(src)
		if err != nil {
			// an input that does not parse keeps not parsing: the template value that came back
			// with the error must report the error again, and executing it must not crash
			if t != nil {
				if e2 := t.Parse(); e2 == nil {
					reparse = "a second Parse of the failed template returned nil"
				}
				if _, e3 := t.Exec(ctx); e3 == nil {
					reparse = "Exec of the template whose parse failed returned no error"
				}
			}
			return "", err
		}
		parsed = t
		return "", nil
	})
	// what parses is also executed ("Parse, and therefore Render, ..."): a text the parser accepts although it is
	// malformed must not crash the evaluator either.  (A program that runs for long is the program's own business.)
	if parsed != nil && o.Panic == "" && !o.Hang && strings.Contains(src, "<%") {
		var ro observation
		if origin == "mutation" || origin == "poisoned-token" {
			// a mutated program may recurse without end or loop for ever (a call moved into its own function's body, a
			// break deleted): it is executed in a process that can die or be killed
			ro = c03Isolated.exec(src)
			if ro.Err == "worker-died:stack-overflow" {
				c.Drift("a mutated program recurses until the stack is exhausted (own process)")
				ro = observation{}
			}
		} else {
			ro = guarded(2*time.Second, func() (string, error) { return parsed.Exec(c03Context()) })
		}
		switch {
		case ro.Hang:
			c.Drift("a parsed input runs for long")
		case ro.Panic != "" && !strings.HasPrefix(ro.Site, "usercode:"):
			c.Fail("render-panic@"+ro.Site, fmt.Sprintf("%q parses, and executing it panics: %s (in %s)", trunc(src, 120), trunc(ro.Panic, 120), ro.Site), cas)
		}
	}
	if reparse != "" {
		c.Fail("failed-parse-forgotten", fmt.Sprintf("%q: %s", trunc(src, 120), reparse), cas)
	}
	switch {
	case o.Hang:
		atomic.AddInt32(&c03Hangs, 1)
		c.Fail("hang", fmt.Sprintf("Parse of %q did not return within 63s (3s watchdog, then 60s more)", trunc(src, 120)), cas)
	case o.Panic != "":
		c.Fail("panic@"+o.Site, fmt.Sprintf("Parse of %q panicked: %s (in %s)", trunc(src, 120), trunc(o.Panic, 120), o.Site), cas)
	}
	if shape != "" && len(src) > 12 {
		c.Sample(map[string]interface{}{"input": src, "from": origin, "returned_error": o.IsErr, "panic": o.Panic, "hang": o.Hang})
	}
}

// c03Workers: a few `verif worker exec1` processes that execute one template per request line. A worker that does not
// answer in time is killed; one that dies (stack exhaustion cannot be recovered) is replaced.
type c03Worker struct {
	cmd *exec.Cmd
	in  io.WriteCloser
	out *bufio.Reader
	err *bytes.Buffer
}

type c03Workers struct {
	mu   sync.Mutex
	free []*c03Worker
}

var c03Isolated = &c03Workers{}

func (p *c03Workers) get() *c03Worker {
	p.mu.Lock()
	if n := len(p.free); n > 0 {
		w := p.free[n-1]
		p.free = p.free[:n-1]
		p.mu.Unlock()
		return w
	}
	p.mu.Unlock()
	cmd := exec.Command(os.Args[0], "worker", "exec1")
	in, _ := cmd.StdinPipe()
	out, _ := cmd.StdoutPipe()
	eb := &bytes.Buffer{}
	cmd.Stderr = eb
	if err := cmd.Start(); err != nil {
		return nil
	}
	return &c03Worker{cmd: cmd, in: in, out: bufio.NewReaderSize(out, 1<<20), err: eb}
}

func (p *c03Workers) put(w *c03Worker) {
	p.mu.Lock()
	p.free = append(p.free, w)
	p.mu.Unlock()
}

func (p *c03Workers) closeAll() {
	p.mu.Lock()
	for _, w := range p.free {
		w.in.Close()
		w.cmd.Process.Kill()
		w.cmd.Wait()
	}
	p.free = nil
	p.mu.Unlock()
}

func (p *c03Workers) exec(src string) observation {
	w := p.get()
	if w == nil {
		return observation{}
	}
	req, _ := json.Marshal(src)
	if _, err := w.in.Write(append(req, '\n')); err != nil {
		w.cmd.Process.Kill()
		w.cmd.Wait()
		return observation{}
	}
	type reply struct {
		line string
		err  error
	}
	ch := make(chan reply, 1)
	go func() {
		l, err := w.out.ReadString('\n')
		ch <- reply{l, err}
	}()
	select {
	case r := <-ch:
		if r.err != nil {
			w.cmd.Wait()
			if strings.Contains(w.err.String(), "stack overflow") || strings.Contains(w.err.String(), "goroutine stack exceeds") {
				return observation{Err: "worker-died:stack-overflow"}
			}
			return observation{Panic: "the executing process died: " + trunc(w.err.String(), 300), Site: "process"}
		}
		var o observation
		json.Unmarshal([]byte(r.line), &o)
		if o.Hang {
			// the worker gave up waiting for its own goroutine: it is of no further use
			w.cmd.Process.Kill()
			w.cmd.Wait()
			return o
		}
		p.put(w)
		return o
	case <-time.After(90 * time.Second):
		w.cmd.Process.Kill()
		w.cmd.Wait()
		return observation{Hang: true}
	}
}

func init() {
	workers["exec1"] = func(args []string) int {
		debug.SetMaxStack(256 << 20) // a runaway recursion ends this process early
		in := bufio.NewReaderSize(os.Stdin, 1<<20)
		out := bufio.NewWriter(os.Stdout)
		for {
			line, err := in.ReadString('\n')
			if err != nil {
				return 0
			}
			var src string
			if json.Unmarshal([]byte(line), &src) != nil {
				return 2
			}
			o := guardedShort(2*time.Second, func() (string, error) {
				t, err := plush.NewTemplate(src)
				if err != nil {
					return "", err
				}
				return t.Exec(c03Context())
			})
			b, _ := json.Marshal(o)
			out.Write(append(b, '\n'))
			out.Flush()
			if o.Hang {
				return 0
			}
		}
	}
}

// guardedShort: like guarded, without the long second wait (the caller is a process that simply ends)
func guardedShort(timeout time.Duration, f func() (string, error)) observation {
	ch := make(chan observation, 1)
	go func() {
		var o observation
		defer func() {
			if r := recover(); r != nil {
				o.Panic = fmt.Sprint(r)
				o.Site = panicSite(o.Panic + "\n" + string(debug.Stack()))
			}
			ch <- o
		}()
		out, err := f()
		o.Out = trunc(out, 200)
		if err != nil {
			o.IsErr = true
			o.Err = trunc(err.Error(), 300)
		}
	}()
	select {
	case o := <-ch:
		return o
	case <-time.After(timeout + 8*time.Second):
		return observation{Hang: true}
	}
}

// c03Context: a few ordinary values under the names the token vocabulary uses.
func c03Context() *plush.Context {
	ctx := plush.NewContext()
	ctx.Set("a", 1)
	ctx.Set("b", "s")
	ctx.Set("x", []interface{}{1, 2})
	ctx.Set("xs", []interface{}{1, 2})
	ctx.Set("m", map[string]interface{}{"k": 1})
	ctx.Set("f", func(i int) int { return i })
	ctx.Set("g", func() string { return "g" })
	return ctx
}

// c03Shape abstracts an input to the token classes that matter for a crash signature.
func c03Shape(src string) string {
	r := strings.NewReplacer("<%#", "C", "<%=", "E", "<%", "S", "%>", "X", "\n", "", " ", "")
	s := r.Replace(src)
	if len(s) > 24 {
		s = s[:24]
	}
	return s
}

func checkC03(c *Ctx) error {
	c.ruleText = "Soup.tla: every sequence of <= K tokens over the lexer's token vocabulary (50 token classes, K=2; 30 classes, K=3 quick / 50 classes K=3 and 30 classes K=4 thorough) in five framings (closed code tag, output tag, unclosed tag, nested opener, after text) and seeded random soup of up to 30 tokens; ParserCtl.tla: termination and no-nil-dereference of the parser's control skeleton checked by TLC for all token sequences up to its bound. Harness additions: every token of well-formed generated programs replaced by each of 17 poison tokens (overflowing number, break outside a loop, stray closers and openers, keywords, unterminated string, nothing); byte-level mutations (delete, duplicate, swap, truncate, insert delimiter) of well-formed generated programs, and nestings of depth up to 256 of every bracketing construct. Real-code oracle: Parse (plush.NewTemplate, and parser.Parse for the ParserCtl cases) returns within the watchdog without panicking; a template whose parse failed fails again when parsed or executed a second time. distinct_nontrivial = distinct inputs containing at least one tag opener."
	run := func(raw json.RawMessage) {
		var sc soupCase
		if err := json.Unmarshal(raw, &sc); err != nil {
			c.Fail("harness:json", err.Error(), string(raw))
			return
		}
		for fr, toks := range sc.Srcs {
			src := decodeChars(toks)
			c03Try(c, src, "soup:"+fr, map[string]interface{}{"gen": "Soup", "n": sc.N, "srcs": map[string][]string{fr: toks}, "source_text": src})
		}
	}
	if c.ReplayPath != "" {
		return replayFile(c, run)
	}
	if err := c03Model(c); err != nil {
		return err
	}
	pool := newPool(12, run)
	cfgs := []string{"Soup.quick.cfg", "Soup.quick3.cfg", "Soup.paths.cfg"}
	nsim := 60
	if c.Thorough() {
		cfgs = []string{"Soup.thorough.cfg", "Soup.thorough4.cfg", "Soup.paths6.cfg"}
		nsim = 300
	}
	var err error
	for _, cfg := range cfgs {
		if _, err = c.mustTLC("Soup/"+cfg, TLCOpts{Module: "Soup", Cfg: cfg, Workers: 12, Seed: c.Seed, Timeout: 60 * time.Minute}, true, pool.feed); err != nil {
			break
		}
	}
	if err == nil {
		_, err = c.mustTLC("Soup/sim", TLCOpts{Module: "Soup", Cfg: "Soup.sim.cfg", Simulate: nsim, Depth: 31, Seed: c.Seed, Timeout: 60 * time.Minute}, false, pool.feed)
	}
	if err == nil {
		// every short string over the text-mode bytes (backslashes, tag delimiters, quotes) and macro tags
		tcfg := "TextLex.quick.cfg"
		if c.Thorough() {
			tcfg = "TextLex.thorough.cfg"
		}
		_, err = c.mustTLC("TextLex/"+tcfg, TLCOpts{Module: "TextLex", Cfg: tcfg, Workers: 12, Seed: c.Seed, Timeout: 60 * time.Minute}, true, func(raw json.RawMessage) {
			pool.feed(append(json.RawMessage(`{"n":0,"srcs":{"text":`), append(textSrc(raw), []byte("}}")...)...))
		})
	}
	pool.close()
	if err != nil {
		return err
	}
	c.exhaustive = true

	// mutations of well-formed programs
	gens := []struct{ Module, Cfg string }{{"GenLoops", "GenLoops.quick.cfg"}, {"GenFaults", "GenFaults.quick.cfg"}, {"GenScopes", "GenScopes.quick.cfg"}, {"GenText", "GenText.quick.cfg"}, {"GenPaths", "GenPaths.quick.cfg"}, {"GenCompose", "GenCompose.quick.cfg"}}
	per, muts := 60, 40
	if c.Thorough() {
		per, muts = 600, 200
	}
	corpus, err := collectCorpus(c, gens, per)
	// (programs that loop over an open-ended interval and leave it with break are not mutated: without the break they run
	// for 2^63 iterations, and a goroutine cannot be stopped)
	kept := corpus[:0]
	for _, it := range corpus {
		if !strings.Contains(it.Src, "9223372036854775807") {
			kept = append(kept, it)
		}
	}
	corpus = kept
	if err != nil {
		return err
	}
	// token-level poisoning: every token of a well-formed program replaced by a token that makes the
	// sub-expression at that place fail to parse (or end early)
	poisons := [][]string{{"9", "9", "9", "9", "9", "9", "9", "9", "9", "9", "9", "9", "9", "9", "9", "9", "9", "9", "9", "9"}, {"break"}, {")"}, {"]"}, {"RBR"}, {"nil"}, {},
		{"fn"}, {"if"}, {"1", ".", "2", ".", "3"}, {"QUOT", "u"}, {"LBR"}, {"("}, {"["}, {","}, {"PCT", ">"}, {"<", "PCT"}}
	for ci, it := range corpus {
		if c.Thorough() || ci%2 == 0 {
			toks := it.Case.Src
			if len(toks) == 0 {
				for _, v := range it.Case.Srcs {
					toks = v
					break
				}
			}
			for i, t := range toks {
				if t == " " || len(toks) > 160 {
					continue
				}
				for pi, p := range poisons {
					if !c.Thorough() && (i+pi+ci)%3 != 0 {
						continue
					}
					mut := append(append(append([]string{}, toks[:i]...), p...), toks[i+1:]...)
					src := decodeChars(mut)
					c03Try(c, src, "poisoned-token", map[string]interface{}{"gen": "poison", "source_text": src, "of": it.Src, "position": i})
				}
			}
		}
	}
	rnd := rand.New(rand.NewSource(c.Seed))
	inserts := []string{"<%", "%>", "<%=", "<%#", "{", "}", "(", ")", "\"", "`", "\\", "[", "]", ",", " in ", " else ", "\x00", "#", "."}
	for _, it := range corpus {
		for m := 0; m < muts; m++ {
			b := []byte(it.Src)
			if len(b) < 2 {
				continue
			}
			i := rnd.Intn(len(b))
			j := rnd.Intn(len(b))
			kind := rnd.Intn(5)
			switch kind {
			case 0: // delete a span
				if i > j {
					i, j = j, i
				}
				if j-i > 6 {
					j = i + 1 + rnd.Intn(6)
				}
				b = append(append([]byte{}, b[:i]...), b[j:]...)
			case 1: // duplicate a span
				if i > j {
					i, j = j, i
				}
				if j-i > 8 {
					j = i + 8
				}
				b = append(append(append([]byte{}, b[:j]...), b[i:j]...), b[j:]...)
			case 2: // swap two bytes
				b[i], b[j] = b[j], b[i]
			case 3: // truncate
				b = b[:i]
			case 4: // insert a delimiter
				ins := inserts[rnd.Intn(len(inserts))]
				b = append(append(append([]byte{}, b[:i]...), ins...), b[i:]...)
			}
			src := string(b)
			c03Try(c, src, "mutation", map[string]interface{}{"gen": "mutation", "source_text": src, "of": it.Src})
		}
	}
	// deep nesting
	for _, d := range []int{1, 2, 8, 64, 256} {
		rep := strings.Repeat
		nest := map[string]string{
			"parens":   "<%= " + rep("(", d) + "1" + rep(")", d) + " %>",
			"brackets": "<%= " + rep("[", d) + "1" + rep("]", d) + " %>",
			"braces":   "<%= " + rep("{a: ", d) + "1" + rep("}", d) + " %>",
			"index":    "<%= x" + rep("[0]", d) + " %>",
			"calls":    "<%= " + rep("f(", d) + "1" + rep(")", d) + " %>",
			"bangs":    "<%= " + rep("!", d) + "x %>",
			"infix":    "<%= 1" + rep(" + 1", d) + " %>",
			"ifs":      rep("<%= if (true) { %>", d) + "x" + rep("<% } %>", d),
			"fors":     rep("<%= for (v) in [1] { %>", d) + "x" + rep("<% } %>", d),
			"fns":      "<% let f = " + rep("fn() { return ", d) + "1" + rep(" }", d) + " %>",
			"openers":  rep("<% ", d),
			"comments": rep("<%# ", d),
			"unclosed": "<%= " + rep("(", d),
			"elses":    "<%= if (false) { %>a" + rep("<% } else if (false) { %>b", d) + "<% } %>",
			"dots":     "<%= a" + rep(".b", d) + " %>",
			// an if in the else branch of an if, in the then branch of an if with an else, a loop in an else,
			// block helpers in block helpers, function calls with function-literal arguments
			"elseladder": rep("<%= if (false) { %>a<% } else { %>", d) + "y" + rep("<% } %>", d),
			"thenladder": rep("<%= if (true) { %>", d) + "y" + rep("<% } else { %>n<% } %>", d),
			"elsefor":    rep("<%= if (false) { %>a<% } else { %><%= for (v) in [1] { %>", d) + "y" + rep("<% } %><% } %>", d),
			"blocks":     rep("<%= blk() { %>", d) + "y" + rep("<% } %>", d),
			"fnargs":     "<%= " + rep("f(fn(x) { return ", d) + "1" + rep(" })", d) + " %>",
			"hasharr":    "<%= " + rep("{a: [", d) + "1" + rep("]}", d) + " %>",
			"minus":      "<%= " + rep("-", d) + "1 %>",
			"assigns":    "<% " + rep("a = ", d) + "1 %>",
			"idxassign":  "<% a" + rep("[0]", d) + " = 1 %>",
			"strings":    "<%= " + rep("\"", d) + " %>",
		}
		for name, src := range nest {
			c03Try(c, src, "nesting:"+name, map[string]interface{}{"gen": "nesting", "source_text": src, "depth": d, "construct": name})
		}
	}
	c03CachedSequence(c)
	c.extra["hangs_seen"] = atomic.LoadInt32(&c03Hangs)
	c03Isolated.closeAll()
	return nil
}

// c03CachedSequence: with the template cache switched on, a text that does not parse returns its error every time, and
// the parses that FOLLOW it return too (last phase of the check: what a failed parse left behind would stall everything
// after it in this process).
func c03CachedSequence(c *Ctx) {
	plush.CacheEnabled = true
	defer func() { plush.CacheEnabled = false }()
	bad := []string{"<%= ( %>", "<% let = %>", "<%= if (true) { %>x", "<%= \"open %>", "<%= [1, %>", "<% } %>", "<%= f( %>"}
	ctx := plush.NewContext()
	ctx.Set("name", "mark")
	for i, src := range bad {
		for _, entry := range []string{"Render", "Parse", "BuffaloRenderer"} {
			c.Eval("cached-sequence:" + entry + ":" + src)
			c.Rule("cached-sequence")
			cas := map[string]interface{}{"gen": "cached-sequence", "source_text": src, "entry": entry}
			first := guardedShort(3*time.Second, func() (string, error) {
				switch entry {
				case "Parse":
					_, err := plush.Parse(src)
					return "", err
				case "BuffaloRenderer":
					return plush.BuffaloRenderer(src, nil, nil)
				}
				return plush.Render(src, ctx)
			})
			good := fmt.Sprintf("<p><%%= name %%></p><%%# %d %s %%>", i, entry)
			after := guardedShort(3*time.Second, func() (string, error) { return plush.Render(good, ctx) })
			again := guardedShort(3*time.Second, func() (string, error) { return plush.Render(src, ctx) })
			switch {
			case first.Hang || first.Panic != "":
				c.Fail("cached:malformed-first", fmt.Sprintf("cache on, %s(%q): %+v, expected a return", entry, src, first), cas)
				return
			case after.Hang || after.Panic != "" || after.IsErr || after.Out != "<p>mark</p>":
				c.Fail("cached:after-failed-parse", fmt.Sprintf("cache on, after %s(%q) failed, Render(%q): %+v, expected \"<p>mark</p>\"", entry, src, good, after), cas)
				return
			case again.Hang || again.Panic != "" || (entry == "Render" && (again.IsErr != first.IsErr || again.Err != first.Err || again.Out != first.Out)):
				c.Fail("cached:malformed-again", fmt.Sprintf("cache on, Render(%q) again: %+v, the first time %+v", src, again, first), cas)
				return
			}
		}
	}
}

var parserTokSpelling = map[string]string{
	"ID": "x", "ATOM": "1", "BAD": "99999999999999999999", "LET": "let", "IF": "if", "ELSE": "else", "FOR": "for", "IN": "in", "FN": "fn",
	"RET": "return", "BRK": "break", "ASSIGN": "=", "OPA": "&&", "OPE": "==", "OPC": "<", "OPL": "+", "OPH": "*", "MINUS": "-", "BANG": "!",
	"LP": "(", "RP": ")", "LB": "{", "RB": "}", "LK": "[", "RK": "]", "COMMA": ",", "COLON": ":", "SEMI": ";", "DOT": ".", "ILL": "@",
	"SST": "<%", "EST": "<%=", "CST": "<%#", "END": "%>", "HTML": "text",
}

type parserCase struct {
	Toks []string `json:"toks"`
	Errs bool     `json:"errs"`
}

// c03Model: ParserCtl.tla is the control skeleton of the recursive-descent parser (PlusCal, one
// procedure per parse function). TLC checks NoPanic and Termination (liveness) for every token
// sequence within the bound; every sequence is then spelled out and fed to the real parser: it
// must return (no panic, no hang), and whether it reports a syntax error is compared with the
// machine's prediction, which binds the machine to the code (a difference is drift of the model).
func c03Model(c *Ctx) error {
	run := func(raw json.RawMessage) {
		var pc parserCase
		if json.Unmarshal(raw, &pc) != nil {
			return
		}
		words := make([]string, 0, len(pc.Toks))
		for _, t := range pc.Toks {
			words = append(words, parserTokSpelling[t])
		}
		src := strings.Join(words, " ")
		c.Eval("parserctl:" + strings.Join(pc.Toks, " "))
		c.Rule("parserctl")
		var perr error
		o := guarded(3*time.Second, func() (string, error) {
			_, perr = parser.Parse(src)
			return "", nil
		})
		cas := map[string]interface{}{"gen": "ParserCtl", "toks": pc.Toks, "errs": pc.Errs, "source_text": src}
		switch {
		case o.Hang:
			atomic.AddInt32(&c03Hangs, 1)
			c.Fail("hang", fmt.Sprintf("parser.Parse(%q) did not return within 63s (3s watchdog, then 60s more)", src), cas)
		case o.Panic != "":
			c.Fail("panic@"+o.Site, fmt.Sprintf("parser.Parse(%q) panicked: %s (in %s)", src, trunc(o.Panic, 120), o.Site), cas)
		case (perr != nil) != pc.Errs:
			c.Drift(fmt.Sprintf("ParserCtl predicts error=%v, parser error=%v", pc.Errs, perr != nil))
			c.mu.Lock()
			if ex, _ := c.extra["parserctl_drift_examples"].([]string); len(ex) < 12 {
				c.extra["parserctl_drift_examples"] = append(ex, fmt.Sprintf("%s  (model error=%v, real %v)", src, pc.Errs, perr))
			}
			c.mu.Unlock()
		}
		if len(pc.Toks) >= 4 {
			c.Sample(map[string]interface{}{"token_classes": pc.Toks, "source": src, "model_predicts_syntax_error": pc.Errs, "parser_error": fmt.Sprint(perr)})
		}
	}
	pool := newPool(12, run)
	cfgs := []string{"ParserCtlMC.quick.cfg"}
	if c.Thorough() {
		cfgs = []string{"ParserCtlMC.quick.cfg", "ParserCtlMC.k3.cfg", "ParserCtlMC.k4.cfg"}
	}
	var err error
	for _, cfg := range cfgs {
		if _, err = c.mustTLC("ParserCtl/"+cfg, TLCOpts{Module: "ParserCtlMC", Cfg: cfg, Workers: 14, Seed: c.Seed, Timeout: 60 * time.Minute}, true, pool.feed); err != nil {
			break
		}
	}
	pool.close()
	if err != nil {
		return err
	}
	for _, dev := range []string{"asbuilt", "asbuilt_live"} {
		r, err := RunTLC(TLCOpts{Module: "ParserCtlMC", Cfg: "ParserCtlMC." + dev + ".cfg", Workers: 8, Seed: c.Seed, Timeout: 20 * time.Minute, NoCases: true}, nil)
		if err != nil {
			return err
		}
		c.extra["model_sensitivity_parser_"+dev] = r.Violated
		if r.Violated == "" {
			return fmt.Errorf("ParserCtl.tla (%s) no longer violates its property", dev)
		}
	}
	return nil
}

// textSrc extracts the "src" token list of a TextLex case as raw JSON.
func textSrc(raw json.RawMessage) []byte {
	var t struct {
		Src json.RawMessage `json:"src"`
	}
	json.Unmarshal(raw, &t)
	if len(t.Src) == 0 {
		return []byte("[]")
	}
	return t.Src
}
