package main

import (
	"encoding/json"
	"fmt"
	"math"
	"time"

	"github.com/gobuffalo/plush/v5"
)

// C11 — path access returns exactly what Go navigation would, or fails; never another element.
//
// GenPaths.tla walks a data graph in which every leaf string spells its own Go path; the harness
// builds the same graph from real Go struct / map / slice / pointer types (leaves computed by the
// harness from the Go navigation itself, so the expectation is self-describing), renders every
// path in three uses and compares with the model's expectation: the leaf, or error / empty output.

type pI struct{ Name string }

type pK struct {
	Name     string
	Sub      *pK
	Tags     []string
	Inner    pI
	InnerPtr *pI
	NilInner *pI
	M        map[string]pK
	secret   string
	path     string
}

func (k pK) Hello() string { return k.path + ".Hello()" }
func (k pK) Twin() pK      { return mkKEnd(k.path + ".Twin()") }
func (k *pK) Me() *pK      { return k }
func (k *pK) Shout() string {
	if k == nil {
		return "nil.Shout()"
	}
	return k.path + ".Shout()"
}

type pR struct {
	Name    string
	Kid     *pK
	NilKid  *pK
	Kids    []pK
	KidPtrs []*pK
	M       map[string]pK
	MS      map[string]string
	Arr     [2]pK
	secret  string
	path    string
}

func (r pR) Hello() string { return r.path + ".Hello()" }
func (r *pR) Shout() string {
	if r == nil {
		return "nil.Shout()"
	}
	return r.path + ".Shout()"
}
func (r pR) Child() pK     { return mkK(r.path + ".Child()") }
func (r pR) ChildPtr() *pK { k := mkK(r.path + ".ChildPtr()"); return &k }
func (r pR) NilChild() *pK { return nil }

func mkK(p string) pK {
	k := mkKEnd(p)
	sub := mkKEnd(p + ".Sub")
	k.Sub = &sub
	k.M = map[string]pK{"b": mkKEnd(p + ".M[b]")}
	return k
}

func mkKEnd(p string) pK {
	return pK{Name: p + ".Name", Tags: []string{p + ".Tags[0]", p + ".Tags[1]"}, Inner: pI{p + ".Inner.Name"}, InnerPtr: &pI{p + ".InnerPtr.Name"}, M: map[string]pK{}, secret: "hidden", path: p}
}

func mkR(p string) pR {
	kid, kp0 := mkK(p+".Kid"), mkK(p+".KidPtrs[0]")
	return pR{Name: p + ".Name", Kid: &kid, Kids: []pK{mkK(p + ".Kids[0]"), mkK(p + ".Kids[1]")}, KidPtrs: []*pK{&kp0, nil},
		M: map[string]pK{"a": mkK(p + ".M[a]"), "b": mkK(p + ".M[b]")}, MS: map[string]string{"a": p + ".MS[a]"},
		Arr: [2]pK{mkK(p + ".Arr[0]"), mkK(p + ".Arr[1]")}, secret: "hidden", path: p}
}

// two different struct types with the same type name (declared in different functions) and the
// same field names at different positions
func mkTwinsA() interface{} {
	type Twin struct{ Title, Owner string }
	return []Twin{{"ta[0].Title", "ta[0].Owner"}, {"ta[1].Title", "ta[1].Owner"}}
}

func mkTwinsB() interface{} {
	type Twin struct {
		Pad   int
		Owner string
		Title string
	}
	return []Twin{{0, "tb[0].Owner", "tb[0].Title"}, {0, "tb[1].Owner", "tb[1].Title"}}
}

// two embedded structs that both lead to a field Author, the deeper one declared first
type PAudit struct{ Author string }
type PMeta struct {
	PAudit
	Stamp string
}
type PBy struct{ Author string }
type pE struct {
	PMeta
	PBy
	Title string
}

// a struct that embeds a POINTER (nil in some elements) to the struct its field ID is promoted from
type pBase struct{ ID string }
type pRow struct {
	*pBase
	Title string
}

func mkE(p string) pE {
	return pE{PMeta: PMeta{PAudit: PAudit{Author: p + ".PMeta.PAudit.Author"}, Stamp: p + ".PMeta.Stamp"}, PBy: PBy{Author: p + ".PBy.Author"}, Title: p + ".Title"}
}

func c11Context() *plush.Context {
	ctx := plush.NewContext()
	r, rp := mkR("r"), mkR("rp")
	ctx.Set("r", r)
	ctx.Set("rp", &rp)
	ctx.Set("rs", []pR{mkR("rs[0]"), mkR("rs[1]")})
	ctx.Set("rm", map[string]pR{"a": mkR("rm[a]")})
	ctx.Set("k", mkK("k"))
	ctx.Set("ks", []pK{mkK("ks[0]"), mkK("ks[1]")})
	ctx.Set("ta", mkTwinsA())
	ctx.Set("tb", mkTwinsB())
	pks := []pK{mkK("pks[0]"), mkK("pks[1]")}
	ctx.Set("pks", &pks)
	pm := map[string]pK{"a": mkK("pm[a]")}
	ctx.Set("pm", &pm)
	pm0 := map[string]pK{"a": mkK("pms[0][a]")}
	ctx.Set("pms", []*map[string]pK{&pm0})
	ctx.Set("im", map[int]pK{1: mkK("im[1]")})
	ctx.Set("em", mkE("em"))
	ctx.Set("ems", []pE{mkE("ems[0]")})
	ctx.Set("es", []pRow{{&pBase{"es[0].ID"}, "es[0].Title"}, {nil, "es[1].Title"}})
	amb := mkK("am[b]")
	ctx.Set("am", map[string]interface{}{"a": mkK("am[a]"), "b": &amb, "n": nil})
	ctx.Set("i0", 0)
	ctx.Set("i1", 1)
	ctx.Set("i9", 9)
	ctx.Set("imax", math.MaxInt)
	ctx.Set("ka", "a")
	ctx.Set("kz", "zz")
	return ctx
}

type pathExpect struct {
	K      string   `json:"k"`
	Pieces []piece  `json:"pieces"`
	Base   []string `json:"base"`
}

type pathCase struct {
	Srcs    map[string][]string   `json:"srcs"`
	Expects map[string]pathExpect `json:"expects"`
	Steps   int                   `json:"steps"`
	Reached string                `json:"reached"`
}

func init() { register("C11", checkC11) }

func checkC11(c *Ctx) error {
	c.ruleText = "GenPaths.tla: every navigation of up to MaxSteps steps (3 quick, 5 thorough) from six roots (struct, pointer to struct, slice of structs, map of structs, the inner struct type and a slice of it, whose Twin() method can be chained on its own result three times) over a graph of three struct types with value and pointer fields, nil pointers, slices, slices of pointers with a nil element, arrays, maps, value- and pointer-receiver methods returning strings, structs, pointers and nil; steps = field (existing / missing / unexported / through nil), index (literal 0..2 and variables, out of range), map key (present / missing, literal and variable), method call (existing / missing); each prefix in three uses (output tag, let binding, loop iterable). TLC checks NavTheorem / FailTheorem (the reference semantics follows the navigation). The harness builds the same graph from real Go types with every leaf spelling its own Go path and compares: completed navigation => exactly that leaf; otherwise an error or empty output, never another element, never a panic. distinct_nontrivial = distinct (path, use) with at least one step."
	run := func(raw json.RawMessage) { c11Run(c, raw) }
	if c.ReplayPath != "" {
		return replayFile(c, run)
	}
	pool := newPool(12, run)
	cfg := "GenPaths.quick.cfg"
	if c.Thorough() {
		cfg = "GenPaths.thorough.cfg"
	}
	_, err := c.mustTLC("GenPaths/"+cfg, TLCOpts{Module: "GenPaths", Cfg: cfg, Workers: 12, Seed: c.Seed, Timeout: 60 * time.Minute}, true, pool.feed)
	pool.close()
	if err == nil {
		c.exhaustive = true
	}
	return err
}

func c11Run(c *Ctx, raw json.RawMessage) {
	var pc pathCase
	if err := json.Unmarshal(raw, &pc); err != nil {
		c.Fail("harness:json", err.Error(), string(raw))
		return
	}
	for use, toks := range pc.Srcs {
		ex := pc.Expects[use]
		src := decodeChars(toks)
		shape := ""
		if pc.Steps >= 1 && ex.K != "unspec" {
			shape = src
		}
		c.Eval(shape)
		c.Rule("expect:" + ex.K + ":" + use)
		o := guarded(5*time.Second, func() (string, error) { return plush.Render(src, c11Context()) })
		if shape != "" && pc.Steps >= 2 {
			c.Sample(map[string]interface{}{"template": src, "expected": ex, "observed": o})
		}
		cas := map[string]interface{}{"gen": "GenPaths", "srcs": map[string][]string{use: toks}, "expects": map[string]pathExpect{use: ex}, "steps": pc.Steps, "reached": pc.Reached, "source_text": src, "observed": o}
		sigTail := use + ":" + pc.Reached
		switch {
		case o.Panic != "" || o.Hang:
			c.Fail("panic@"+o.Site+":"+sigTail, fmt.Sprintf("%s: panic %s", src, trunc(o.Panic, 120)), cas)
		case ex.K == "unspec":
		case ex.K == "modelgap":
			c.Drift("reference semantics cannot evaluate a completed path")
		case ex.K == "errorempty":
			if !o.IsErr && o.Out != decodeChars(ex.Base) {
				c.Fail("wrong-element:"+sigTail, fmt.Sprintf("%s: navigation cannot be completed, yet it rendered %q", src, o.Out), cas)
			}
		case ex.K == "outorerrorempty":
			if !o.IsErr && o.Out != decodeChars(ex.Base) {
				if ok, why := matchPieces(o.Out, ex.Pieces); !ok {
					c.Fail("wrong-value:"+sigTail, fmt.Sprintf("%s: Go navigation yields %q (an error or empty output would do as well), plush rendered %q (%s)", src, expectedText(ex.Pieces), o.Out, why), cas)
				}
			}
		case ex.K == "out":
			if o.IsErr {
				c.Fail("navigation-fails:"+sigTail, fmt.Sprintf("%s: Go navigation yields %q, plush fails: %s", src, expectedText(ex.Pieces), trunc(o.Err, 140)), cas)
			} else if ok, why := matchPieces(o.Out, ex.Pieces); !ok {
				c.Fail("wrong-value:"+sigTail, fmt.Sprintf("%s: Go navigation yields %q, plush rendered %q (%s)", src, expectedText(ex.Pieces), o.Out, why), cas)
			}
		}
	}
}
