package main

import (
	"encoding/json"
	"fmt"
	"regexp"
	"strconv"
	"strings"
	"time"
)

// C15 — every template error names the line of the failing tag, invariant under shifting.
//
// GenLines.tla builds multi-line templates with one failing statement and computes the expected
// line declaratively (1 + newlines before the tag that contains the failing statement); TLC checks
// that the reference semantics reports an error for each (ErrTheorem) and the shift arithmetic
// (ShiftTheorem). The real Render must fail with an error that starts with "line N:", and
// rendering the template shifted down by k newlines must give the same error with every line
// number increased by exactly k.

type lineCase struct {
	Src    []string        `json:"src"`
	Twin   []string        `json:"twin"`
	PartsR json.RawMessage `json:"parts"`
	Line   int             `json:"line"`
	Max    int             `json:"maxline"`
	Fault  string          `json:"fault"`
	Place  string          `json:"place"`
	Wraps  bool            `json:"wraps"`
	Shape  string          `json:"shape"`
}

var reLine = regexp.MustCompile(`line (\d+):`)

// line numbers that refer to the template itself: at the start of the error and at the start of
// each further message (parser errors are joined by newlines); numbers inside a nested partial's
// message refer to the partial's own text
var reOwnLine = regexp.MustCompile(`(?m)^line (\d+):`)

func init() { register("C15", checkC15) }

func checkC15(c *Ctx) error {
	c.ruleText = "GenLines.tla: templates = up to MaxPre line-occupying items (text with newlines, blank lines, CR LF, a tag, a tag spread over three lines, double- and back-quoted strings containing newlines, a comment tag containing a newline, an output tag, a multi-line if block, a loop) followed by one failing tag of 24 kinds (unknown identifier, failing helper, type error, index out of range, unknown function, division by zero, silent and let / assignment variants, six syntax errors incl. an overflowing number, five run-time faults in a tag that spreads over several lines (the tag's first line must be named), three tags in which the input ends within an unterminated string (a line of the tag must be named)) in 14 placements (top level, if / else / for body, second iteration only, function body called later, helper block, directly after a one-line / multi-line block / loop, inside a partial, as the operand after a call / contentOf / partial that executed statements on other lines): MaxPre=1 quick (2.2k), 3 thorough. The expected line is declarative. Real code: Render fails, the error starts with `line N:` with the expected N, failing helpers stay wrapped, and for k in {1, 2, 7, 100} the template shifted by k newlines gives the identical error with every line number + k. distinct_nontrivial = distinct (fault, placement, preceding items)."
	run := func(raw json.RawMessage) { c15Run(c, raw) }
	if c.ReplayPath != "" {
		return replayFile(c, run)
	}
	pool := newPool(12, run)
	cfg := "GenLines.quick.cfg"
	if c.Thorough() {
		cfg = "GenLines.thorough.cfg"
	}
	_, err := c.mustTLC("GenLines/"+cfg, TLCOpts{Module: "GenLines", Cfg: cfg, Workers: 12, Seed: c.Seed, Timeout: 60 * time.Minute}, true, pool.feed)
	pool.close()
	if err == nil {
		c.exhaustive = true
	}
	return err
}

func c15Run(c *Ctx, raw json.RawMessage) {
	var lc lineCase
	if err := json.Unmarshal(raw, &lc); err != nil {
		c.Fail("harness:json", err.Error(), string(raw))
		return
	}
	sc := &semCase{Gen: "GenLines", PartsR: lc.PartsR, Data: absMap{}}
	sc.Expect.K = "unspec"
	src := decodeChars(lc.Src)
	c.Eval(lc.Shape)
	c.Rule(lc.Fault + ":" + lc.Place)
	v := runSem(sc, src, false)
	o := v.Obs
	cas := map[string]interface{}{"gen": "GenLines", "src": lc.Src, "parts": lc.PartsR, "line": lc.Line, "fault": lc.Fault, "place": lc.Place, "wraps": lc.Wraps, "shape": lc.Shape, "source_text": src, "observed": o}
	if lc.Line >= 3 {
		c.Sample(map[string]interface{}{"template": src, "expected_line": lc.Line, "error": o.Err})
	}
	sig := lc.Fault + ":" + lc.Place
	switch {
	case o.Panic != "" || o.Hang:
		c.Drift("crash")
		return
	case !o.IsErr:
		c.Drift("no-error") // a swallowed error is C05's verdict
		return
	}
	m := reLine.FindStringSubmatchIndex(o.Err)
	if m == nil || m[0] != 0 {
		c.Fail("no-line-prefix:"+sig, fmt.Sprintf("%q: error does not start with 'line N:': %s", src, trunc(o.Err, 160)), cas)
		return
	}
	got, _ := strconv.Atoi(o.Err[m[2]:m[3]])
	if lc.Max < lc.Line {
		lc.Max = lc.Line
	}
	// (when the input ends within an unterminated string of the tag: any line of the tag)
	if got < lc.Line || got > lc.Max {
		if strings.HasPrefix(lc.Fault, "late_") {
			// (the distance is part of the signature: the recorded finding is "the statement's own line", nothing else)
			c.Fail(fmt.Sprintf("wrong-line%+d:%s", got-lc.Line, sig), fmt.Sprintf("%q: error names line %d, the failing tag begins on line %d: %s", src, got, lc.Line, trunc(o.Err, 160)), cas)
		} else {
			c.Fail("wrong-line:"+sig, fmt.Sprintf("%q: error names line %d, the failing tag begins on line %d (ends on %d): %s", src, got, lc.Line, lc.Max, trunc(o.Err, 160)), cas)
			return
		}
	}
	if lc.Wraps && !o.Wraps {
		c.Fail("not-wrapped:"+sig, "error does not wrap the helper's error: "+o.Err, cas)
		return
	}
	// the text of a # comment is layout: with every comment blanked (line breaks kept) the same line is named
	if len(lc.Twin) > 0 {
		tsrc := decodeChars(lc.Twin)
		tv := runSem(sc, tsrc, false)
		tm := reLine.FindStringSubmatchIndex(tv.Obs.Err)
		if !tv.Obs.IsErr || tm == nil || tm[0] != 0 {
			c.Fail("comment-twin:no-line:"+sig, fmt.Sprintf("%q (the template %q with its comments blanked): %+v", tsrc, src, tv.Obs), cas)
			return
		}
		if tgot, _ := strconv.Atoi(tv.Obs.Err[tm[2]:tm[3]]); tgot != got {
			c.Fail("comment-moves-line:"+sig, fmt.Sprintf("%q names line %d, but with the comment text removed (%q) line %d", src, got, tsrc, tgot), cas)
			return
		}
	}
	// shifting
	for _, k := range []int{1, 2, 7, 100} {
		sv := runSem(sc, strings.Repeat("\n", k)+src, false)
		want := reOwnLine.ReplaceAllStringFunc(o.Err, func(s string) string {
			n, _ := strconv.Atoi(reOwnLine.FindStringSubmatch(s)[1])
			return fmt.Sprintf("line %d:", n+k)
		})
		if sv.Obs.Err != want {
			c.Fail("shift:"+sig, fmt.Sprintf("%q shifted down by %d lines: error %q, expected %q", src, k, trunc(sv.Obs.Err, 200), trunc(want, 200)), cas)
			return
		}
	}
}
