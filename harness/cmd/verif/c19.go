package main

import (
	"encoding/json"
	"fmt"
	"math"
	"math/big"
	"os"
	"os/exec"
	"path/filepath"
	"reflect"
	"strings"
	"time"

	"github.com/gobuffalo/plush/v5"
	"github.com/gobuffalo/plush/v5/helpers/iterators"
	"github.com/gobuffalo/plush/v5/helpers/meta"
)

// C19 — iterator and collection helpers produce exact sequences and partitions.
//
// Ranger.tla / GroupBy.tla are implementation-shaped machines (W-bit wrap-around ints for the
// ranger); TLC checks exact sequences, partition invariants and termination (liveness) and emits
// every (kind, a, b) / (len, n); the harness replays them on the real helpers, directly and
// through a template for loop. Model ints near the W-bit extremes are mapped to the real int
// extremes.

type rangerCase struct {
	Kind     string `json:"kind"`
	A, B     int
	Min, Max int
	Expected []int `json:"expected"`
}

type groupCase struct {
	Len    int     `json:"len"`
	N      int     `json:"n"`
	Error  bool    `json:"error"`
	Groups [][]int `json:"groups"`
}

func init() { register("C19", checkC19) }

func checkC19(c *Ctx) error {
	c.ruleText = "Ranger.tla: every range(a,b) / between(a,b) / until(n) with a, b, n over ALL W-bit integers (W=4 quick: -8..7, W=5 thorough: -16..15), the three values next to each W-bit extreme mapped to math.MinInt.. / ..math.MaxInt; TLC checks PrefixOK, Exact and Terminates (liveness) on the machine; the real iterators' first 40 values and exhaustion are compared with the declarative interval, directly and through a template for loop. GroupBy.tla: every (len 0..20 quick / 0..40 thorough) x (n -1..12); TLC checks Partition, YieldsAll, ErrorIffBadN, Terminates; both shipped implementations are run on []string, []int, []struct, []*struct, *[]string and arrays and through a template, and must yield exactly the model's groups. len(): strings (bytes), slices, arrays, maps, pointers to them, nil. distinct_nontrivial = distinct (helper, arguments) with a non-empty expected sequence or an extreme argument."
	run := func(raw json.RawMessage) {
		var probe struct {
			Gen string `json:"gen"`
		}
		json.Unmarshal(raw, &probe)
		if probe.Gen == "Ranger" {
			c19Ranger(c, raw)
		} else if probe.Gen == "LenOf" {
			c19LenOf(c, raw)
		} else {
			c19Group(c, raw)
		}
	}
	if c.ReplayPath != "" {
		return replayFile(c, run)
	}
	pool := newPool(8, run)
	rc, gc := "Ranger.quick.cfg", "GroupBy.quick.cfg"
	if c.Thorough() {
		rc, gc = "Ranger.thorough.cfg", "GroupBy.thorough.cfg"
	}
	_, err := c.mustTLC("Ranger/"+rc, TLCOpts{Module: "Ranger", Cfg: rc, Workers: 8, Seed: c.Seed, Timeout: 20 * time.Minute}, true, pool.feed)
	if err == nil {
		_, err = c.mustTLC("GroupBy/"+gc, TLCOpts{Module: "GroupBy", Cfg: gc, Workers: 8, Seed: c.Seed, Timeout: 20 * time.Minute}, true, pool.feed)
	}
	if err == nil {
		_, err = c.mustTLC("LenOf/LenOf.quick.cfg", TLCOpts{Module: "LenOf", Cfg: "LenOf.quick.cfg", Workers: 4, Seed: c.Seed, Timeout: 10 * time.Minute}, true, pool.feed)
	}
	pool.close()
	if err != nil {
		return err
	}
	c.exhaustive = true
	if lr, lerr := RunTLC(TLCOpts{Module: "LenOf", Cfg: "LenOf.asbuilt.cfg", Workers: 2, Seed: c.Seed, Timeout: 5 * time.Minute, NoCases: true}, nil); lerr != nil {
		return lerr
	} else if lr.Violated == "" {
		return fmt.Errorf("LenOf.tla no longer distinguishes the IsZero shortcut")
	} else {
		c.extra["model_sensitivity_len"] = fmt.Sprintf("LenOf.tla with ZeroShortcut=TRUE: TLC reports %q", lr.Violated)
	}
	r, err := RunTLC(TLCOpts{Module: "Ranger", Cfg: "Ranger.asbuilt.cfg", Workers: 4, Seed: c.Seed, Timeout: 10 * time.Minute, NoCases: true}, nil)
	if err != nil {
		return err
	}
	c.extra["model_sensitivity"] = fmt.Sprintf("Ranger.tla with Overflow=TRUE (constructors of the pinned commit): TLC reports %q", r.Violated)
	if r.Violated == "" {
		return fmt.Errorf("Ranger.tla no longer distinguishes the overflowing constructors")
	}
	c19Len(c)
	return c19Apalache(c)
}

// c19Apalache: the inductive invariant of RangerInd.tla (the repaired iterator over the FULL 64-bit range, all a and b
// at once) is discharged by Apalache -- base case and inductive step -- and the deviation without the guards at the
// extremes is refuted.  (Apalache missing or timing out is a tooling failure, never a verdict.)
func c19Apalache(c *Ctx) error {
	dir, err := os.MkdirTemp("", "verif-apalache-")
	if err != nil {
		return err
	}
	defer os.RemoveAll(dir)
	for _, f := range []string{"RangerInd.tla", "RangerIndDev.tla"} {
		b, err := os.ReadFile(filepath.Join(verifRoot, "spec", f))
		if err != nil {
			return err
		}
		os.WriteFile(filepath.Join(dir, f), b, 0o644)
	}
	run := func(module, init string, length int) (string, error) {
		cmd := exec.Command("timeout", "600", "apalache-mc", "check", "--init="+init, "--inv=IndInv", fmt.Sprintf("--length=%d", length), module+".tla")
		cmd.Dir = dir
		cmd.Env = append(os.Environ(), "TMPDIR="+dir) // (the launcher makes a scratch directory with mktemp -t and leaves it behind)
		out, _ := cmd.CombinedOutput()
		switch {
		case strings.Contains(string(out), "EXITCODE: OK"):
			return "holds", nil
		case strings.Contains(string(out), "EXITCODE: ERROR (12)"):
			return "violated", nil
		}
		return "", fmt.Errorf("apalache-mc on %s: %s", module, trunc(string(out), 400))
	}
	res := map[string]string{}
	for _, st := range []struct {
		name, module, init string
		length             int
		want               string
	}{
		{"base: Init => IndInv", "RangerInd", "Init", 0, "holds"},
		{"step: IndInv /\\ Next => IndInv'", "RangerInd", "IndInv", 1, "holds"},
		{"deviation (no guards at the extremes): Init => IndInv", "RangerIndDev", "Init", 0, "violated"},
	} {
		got, err := run(st.module, st.init, st.length)
		if err != nil {
			return err
		}
		res[st.name] = got
		if got != st.want {
			return fmt.Errorf("RangerInd.tla: %s is %s, expected %s", st.name, got, st.want)
		}
	}
	c.extra["apalache_inductive_invariant"] = map[string]interface{}{"module": "RangerInd.tla", "range": "all a, b in [-2^63, 2^63-1]", "results": res}
	return nil
}

// mapInt maps a W-bit model integer to a real int: the values next to the model's extremes
// become the values next to the real extremes.
func mapInt(v, min, max int) int {
	switch {
	case v <= min+2:
		return math.MinInt + (v - min)
	case v >= max-2:
		return math.MaxInt - (max - v)
	}
	return v
}

const c19Take = 40

// declared interval of the call, in unbounded arithmetic
func c19Interval(kind string, a, b int) (lo, hi *big.Int) {
	A, B := big.NewInt(int64(a)), big.NewInt(int64(b))
	one := big.NewInt(1)
	switch kind {
	case "range":
		return A, B
	case "between":
		return new(big.Int).Add(A, one), new(big.Int).Sub(B, one)
	}
	return big.NewInt(0), new(big.Int).Sub(A, one)
}

func c19Expected(kind string, a, b int) (first []int, more bool) {
	lo, hi := c19Interval(kind, a, b)
	for i := 0; i < c19Take; i++ {
		v := new(big.Int).Add(lo, big.NewInt(int64(i)))
		if v.Cmp(hi) > 0 {
			return first, false
		}
		first = append(first, int(v.Int64()))
	}
	v := new(big.Int).Add(lo, big.NewInt(int64(c19Take)))
	return first, v.Cmp(hi) <= 0
}

func c19Drain(it iterators.Iterator) (vals []int, more bool, bad string) {
	for i := 0; i <= c19Take; i++ {
		x := it.Next()
		if x == nil {
			return vals, false, ""
		}
		n, ok := x.(int)
		if !ok {
			return vals, false, fmt.Sprintf("yielded %T", x)
		}
		if i == c19Take {
			return vals, true, ""
		}
		vals = append(vals, n)
	}
	return vals, true, ""
}

func c19Ranger(c *Ctx, raw json.RawMessage) {
	var rc rangerCase
	if err := json.Unmarshal(raw, &rc); err != nil {
		c.Fail("harness:json", err.Error(), string(raw))
		return
	}
	a, b := mapInt(rc.A, rc.Min, rc.Max), mapInt(rc.B, rc.Min, rc.Max)
	want, wantMore := c19Expected(rc.Kind, a, b)
	extreme := a == math.MinInt || a == math.MaxInt || (rc.Kind != "until" && (b == math.MinInt || b == math.MaxInt))
	shape := ""
	if len(want) > 0 || extreme {
		shape = fmt.Sprintf("%s(%d,%d)", rc.Kind, a, b)
	}
	zone := func(v int) string {
		switch {
		case v < -1000:
			return "min"
		case v > 1000:
			return "max"
		}
		return "mid"
	}
	sigBase := fmt.Sprintf("%s:a=%s:b=%s", rc.Kind, zone(a), zone(b))
	cas := map[string]interface{}{"gen": "Ranger", "kind": rc.Kind, "a": rc.A, "b": rc.B, "min": rc.Min, "max": rc.Max, "expected": rc.Expected, "real_a": a, "real_b": b}

	// direct call
	c.Eval(shape)
	c.Rule(rc.Kind)
	var got []int
	var more bool
	var bad string
	o := guarded(5*time.Second, func() (string, error) {
		var it iterators.Iterator
		switch rc.Kind {
		case "range":
			it = iterators.Range(a, b)
		case "between":
			it = iterators.Between(a, b)
		default:
			it = iterators.Until(a)
		}
		got, more, bad = c19Drain(it)
		return "", nil
	})
	if shape != "" {
		c.Sample(map[string]interface{}{"call": shape, "expected_first": want, "expected_more": wantMore, "got_first": got, "got_more": more})
	}
	switch {
	case o.Hang || o.Panic != "":
		c.Fail("direct:"+sigBase+":crash", fmt.Sprintf("%s(%d,%d): hang=%v panic=%s", rc.Kind, a, b, o.Hang, o.Panic), cas)
	case bad != "":
		c.Fail("direct:"+sigBase+":type", bad, cas)
	case !reflect.DeepEqual(intsOrEmpty(got), intsOrEmpty(want)) || more != wantMore:
		c.Fail("direct:"+sigBase, fmt.Sprintf("%s(%d,%d) yields %v (more=%v), the interval is %v (more=%v)", rc.Kind, a, b, head(got), more, head(want), wantMore), cas)
	}

	// through a template for loop (bounded output: only when the interval is short)
	if wantMore {
		return
	}
	c.Eval(shape)
	call := fmt.Sprintf("%s(a, b)", rc.Kind)
	if rc.Kind == "until" {
		call = "until(a)"
	}
	src := "<%= for (k, v) in " + call + " { %><%= k %>:<%= v %>,<% } %>"
	ctx := plush.NewContext()
	ctx.Set("a", a)
	ctx.Set("b", b)
	var sb strings.Builder
	for i, v := range want {
		fmt.Fprintf(&sb, "%d:%d,", i, v)
	}
	ro := guarded(5*time.Second, func() (string, error) { return plush.Render(src, ctx) })
	switch {
	case ro.Hang || ro.Panic != "":
		c.Fail("template:"+sigBase+":crash", fmt.Sprintf("%s with a=%d b=%d: hang=%v panic=%s", src, a, b, ro.Hang, ro.Panic), cas)
	case ro.IsErr:
		c.Fail("template:"+sigBase+":error", fmt.Sprintf("%s with a=%d b=%d: %s", src, a, b, ro.Err), cas)
	case ro.Out != sb.String():
		c.Fail("template:"+sigBase, fmt.Sprintf("%s with a=%d b=%d rendered %q, want %q", src, a, b, trunc(ro.Out, 120), trunc(sb.String(), 120)), cas)
	}

	// ... and with a `continue` that skips one member: every other member is still visited exactly once, in order
	// (tick bounds the run: a loop that does not advance ends with an error instead of spinning)
	if len(want) == 0 {
		return
	}
	skip := want[len(want)/2]
	srcC := "<%= for (k, v) in " + call + " { %><% tick() %><% if (v == s) { continue } %><%= k %>:<%= v %>,<% } %>"
	ctxC := plush.NewContext()
	ctxC.Set("a", a)
	ctxC.Set("b", b)
	ctxC.Set("s", skip)
	ticks := 0
	ctxC.Set("tick", func() error {
		if ticks++; ticks > len(want)+5 {
			return fmt.Errorf("the body ran %d times for %d members", ticks, len(want))
		}
		return nil
	})
	var sc strings.Builder
	for i, v := range want {
		if v != skip {
			fmt.Fprintf(&sc, "%d:%d,", i, v)
		}
	}
	rc2 := guarded(5*time.Second, func() (string, error) { return plush.Render(srcC, ctxC) })
	if rc2.Hang || rc2.Panic != "" || rc2.IsErr || rc2.Out != sc.String() {
		c.Fail("template-continue:"+sigBase, fmt.Sprintf("%s with a=%d b=%d s=%d: %+v, want %q", srcC, a, b, skip, rc2, trunc(sc.String(), 120)), cas)
	}
}

func intsOrEmpty(x []int) []int {
	if x == nil {
		return []int{}
	}
	return x
}

func head(x []int) []int {
	if len(x) > 6 {
		return x[:6]
	}
	return x
}

type gElem struct{ ID int }

// c19Slices builds xs = [0, 1, .., n-1] in several element / container types, with an accessor
// that returns the identities of the elements of a yielded group.
func c19Slices(n int) map[string]interface{} {
	strs, ints, structs, ptrs := make([]string, n), make([]int, n), make([]gElem, n), make([]*gElem, n)
	for i := 0; i < n; i++ {
		strs[i], ints[i], structs[i], ptrs[i] = fmt.Sprint(i), i, gElem{i}, &gElem{i}
	}
	arr := reflect.New(reflect.ArrayOf(n, reflect.TypeOf(0))).Elem()
	for i := 0; i < n; i++ {
		arr.Index(i).SetInt(int64(i))
	}
	// slices with spare capacity whose backing array holds other data beyond len
	capInts := make([]int, n, n+5)
	capStrs := append(make([]string, 0, n+3), strs...)
	for i := 0; i < n; i++ {
		capInts[i] = i
	}
	full := capInts[:cap(capInts)]
	for i := n; i < len(full); i++ {
		full[i] = 9000 + i
	}
	resliced := append([]int{}, ints...)
	resliced = append(resliced, 777, 888)[:n]
	if n == 0 {
		// no elements: also the nil slices (a nil slice is an empty slice), directly and behind a pointer
		var nilStrs []string
		var nilAny []interface{}
		return map[string]interface{}{"[]string": strs, "[]int": ints, "[]struct": structs, "*[]string": &strs, "array": arr.Interface(),
			"nil []string": nilStrs, "nil []interface{}": nilAny, "*nil []string": &nilStrs}
	}
	return map[string]interface{}{"[]string": strs, "[]int": ints, "[]struct": structs, "[]*struct": ptrs, "*[]string": &strs, "*[]int": &ints, "array": arr.Interface(),
		"[]int+cap": capInts, "[]string+cap": capStrs, "*[]int+cap": &resliced}
}

func c19IDs(group interface{}) []int {
	rv := reflect.Indirect(reflect.ValueOf(group))
	ids := []int{}
	for i := 0; i < rv.Len(); i++ {
		e := rv.Index(i).Interface()
		switch t := e.(type) {
		case string:
			var n int
			fmt.Sscan(t, &n)
			ids = append(ids, n)
		case int:
			ids = append(ids, t)
		case gElem:
			ids = append(ids, t.ID)
		case *gElem:
			ids = append(ids, t.ID)
		}
	}
	return ids
}

func c19Group(c *Ctx, raw json.RawMessage) {
	var gc groupCase
	if err := json.Unmarshal(raw, &gc); err != nil {
		c.Fail("harness:json", err.Error(), string(raw))
		return
	}
	want := [][]int{}
	for _, g := range gc.Groups {
		ids := []int{}
		for i := g[0]; i < g[1]; i++ {
			ids = append(ids, i)
		}
		want = append(want, ids)
	}
	impls := map[string]func(int, interface{}) (iterators.Iterator, error){
		"iterators.GroupBy": iterators.GroupBy,
		"plush.GroupByHelper": func(n int, u interface{}) (iterators.Iterator, error) {
			g, err := plush.GroupByHelper(n, u)
			if err != nil {
				return nil, err
			}
			return g, nil
		},
	}
	if gc.N >= 1000000-8 {
		gc.N = math.MaxInt - (1000000 - gc.N) // the model's Big stands for math.MaxInt
	}
	for tname, xs := range c19Slices(gc.Len) {
		for iname, impl := range impls {
			shape := ""
			if gc.Len > 0 {
				shape = fmt.Sprintf("groupBy(%d,%s/%d)", gc.N, tname, gc.Len)
			}
			c.Eval(shape)
			c.Rule("groupBy:" + tname)
			var got [][]int
			var gerr error
			kindBad := ""
			o := guarded(5*time.Second, func() (string, error) {
				it, err := impl(gc.N, xs)
				if err != nil {
					gerr = err
					return "", nil
				}
				for i := 0; i < 200; i++ {
					g := it.Next()
					if g == nil {
						break
					}
					// a group is itself a sequence (a consecutive part of xs), not a pointer to one
					if k := reflect.ValueOf(g).Kind(); k != reflect.Slice && k != reflect.Array {
						kindBad = fmt.Sprintf("%T", g)
					}
					got = append(got, c19IDs(g))
				}
				return "", nil
			})
			cas := map[string]interface{}{"gen": "GroupBy", "len": gc.Len, "n": gc.N, "error": gc.Error, "groups": gc.Groups, "impl": iname, "type": tname}
			sig := fmt.Sprintf("groupBy:%s:%s", iname, tname)
			if gc.Len > 2 && gc.N > 1 && tname == "[]int" {
				c.Sample(map[string]interface{}{"call": fmt.Sprintf("%s(%d, %s of %d)", iname, gc.N, tname, gc.Len), "expected_groups": want, "got": got, "error": fmt.Sprint(gerr)})
			}
			switch {
			case o.Hang || o.Panic != "":
				c.Fail(sig+":crash", fmt.Sprintf("%s(%d, %s len %d): hang=%v panic=%s", iname, gc.N, tname, gc.Len, o.Hang, o.Panic), cas)
			case gc.Error != (gerr != nil):
				c.Fail(sig+":error", fmt.Sprintf("%s(%d, %s len %d): error=%v, want error=%v", iname, gc.N, tname, gc.Len, gerr, gc.Error), cas)
			case kindBad != "":
				c.Fail(sig+":group-type", fmt.Sprintf("%s(%d, %s len %d) yields a group of type %s: not a sequence", iname, gc.N, tname, gc.Len, kindBad), cas)
			case !gc.Error && !reflect.DeepEqual(got, want) && !(len(got) == 0 && len(want) == 0):
				c.Fail(sig, fmt.Sprintf("%s(%d, %s len %d) yields %v, want %v", iname, gc.N, tname, gc.Len, got, want), cas)
			}
		}
	}
	// through a template
	if gc.Error || gc.Len > 12 {
		return
	}
	c.Eval("")
	ctx := plush.NewContext()
	ctx.Set("xs", c19Slices(gc.Len)["[]int"])
	ctx.Set("n", gc.N)
	src := "<%= for (g) in groupBy(n, xs) { %>[<%= for (x) in g { %><%= x %>,<% } %>]<% } %>"
	var sb strings.Builder
	for _, g := range want {
		sb.WriteString("[")
		for _, x := range g {
			fmt.Fprintf(&sb, "%d,", x)
		}
		sb.WriteString("]")
	}
	ro := guarded(5*time.Second, func() (string, error) { return plush.Render(src, ctx) })
	if ro.Hang || ro.Panic != "" || ro.IsErr || ro.Out != sb.String() {
		c.Fail("groupBy:template", fmt.Sprintf("groupBy(%d, []int of %d) in a template: %+v, want %q", gc.N, gc.Len, ro, sb.String()),
			map[string]interface{}{"gen": "GroupBy", "len": gc.Len, "n": gc.N, "error": gc.Error, "groups": gc.Groups})
	}
	// ... and skipping the groups of another length than the first with `continue`
	if len(want) == 0 {
		return
	}
	ticks := 0
	ctx.Set("tick", func() error {
		if ticks++; ticks > len(want)+5 {
			return fmt.Errorf("the body ran %d times for %d groups", ticks, len(want))
		}
		return nil
	})
	ctx.Set("m", len(want[0]))
	srcC := "<%= for (g) in groupBy(n, xs) { %><% tick() %><% if (len(g) != m) { continue } %>[<%= for (x) in g { %><%= x %>,<% } %>]<% } %>"
	var sc strings.Builder
	for _, g := range want {
		if len(g) != len(want[0]) {
			continue
		}
		sc.WriteString("[")
		for _, x := range g {
			fmt.Fprintf(&sc, "%d,", x)
		}
		sc.WriteString("]")
	}
	rc2 := guarded(5*time.Second, func() (string, error) { return plush.Render(srcC, ctx) })
	if rc2.Hang || rc2.Panic != "" || rc2.IsErr || rc2.Out != sc.String() {
		c.Fail("groupBy:template-continue", fmt.Sprintf("%s with n=%d, []int of %d: %+v, want %q", srcC, gc.N, gc.Len, rc2, sc.String()),
			map[string]interface{}{"gen": "GroupBy", "len": gc.Len, "n": gc.N, "error": gc.Error, "groups": gc.Groups})
	}
}

// c19Len: len(x) is the Go length of a string, slice, array, map or pointer to one; nil is 0.
func c19Len(c *Ctx) {
	s3 := "aé" // 3 bytes
	sl := []int{1, 2, 3, 4}
	arr := [2]string{"a", "b"}
	m := map[string]int{"a": 1, "b": 2, "c": 3}
	cases := []struct {
		name string
		v    interface{}
		want int
	}{
		{"string", s3, 3}, {"empty string", "", 0}, {"slice", sl, 4}, {"nil slice", []int(nil), 0}, {"array", arr, 2},
		{"map", m, 3}, {"nil map", map[string]int(nil), 0}, {"*slice", &sl, 4}, {"*array", &arr, 2}, {"*map", &m, 3}, {"*string", &s3, 3},
		{"nil", nil, 0}, {"[]interface{}", []interface{}{1, "a"}, 2},
	}
	for _, tc := range cases {
		c.Eval("len(" + tc.name + ")")
		c.Rule("len")
		got := -1
		o := guarded(2*time.Second, func() (string, error) { got = meta.Len(tc.v); return "", nil })
		if o.Panic != "" || got != tc.want {
			c.Fail("len:"+tc.name, fmt.Sprintf("len(%s) = %d (panic %q), want %d", tc.name, got, o.Panic, tc.want), map[string]interface{}{"gen": "Len", "name": tc.name})
		}
		if tc.v == nil {
			continue
		}
		ctx := plush.NewContext()
		ctx.Set("x", tc.v)
		ro := guarded(2*time.Second, func() (string, error) { return plush.Render("<%= len(x) %>", ctx) })
		if ro.Out != fmt.Sprint(tc.want) {
			c.Fail("len:template:"+tc.name, fmt.Sprintf("<%%= len(x) %%> with x %s rendered %+v, want %d", tc.name, ro, tc.want), map[string]interface{}{"gen": "Len", "name": tc.name})
		}
	}
}

// ---------------------------------------------------------------- LenOf.tla

type lenCase struct {
	V struct {
		Kind    string `json:"kind"`
		N       int    `json:"n"`
		Fill    string `json:"fill"`
		Ptr     int    `json:"ptr"`
		NilBase bool   `json:"nilbase"`
		NilPtr  bool   `json:"nilptr"`
		Meth    bool   `json:"meth"`
	} `json:"v"`
	Specified bool `json:"specified"`
	Want      int  `json:"want"`
	Impl      int  `json:"impl"`
}

type lenStrS string
type lenSliceS []int
type lenMapS map[string]int

func (s lenStrS) String() string   { return "a string that prints as something much longer" }
func (s lenSliceS) String() string { return "a slice that prints as something much longer" }
func (m lenMapS) String() string   { return "a map that prints as something much longer" }

// lenValue builds the Go value an abstract LenOf value stands for.
func lenValue(lc *lenCase) interface{} {
	v := lc.V
	el := func(i int) int {
		if v.Fill == "zero" {
			return 0
		}
		return i + 1
	}
	var base reflect.Value
	switch v.Kind {
	case "untyped_nil":
		return nil
	case "string":
		b := make([]byte, v.N)
		for i := range b {
			if v.Fill != "zero" {
				b[i] = byte('a' + i)
			}
		}
		base = reflect.ValueOf(string(b))
	case "slice":
		if v.NilBase {
			base = reflect.ValueOf([]int(nil))
		} else {
			xs := make([]int, v.N)
			for i := range xs {
				xs[i] = el(i)
			}
			base = reflect.ValueOf(xs)
		}
	case "array":
		base = reflect.New(reflect.ArrayOf(v.N, reflect.TypeOf(0))).Elem()
		for i := 0; i < v.N; i++ {
			base.Index(i).SetInt(int64(el(i)))
		}
	case "map":
		if v.NilBase {
			base = reflect.ValueOf(map[string]int(nil))
		} else {
			m := map[string]int{}
			for i := 0; i < v.N; i++ {
				m[fmt.Sprintf("k%d", i)] = el(i)
			}
			base = reflect.ValueOf(m)
		}
	case "int":
		base = reflect.ValueOf(0)
	case "struct":
		base = reflect.ValueOf(struct{ A int }{})
	}
	if v.Meth {
		// the same value as a defined type that prints itself
		switch v.Kind {
		case "string":
			base = base.Convert(reflect.TypeOf(lenStrS("")))
		case "slice":
			base = base.Convert(reflect.TypeOf(lenSliceS(nil)))
		case "map":
			base = base.Convert(reflect.TypeOf(lenMapS(nil)))
		}
	}
	cur := base
	for p := 0; p < v.Ptr; p++ {
		if p == v.Ptr-1 && v.NilPtr {
			cur = reflect.Zero(reflect.PointerTo(cur.Type()))
			break
		}
		ptr := reflect.New(cur.Type())
		ptr.Elem().Set(cur)
		cur = ptr
	}
	return cur.Interface()
}

func c19LenOf(c *Ctx, raw json.RawMessage) {
	var lc lenCase
	if err := json.Unmarshal(raw, &lc); err != nil {
		c.Fail("harness:json", err.Error(), string(raw))
		return
	}
	x := lenValue(&lc)
	name := fmt.Sprintf("%T/n=%d/%s", x, lc.V.N, lc.V.Fill)
	if lc.V.NilBase || lc.V.NilPtr {
		name += "/nil"
	}
	shape := ""
	if lc.Specified {
		shape = "len(" + name + ")"
	}
	c.Eval(shape)
	c.Rule("len")
	got := -1
	o := guarded(2*time.Second, func() (string, error) { got = meta.Len(x); return "", nil })
	cas := map[string]interface{}{"gen": "LenOf", "v": lc.V, "specified": lc.Specified, "want": lc.Want, "impl": lc.Impl}
	switch {
	case o.Panic != "" || o.Hang:
		c.Fail("len:crash:"+lc.V.Kind, fmt.Sprintf("len(%s): panic %q hang %v", name, o.Panic, o.Hang), cas)
		return
	case lc.Specified && got != lc.Want:
		c.Fail("len:"+lc.V.Kind, fmt.Sprintf("len(%s) = %d, the Go length is %d", name, got, lc.Want), cas)
		return
	case !lc.Specified && got != lc.Impl:
		c.Drift("len:outside-the-statement:differs-from-transcription")
	}
	if x == nil {
		return
	}
	ctx := plush.NewContext()
	ctx.Set("x", x)
	ro := guarded(2*time.Second, func() (string, error) { return plush.Render("<%= len(x) %>", ctx) })
	if ro.Panic != "" || ro.Hang {
		c.Fail("len:template:crash:"+lc.V.Kind, fmt.Sprintf("<%%= len(x) %%> with x %s: %+v", name, ro), cas)
	} else if lc.Specified && ro.Out != fmt.Sprint(lc.Want) {
		c.Fail("len:template:"+lc.V.Kind, fmt.Sprintf("<%%= len(x) %%> with x %s rendered %+v, want %d", name, ro, lc.Want), cas)
	}
}
