// Command verif is the conformance driver of the model-based verification of
// gobuffalo/plush: it runs TLC on the TLA+ specifications under /verif/spec,
// reads the cases / behaviours TLC emits, replays them into the real plush code
// (linked from /repo's current working tree) and validates traces recorded from
// the real code against the trace specifications.
//
//	verif check <ID> [--tier quick|thorough] [--replay path]
//
// exit 0: property held on everything explored (KNOWN-FINDING lines possible)
// exit 1: "VIOLATION property=<id> replay=<path>" printed
// exit 2: tooling failure / inconclusive (never a verdict)
package main

import (
	"flag"
	"fmt"
	"os"
	"sort"
	"strconv"
	"strings"
	"time"
)

// checkFn runs one property check. A returned error is a tooling failure.
type checkFn func(c *Ctx) error

var checks = map[string]checkFn{}

func register(id string, f checkFn) { checks[id] = f }

func main() {
	if len(os.Args) < 2 {
		usage()
	}
	switch os.Args[1] {
	case "check":
		os.Exit(runCheck(os.Args[2:]))
	case "list":
		ids := []string{}
		for id := range checks {
			ids = append(ids, id)
		}
		sort.Strings(ids)
		fmt.Println(strings.Join(ids, " "))
	case "worker":
		// internal sub-commands (used e.g. by the race-detector build)
		os.Exit(runWorker(os.Args[2:]))
	default:
		usage()
	}
}

func usage() {
	fmt.Fprintln(os.Stderr, "usage: verif check <ID> [--tier quick|thorough] [--replay path] | verif list")
	os.Exit(2)
}

func runCheck(args []string) int {
	if len(args) < 1 {
		usage()
	}
	id := args[0]
	fs := flag.NewFlagSet("check", flag.ExitOnError)
	tier := fs.String("tier", envOr("VERIF_TIER", "quick"), "quick|thorough")
	replay := fs.String("replay", "", "replay one recorded case")
	fs.Parse(args[1:])
	if *tier != "quick" && *tier != "thorough" {
		*tier = "quick"
	}
	f, ok := checks[id]
	if !ok {
		fmt.Fprintf(os.Stderr, "unknown property %s\n", id)
		return 2
	}
	seed := int64(1)
	if s := os.Getenv("VERIF_SEED"); s != "" {
		if v, err := strconv.ParseInt(s, 10, 64); err == nil {
			seed = v
		}
	}
	seedChars(seed)
	if *tier == "thorough" {
		// the larger scopes of this tier outgrow the small heap that is fastest for the quick tier (GenScopes and GenExpr
		// ended in back-to-back full collections at 6g once their generators had grown)
		defaultXmx = "14g"
	}
	c := newCtx(id, *tier, seed)
	c.ReplayPath = *replay
	err := f(c)
	return c.finish(err)
}

func envOr(k, d string) string {
	if v := os.Getenv(k); v != "" {
		return v
	}
	return d
}

var startTime = time.Now()
