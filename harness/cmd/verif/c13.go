package main

import (
	"encoding/json"
	"fmt"
	"hash/fnv"
	"reflect"
	"sort"
	"time"

	"github.com/gobuffalo/plush/v5"
)

// C13 — rendering is a deterministic function of template and data; templates are immutable.
//
// CacheMC.tla enumerates histories of Parse / Render / Exec / Clone / Toggle over the cache machine
// (invariants OwnText, SameSource; action property Immutable). Each history is replayed on the
// real API with texts drawn from a corpus of generated programs: the outcome of every Parse
// (fresh / hit / insert) must be the model's, every result for the same (text, data) must be
// identical (output, error text and recorded helper-call sequence), and the parsed program's
// deep structural hash (via the verif accessor) must not change across any Exec.
// Direction 2: Parse / CacheSet events recorded from the repository's tests are validated against
// CacheTrace.tla.

type cacheEvent struct {
	Op  string `json:"op"`
	X   string `json:"x"`
	D   string `json:"d"`
	Out string `json:"out"`
	T   int    `json:"t"`
	NT  int    `json:"nt"`
}

type cacheCase struct {
	Hist []cacheEvent `json:"hist"`
}

func init() { register("C13", checkC13) }

type c13State struct {
	corpus []corpusItem
	n      int
}

func checkC13(c *Ctx) error {
	c.ruleText = "CacheMC.tla: every history of <= MaxOps operations {Parse, Render, Exec, Clone, Toggle CacheEnabled} over texts {t1, t2, an unparsable text} and two data sets (MaxOps=3 quick, 4 thorough, plus seeded random walks of 20 operations with all successors of every visited state); TLC checks OwnText, SameSource and the action property Immutable on the machine. Each history is replayed on the real plush API with t1/t2 instantiated from a corpus of programs produced by the other generator machines (loops, faults, functions, scopes, expressions) and hand-written hash-literal programs with side-effecting values and duplicate keys: Parse outcomes (fresh / hit / inserted) must match the model, all results for equal (text, data) must be identical including the recorded helper-call order, and the deep structural hash of the parsed program must be unchanged by every Exec. In addition every corpus program is executed 8 times over fresh parse / repeated Exec / Clone / cache cold and warm. distinct_nontrivial = distinct (history, corpus program pair)."
	run := func(raw json.RawMessage) {}
	_ = run
	gens := []struct{ Module, Cfg string }{
		{"GenLoops", "GenLoops.quick.cfg"}, {"GenFaults", "GenFaults.quick.cfg"}, {"GenScopes", "GenScopes.quick.cfg"}, {"GenText", "GenText.quick.cfg"},
	}
	if c.Thorough() {
		gens = append(gens, struct{ Module, Cfg string }{"GenFuncs", "GenFuncs.quick.cfg"}, struct{ Module, Cfg string }{"GenRoutes", "GenRoutes.quick.cfg"})
	}
	corpus, err := collectCorpus(c, gens, map[bool]int{false: 40, true: 400}[c.Thorough()])
	if err != nil {
		return err
	}
	st := &c13State{corpus: corpus}
	c.extra["corpus_programs"] = len(corpus)

	// (1) every corpus program over all paths, 8 executions; a probe for state that outlives a render is rendered with a
	// fresh context before and after (between them lie all the disturbing renders of c13Disturb)
	c13LeakProbe(c, "before any other render")
	for i := range corpus {
		c13Soak(c, &corpus[i])
	}
	c13LeakProbe(c, "after the corpus")

	// (2) histories from the model, replayed sequentially (CacheEnabled is a global)
	if c.ReplayPath != "" {
		return replayFile(c, func(raw json.RawMessage) { c13History(c, st, raw) })
	}
	var hists []json.RawMessage
	cfg := "CacheMC.quick.cfg"
	if c.Thorough() {
		cfg = "CacheMC.thorough.cfg"
	}
	collect := func(raw json.RawMessage) { hists = append(hists, append(json.RawMessage{}, raw...)) }
	poolCollect := newPool(1, collect)
	_, err = c.mustTLC("CacheMC/"+cfg, TLCOpts{Module: "CacheMC", Cfg: cfg, Workers: 8, Seed: c.Seed, Timeout: 20 * time.Minute}, true, poolCollect.feed)
	if err == nil {
		n := 4
		if c.Thorough() {
			n = 100
		}
		_, err = c.mustTLC("CacheMC/sim", TLCOpts{Module: "CacheMC", Cfg: "CacheMC.sim.cfg", Simulate: n, Depth: 21, Seed: c.Seed, Timeout: 20 * time.Minute}, false, poolCollect.feed)
	}
	poolCollect.close()
	if err != nil {
		return err
	}
	c.exhaustive = true
	sort.Slice(hists, func(i, j int) bool { return string(hists[i]) < string(hists[j]) })
	for _, h := range hists {
		c13History(c, st, h)
	}
	plush.CacheEnabled = false
	return c13Trace(c)
}

type c13Result struct {
	Out, Err string
	Calls    string
}

func c13Exec(item *corpusItem, f func(ctx *plush.Context) (string, error)) (c13Result, observation) {
	env := newRunEnv()
	env.self = item.Src
	for k, v := range item.Case.Parts {
		env.parts[k] = decodeChars(v)
	}
	if len(item.Case.PartsR) > 0 && item.Case.PartsR[0] == '{' && item.Case.Parts == nil {
		json.Unmarshal(item.Case.PartsR, &item.Case.Parts)
		for k, v := range item.Case.Parts {
			env.parts[k] = decodeChars(v)
		}
	}
	ctx := env.context(item.Case.Data)
	if item.Ctx != nil {
		item.Ctx(ctx)
	}
	o := guarded(5*time.Second, func() (string, error) { return f(ctx) })
	env.mu.Lock()
	calls := fmt.Sprintf("%v", env.calls)
	env.mu.Unlock()
	return c13Result{o.Out, o.Err, calls}, o
}

// treeHash is a deep structural hash of a parsed program, independent of Go map order.
func treeHash(v interface{}) uint64 {
	seen := map[uintptr]bool{}
	return hashValue(reflect.ValueOf(v), seen, 0)
}

func hashValue(v reflect.Value, seen map[uintptr]bool, depth int) uint64 {
	h := fnv.New64a()
	w := func(s string) { h.Write([]byte(s)) }
	if !v.IsValid() {
		return 1
	}
	if depth > 200 {
		return 2
	}
	w(v.Kind().String())
	switch v.Kind() {
	case reflect.Ptr, reflect.Interface:
		if v.IsNil() {
			return 3
		}
		if v.Kind() == reflect.Ptr {
			p := v.Pointer()
			if seen[p] {
				return 4 // a back reference (OriginalCallee): identity, not contents
			}
			seen[p] = true
			defer delete(seen, p)
		}
		w(v.Elem().Type().String())
		w(fmt.Sprint(hashValue(v.Elem(), seen, depth+1)))
	case reflect.Struct:
		w(v.Type().String())
		for i := 0; i < v.NumField(); i++ {
			w(v.Type().Field(i).Name)
			w(fmt.Sprint(hashValue(v.Field(i), seen, depth+1)))
		}
	case reflect.Slice, reflect.Array:
		w(fmt.Sprint(v.Len()))
		for i := 0; i < v.Len(); i++ {
			w(fmt.Sprint(hashValue(v.Index(i), seen, depth+1)))
		}
		// the spare capacity of a slice of the tree is the tree's memory too: an execution that appends to
		// such a slice writes into it (and races with every other execution of the same template)
		if v.Kind() == reflect.Slice && v.Cap() > v.Len() {
			full := v.Slice(0, v.Cap())
			for i := v.Len(); i < full.Len(); i++ {
				w("spare")
				w(fmt.Sprint(hashValue(full.Index(i), seen, depth+1)))
			}
		}
	case reflect.Map:
		hs := []uint64{}
		for _, k := range v.MapKeys() {
			hs = append(hs, hashValue(k, seen, depth+1)*31+hashValue(v.MapIndex(k), seen, depth+1))
		}
		sort.Slice(hs, func(i, j int) bool { return hs[i] < hs[j] })
		w(fmt.Sprint(hs))
	case reflect.String:
		w(v.String())
	case reflect.Bool:
		w(fmt.Sprint(v.Bool()))
	case reflect.Int, reflect.Int8, reflect.Int16, reflect.Int32, reflect.Int64:
		w(fmt.Sprint(v.Int()))
	case reflect.Uint, reflect.Uint8, reflect.Uint16, reflect.Uint32, reflect.Uint64:
		w(fmt.Sprint(v.Uint()))
	case reflect.Float32, reflect.Float64:
		w(fmt.Sprint(v.Float()))
	}
	return h.Sum64()
}

func progHash(t *plush.Template) uint64 {
	p := plush.VerifProgram(t)
	if p == nil {
		return 0
	}
	return treeHash(p)
}

// c13Boom prints by panicking: a render that emits it dies half-way (in code of the data, after output was produced).
type c13Boom struct{}

func (c13Boom) String() string { panic("verif: a String method that panics") }

// c13BoomIter is an Iterator that panics: a loop over it dies half-way, in code of the data.
type c13BoomIter struct{}

func (c13BoomIter) Next() interface{} { panic("verif: an iterator that panics") }

// c13Disturb performs renders whose traces no later render may see: renders abandoned half-way (a panic in code of the
// data, after output was produced), and renders WITHOUT data of the caller's (nil maps) that bind names at top level.
func c13Disturb() (seen string) {
	// (the probe directly after an abandoned render, on the same goroutine: what the dead execution left lying about is
	// most likely handed to the very next one)
	after := func(what string) {
		out, err := plush.Render("<b><%= 1 %></b>", plush.NewContext())
		if (out != "<b>1</b>" || err != nil) && seen == "" {
			seen = fmt.Sprintf("directly after %s, Render(\"<b><%%= 1 %%></b>\") gave (%q, %v)", what, out, err)
		}
	}
	for _, src := range []string{"leftover of an abandoned render<%= boom %><%= for (x) in boomiter { %>a<% } %>", "leftover of an abandoned loop<%= for (x) in boomiter { %>a<% } %>"} {
		func() {
			defer func() { recover() }()
			ctx := plush.NewContext()
			ctx.Set("boom", c13Boom{})
			ctx.Set("boomiter", c13BoomIter{})
			plush.Render(src, ctx)
		}()
		after("a render abandoned by a panic in code of the data")
	}
	func() {
		defer func() { recover() }()
		const binds = `<% let leakprobe = "L" %><% contentFor("leakblock") { %>x<% } %><% len = 7 %>`
		plush.Render(binds, plush.NewContextWith(nil))
		plush.BuffaloRenderer(binds, nil, nil)
		plush.Render(binds, plush.NewContextWithOuter(nil, nil))
	}()
	// a script (it prints nothing): what RunScript gives its script is gone when it returns
	func() {
		defer func() { recover() }()
		plush.RunScript(`let leakprobe = "S"`, plush.NewContext())
	}()
	return seen
}

// c13LeakProbe: names bound by earlier renders (on contexts of their own) are unknown to a fresh context.
func c13LeakProbe(c *Ctx, when string) {
	const probe = `<%= if (leakprobe) { %>leaked<% } else { %>clean<% } %>|<%= contentOf("leakblock") { %>default<% } %>|<%= len("ab") %>|<%= if (println) { %>p<% } %><%= if (print) { %>q<% } %>`
	c.Eval("leakprobe:" + when)
	o := guarded(5*time.Second, func() (string, error) { return plush.Render(probe, plush.NewContext()) })
	if o.Out != "clean|default|2|" || o.IsErr {
		c.Fail("state-outlives-render", fmt.Sprintf("%s, rendered with a fresh context %s: (%q, %v), expected \"clean|default|2|\"", probe, when, o.Out, o.Err),
			map[string]interface{}{"gen": "c13LeakProbe", "source_text": probe, "observed": o})
	}
}

// c13Soak: one program, 8 executions over every way of obtaining the template.
func c13Soak(c *Ctx, item *corpusItem) {
	if item.Perm {
		return
	}
	c.Eval("soak:" + item.Label)
	c.Rule("soak")
	src := item.Src
	cas := map[string]interface{}{"gen": "soak", "source_text": src, "label": item.Label}
	var ref c13Result
	check := func(path string, r c13Result, o observation) bool {
		if o.Hang || o.Panic != "" {
			c.Drift("crash:" + path)
			return false
		}
		if r != ref {
			c.Fail("nondeterministic:"+path+":"+item.Case.Gen, fmt.Sprintf("%s: via %s got %+v, first execution gave %+v", src, path, r, ref), cas)
			return false
		}
		return true
	}
	plush.CacheEnabled = false
	t1, perr := plush.NewTemplate(src)
	if perr != nil {
		// a text that does not parse gives the same error every time and on every path: fresh parse,
		// the template value that came back with the error, a clone of it, a Template literal, the cache
		same := func(path string, out string, e2 error) {
			if e2 == nil || e2.Error() != perr.Error() || out != "" {
				c.Fail("nondeterministic:parse-error:"+path, fmt.Sprintf("%s: via %s got (%q, %v), the first parse gave the error %v", src, path, out, e2, perr), cas)
			}
		}
		try := func(path string, f func() (string, error)) {
			var e2 error
			var out string
			o := guarded(5*time.Second, func() (string, error) { out, e2 = f(); return out, e2 })
			if o.Panic != "" || o.Hang {
				c.Fail("nondeterministic:parse-error:crash:"+path, fmt.Sprintf("%s: via %s: panic %q hang %v; the first parse gave the error %v", src, path, o.Panic, o.Hang, perr), cas)
				return
			}
			same(path, out, e2)
		}
		for i := 0; i < 2; i++ {
			try("Parse", func() (string, error) { _, e := plush.Parse(src); return "", e })
			if t1 != nil {
				try("Exec of the returned template", func() (string, error) { return t1.Exec(plush.NewContext()) })
				try("Exec of its clone", func() (string, error) { return t1.Clone().Exec(plush.NewContext()) })
			}
			lit := &plush.Template{Input: src}
			try("Template literal, first Exec", func() (string, error) { return lit.Exec(plush.NewContext()) })
			try("Template literal, second Exec", func() (string, error) { return lit.Exec(plush.NewContext()) })
			plush.CacheEnabled = true
			try("Render with the cache on", func() (string, error) { return plush.Render(src, plush.NewContext()) })
			plush.CacheEnabled = false
		}
		c.Sample(map[string]interface{}{"program": src, "parse_error": perr.Error(), "paths": []string{"Parse x2", "Exec of returned template", "clone", "Template literal x2", "cached Render"}})
		return
	}
	h0 := progHash(t1)
	var o observation
	ref, o = c13Exec(item, func(ctx *plush.Context) (string, error) { return t1.Exec(ctx) })
	if o.Hang || o.Panic != "" {
		return
	}
	// programs over self-describing data: the result is known, whatever was rendered earlier in this process
	if item.Want != "" && ref.Out != item.Want {
		c.Fail("depends-on-earlier-renders:"+item.Label, fmt.Sprintf("%s rendered %q (error %q); rendered first in a process it gives %q", src, ref.Out, ref.Err, item.Want), cas)
	}
	for i := 0; i < 2; i++ {
		if seen := c13Disturb(); seen != "" {
			c.Fail("state-outlives-render:abandoned", seen, cas)
		}
		r, o := c13Exec(item, func(ctx *plush.Context) (string, error) { return t1.Exec(ctx) })
		check("repeated-exec", r, o)
	}
	if h1 := progHash(t1); h1 != h0 {
		c.Fail("tree-mutated:"+item.Case.Gen, fmt.Sprintf("%s: executing the template changed its parsed program", src), cas)
	}
	r, o := c13Exec(item, func(ctx *plush.Context) (string, error) { return t1.Clone().Exec(ctx) })
	check("clone", r, o)
	r, o = c13Exec(item, func(ctx *plush.Context) (string, error) { return plush.Render(src, ctx) })
	check("fresh-render", r, o)
	plush.CacheEnabled = true
	key := src + "<%# soak " + fmt.Sprint(c.Seed) + " %>"
	_ = key
	r, o = c13Exec(item, func(ctx *plush.Context) (string, error) { return plush.Render(src, ctx) })
	check("cache-cold", r, o)
	r, o = c13Exec(item, func(ctx *plush.Context) (string, error) { return plush.Render(src, ctx) })
	check("cache-warm", r, o)
	tc, _ := plush.Parse(src)
	if tc != nil {
		if progHash(tc) != h0 {
			c.Fail("tree-differs:"+item.Case.Gen, fmt.Sprintf("%s: the cached template's program differs from a fresh parse", src), cas)
		}
		r, o = c13Exec(item, func(ctx *plush.Context) (string, error) { return tc.Exec(ctx) })
		check("cached-template-exec", r, o)
	}
	plush.CacheEnabled = false
	c.Sample(map[string]interface{}{"program": src, "result": ref, "paths": []string{"exec x3", "clone", "fresh render", "cache cold", "cache warm", "cached template exec"}})
}

// c13History replays one model history.
func c13History(c *Ctx, st *c13State, raw json.RawMessage) {
	var cs cacheCase
	if err := json.Unmarshal(raw, &cs); err != nil {
		c.Fail("harness:json", err.Error(), string(raw))
		return
	}
	st.n++
	// texts of this history: two corpus programs made unique by a comment tag, so that the global
	// cache starts cold for them
	i1 := (st.n * 7) % len(st.corpus)
	i2 := (st.n*13 + 1) % len(st.corpus)
	for st.corpus[i1].Perm {
		i1 = (i1 + 1) % len(st.corpus)
	}
	for st.corpus[i2].Perm || st.corpus[i2].Src == st.corpus[i1].Src {
		i2 = (i2 + 1) % len(st.corpus)
	}
	uniq := fmt.Sprintf("<%%# h%d.%d %%>", c.Seed, st.n)
	items := map[string]*corpusItem{"t1": &st.corpus[i1], "t2": &st.corpus[i2]}
	text := map[string]string{"t1": st.corpus[i1].Src + uniq, "t2": st.corpus[i2].Src + uniq, "bad": "<%= 1 +" + uniq + "<% ) %>"}
	// every other history: t2 is a near twin of t1 (same program, differing only in blank space at an
	// end, in letter case of literal text, or by one trailing byte): still a different text
	switch st.n % 8 {
	case 1:
		items["t2"], text["t2"] = items["t1"], text["t1"]+"\n"
	case 3:
		items["t2"], text["t2"] = items["t1"], " \t"+text["t1"]
	case 5:
		items["t2"], text["t2"] = items["t1"], text["t1"]+" "
	case 7:
		items["t2"], text["t2"] = items["t1"], "\n"+text["t1"]+"\n"
	}
	shape := ""
	if len(cs.Hist) >= 2 {
		shape = fmt.Sprintf("%d/%s/%s", st.n, st.corpus[i1].Label, st.corpus[i2].Label)
	}
	c.Eval(shape)
	cas := map[string]interface{}{"gen": "CacheMC", "hist": cs.Hist, "t1": text["t1"], "t2": text["t2"]}
	plush.CacheEnabled = false
	tmpls := map[int]*plush.Template{}
	tmplText := map[int]string{}
	results := map[string]c13Result{}
	seenPtr := map[*plush.Template]int{}
	record := func(x, d string, r c13Result, o observation, path string) {
		if o.Hang || o.Panic != "" {
			c.Drift("crash")
			return
		}
		k := x + "/" + d
		if prev, ok := results[k]; ok {
			if prev != r {
				c.Fail("history:nondeterministic:"+path, fmt.Sprintf("history %d: %s with %s gave %+v after %+v", st.n, text[x], d, r, prev), cas)
			}
		} else {
			results[k] = r
		}
	}
	for _, e := range cs.Hist {
		c.Rule(e.Op)
		switch e.Op {
		case "toggle":
			plush.CacheEnabled = !plush.CacheEnabled
		case "parse", "render":
			t, err := plush.Parse(text[e.X])
			if e.X == "bad" {
				if err == nil {
					c.Fail("history:bad-text-parsed", "the unparsable text parsed", cas)
					return
				}
			} else if err != nil {
				c.Drift("corpus-parse-error")
				return
			}
			prev, known := seenPtr[t]
			switch e.Out {
			case "hit":
				if !known || prev != e.T {
					c.Fail("history:cache-hit", fmt.Sprintf("history %d: Parse with the cache warm did not return the template inserted for that text", st.n), cas)
					return
				}
			default:
				if known {
					c.Fail("history:cache-"+e.Out, fmt.Sprintf("history %d: Parse (%s) returned an old template", st.n, e.Out), cas)
					return
				}
				seenPtr[t] = e.T
			}
			tmpls[e.T], tmplText[e.T] = t, e.X
			if e.Op == "render" && e.X != "bad" {
				r, o := c13Exec(items[e.X], func(ctx *plush.Context) (string, error) { return t.Exec(ctx) })
				record(e.X, e.D, r, o, "render")
			}
		case "exec":
			t := tmpls[e.T]
			if t == nil {
				return
			}
			x := tmplText[e.T]
			h0 := progHash(t)
			r, o := c13Exec(items[x], func(ctx *plush.Context) (string, error) { return t.Exec(ctx) })
			record(x, e.D, r, o, "exec")
			if progHash(t) != h0 {
				c.Fail("history:tree-mutated", fmt.Sprintf("history %d: Exec changed the parsed program of %s", st.n, text[x]), cas)
			}
		case "clone":
			t := tmpls[e.T]
			if t == nil {
				return
			}
			nt := t.Clone()
			tmpls[e.NT], tmplText[e.NT] = nt, tmplText[e.T]
			seenPtr[nt] = e.NT
		}
	}
	plush.CacheEnabled = false
	// independent of the history: every result must be the one a fresh parse gives with the cache off
	for k, r := range results {
		x, d := k[:2], k[3:]
		ref, o := c13Exec(items[x], func(ctx *plush.Context) (string, error) { return plush.Render(text[x], ctx) })
		if o.Hang || o.Panic != "" {
			continue
		}
		if ref != r {
			c.Fail("history:differs-from-cold-render", fmt.Sprintf("history %d: %q with %s gave %+v in the history, %+v when rendered alone with the cache off", st.n, text[x], d, r, ref), cas)
		}
	}
}

// c13Trace validates the Parse / CacheSet events of the repository's tests against CacheTrace.tla.
func c13Trace(c *Ctx) error {
	raw, err := recordRepoSuite()
	if err != nil {
		return err
	}
	var evs []ctxEvent
	for _, e := range raw {
		if e["op"] == "parse" {
			in, _ := e["input"].(string)
			h := fnv.New64a()
			h.Write([]byte(in))
			evs = append(evs, ctxEvent{"ev": e["ev"], "input": fmt.Sprintf("x%x", h.Sum64()), "tmpl": e["tmpl"], "cache": e["cache"]})
		}
	}
	ok, at, err := validateTrace(c, "CacheTrace", "CacheTrace.cfg", "cachetrace.ndjson", "repo_suite_cache", evs)
	if err != nil {
		return err
	}
	c.extra["trace_repo_suite_cache"] = map[string]interface{}{"events": len(evs), "accepted": ok}
	if ok {
		c.AddTraces(1)
	} else {
		var rej interface{}
		if at >= 1 && at <= len(evs) {
			rej = evs[at-1]
		}
		c.Fail("trace-rejected:cache", fmt.Sprintf("cache event %d of %d is not a step of Cache.tla: %v", at, len(evs), rej), map[string]interface{}{"rejected_event": rej})
	}
	// negative control
	if len(evs) > 3 {
		bad := append([]ctxEvent{}, evs...)
		for i, e := range bad {
			if e["ev"] == "hit" {
				ne := ctxEvent{}
				for k, v := range e {
					ne[k] = v
				}
				ne["tmpl"] = "0xdeadbeef"
				bad[i] = ne
				ok, _, err := validateTrace(c, "CacheTrace", "CacheTrace.cfg", "cachetrace.ndjson", "cache_negative_control", bad)
				if err != nil {
					return err
				}
				c.extra["trace_cache_negative_control_rejected"] = !ok
				if ok {
					return fmt.Errorf("cache trace validation accepted a corrupted trace")
				}
				break
			}
		}
	}
	return nil
}
