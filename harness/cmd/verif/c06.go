package main

import (
	"encoding/json"
	"fmt"
	"time"
)

// C06 — operators, precedence and associativity agree with the reference evaluator.
//
// GenExpr.tla builds every expression tree with <= MaxOps operators over the pool (BFS) and
// seeded random deeper trees (-simulate); the reference semantics (PlushSem.tla) gives each
// tree's value / error; the tree is printed with minimal, redundant and full parentheses and
// each printing is rendered by the real plush.

func init() { register("C06", checkC06) }

func checkC06(c *Ctx) error {
	c.ruleText = "expression trees built by hole expansion in GenExpr.tla (exhaustive up to MaxOps operators over the pool, then seeded random deeper trees), each evaluated by the reference semantics PlushSem.tla and rendered by real plush in three parenthesisations; a case is non-trivial when it has >= 1 operator and a specified outcome; distinct = distinct source texts."
	c.Assume("floats are dyadic rationals printed in plain decimal; integer results stay far from overflow")
	c.Assume("cross-kind ==, string-vs-non-string comparison, bool arithmetic, division by a non power of two float are unspecified and only checked for totality")
	run := func(raw json.RawMessage) {
		var probe struct {
			Gen string `json:"gen"`
		}
		json.Unmarshal(raw, &probe)
		switch probe.Gen {
		case "GenPratt":
			prattRun(c, raw)
		case "PrattWord":
			prattWordRun(c, raw)
		default:
			c06Run(c, raw)
		}
	}
	if c.ReplayPath != "" {
		return replayFile(c, run)
	}
	pool := newPool(12, run)
	cfg := "GenExpr.quick.cfg"
	if c.Thorough() {
		cfg = "GenExpr.thorough.cfg"
	}
	_, err := c.mustTLC("GenExpr/"+cfg, TLCOpts{Module: "GenExpr", Cfg: cfg, Workers: 12, Seed: c.Seed, Timeout: 40 * time.Minute}, true, pool.feed)
	if err == nil && !c.Thorough() {
		// every single operator over the full pool (all printed forms of the right operand of string +)
		_, err = c.mustTLC("GenExpr/one", TLCOpts{Module: "GenExpr", Cfg: "GenExpr.one.cfg", Workers: 8, Seed: c.Seed, Timeout: 40 * time.Minute}, true, pool.feed)
		if err == nil {
			// sums and products three operators deep over a string and two numbers
			_, err = c.mustTLC("GenExpr/cat", TLCOpts{Module: "GenExpr", Cfg: "GenExpr.cat.cfg", Workers: 8, Seed: c.Seed, Timeout: 40 * time.Minute}, true, pool.feed)
		}
	}
	if err == nil {
		c.exhaustive = true
		n := 1500
		if c.Thorough() {
			n = 40000
		}
		_, err = c.mustTLC("GenExpr/sim", TLCOpts{Module: "GenExpr", Cfg: "GenExpr.sim.cfg", Simulate: n, Depth: 16, Seed: c.Seed, Timeout: 40 * time.Minute}, false, pool.feed)
	}
	// one operator evaluated several times in one render with changing operand values (GenOpSeq.tla, theorem Pointwise)
	if err == nil {
		_, err = c.mustTLC("GenOpSeq/GenOpSeq.cfg", TLCOpts{Module: "GenOpSeq", Cfg: "GenOpSeq.cfg", Workers: 4, Seed: c.Seed, Timeout: 20 * time.Minute}, true, pool.feed)
	}
	// the parser machine (Pratt.tla): trees printed by the documented grammar, parsed by the machine (PrattAgree),
	// evaluated under four valuations; token words accepted / rejected (Reprint)
	if err == nil {
		tcfg, wcfg := "GenPratt.quick.cfg", "GenPratt.words.cfg"
		if c.Thorough() {
			tcfg, wcfg = "GenPratt.thorough.cfg", "GenPratt.words4.cfg"
		}
		_, err = c.mustTLC("GenPratt/"+tcfg, TLCOpts{Module: "GenPratt", Cfg: tcfg, Workers: 12, Seed: c.Seed, Timeout: 40 * time.Minute}, true, pool.feed)
		if err == nil {
			_, err = c.mustTLC("GenPratt/"+wcfg, TLCOpts{Module: "GenPratt", Cfg: wcfg, Workers: 8, Seed: c.Seed, Timeout: 40 * time.Minute}, true, pool.feed)
		}
		if err == nil {
			n := 400
			if c.Thorough() {
				n = 10000
			}
			_, err = c.mustTLC("GenPratt/sim", TLCOpts{Module: "GenPratt", Cfg: "GenPratt.sim.cfg", Simulate: n, Depth: 24, Seed: c.Seed, Timeout: 40 * time.Minute}, false, pool.feed)
		}
	}
	pool.close()
	if err != nil {
		return err
	}
	sens := map[string]string{}
	for _, dev := range []string{"sumprod", "cmpeq", "matchlow", "rightassoc", "notlow"} {
		r, derr := RunTLC(TLCOpts{Module: "GenPratt", Cfg: "GenPratt.dev_" + dev + ".cfg", Workers: 4, Seed: c.Seed, Timeout: 10 * time.Minute, NoCases: true}, nil)
		if derr != nil {
			return derr
		}
		sens[dev] = r.Violated
		if r.Violated == "" {
			return fmt.Errorf("Pratt.tla with Table=%s no longer violates PrattAgree", dev)
		}
	}
	c.extra["model_sensitivity_pratt"] = sens
	return nil
}

func c06Run(c *Ctx, raw json.RawMessage) {
	var sc semCase
	if err := json.Unmarshal(raw, &sc); err != nil {
		c.Fail("harness:json", err.Error(), string(raw))
		return
	}
	srcs := sc.sources()
	for mode, src := range srcs {
		shape := ""
		if sc.NOps >= 1 && sc.Expect.K != "unspec" {
			shape = src
		}
		c.Eval(shape)
		c.Rule("expect:" + sc.Expect.K)
		v := runSem(&sc, src, true)
		if sc.NOps >= 2 && mode == "min" {
			c.Sample(map[string]interface{}{"source": src, "expected": sc.Expect, "observed": v.Obs, "verdict": okOr(v.Sig, v.Msg)})
		}
		if v.Sig == "" {
			continue
		}
		if sc.Expect.K == "unspec" {
			// totality belongs to C04; recorded here as drift only
			c.Drift("unspecified-case:" + v.Sig)
			continue
		}
		c.Fail(c06Sig(&sc, v), fmt.Sprintf("%s  [%s parentheses]: %s", src, mode, v.Msg),
			map[string]interface{}{"gen": sc.Gen, "src": sc.Srcs[mode], "data": sc.Data, "expect": sc.Expect, "nops": sc.NOps, "source_text": src, "observed": v.Obs})
	}
}

func c06Sig(sc *semCase, v semVerdict) string {
	return v.Sig
}
