package main

import (
	"encoding/json"

	"github.com/gobuffalo/plush/v5"
	"sync"
	"time"
)

// corpusItem is a template with its context data, taken from the generator machines.
type corpusItem struct {
	// Ctx puts Go data the abstract values cannot describe into the context; Want is the known result
	Ctx   func(ctx *plush.Context)
	Want  string
	Src   string
	Case  *semCase
	Perm  bool // output depends on Go map order (compared as a set elsewhere)
	Label string
}

var handCorpus = []string{
	`<%= {a: p(1, "x"), b: p(2, "y"), c: p(3, "z")}["b"] %>`,
	`<% let h = {a: p(1, 1), b: p(2, 2)} %><%= h["a"] %><%= h["b"] %>`,
	`<%= {a: 1, a: 2}["a"] %>|<%= {k: "first", k: "second", k: "third"}["k"] %>`,
	`<% let h = {x: p(1, 1), y: p(2, 2), z: p(3, 3), w: p(4, 4)} %><%= len(h) %>`,
	`<% let xs = [p(1, 1), p(2, 2)] %><%= for (i, x) in xs { %><%= i %>=<%= x %>;<% } %>`,
	`<% let f = fn(a, b) { return a + b } %><%= f(p(1, 1), p(2, 2)) %>`,
	`<%= if (p(1, false) || p(2, true)) { %>yes<% } else { %>no<% } %>`,
	`<% let n = 0 %><%= for (v) in [1, 2, 3] { %><% n = n + v %><%= n %>,<% } %><%= n %>`,
	`<%= truncate("abcdefghij", {size: 5, trail: ".."}) %>|<%= len([1, 2, 3]) %>|<%= toJSON({a: 1, b: [1, 2]}) %>`,
	`<% contentFor("c") { %>[<%= p(1, "in") %>]<% } %>a<%= contentOf("c") %>b<%= contentOf("c") %>`,
	`<%= range(1, 3) %>|<%= for (i) in between(0, 4) { %><%= i %><% } %>`,
	// collections created by literals and then written to: nothing may survive the execution
	`<% let h = {} %><%= if (h["k"]) { %>stale<% } else { %>fresh<% } %><% h["k"] = "v" %>[<%= h["k"] %>]`,
	`<% let h = {a: 1} %><%= h["b"] %>|<% h["b"] = 2 %><%= h["b"] %>`,
	`<% let a = [1, 2] %><%= a[0] %><% a[0] = 9 %><%= a[0] %>|<% let e = [] %><%= len(e) %>`,
	`<% let o = {} %><% let i = {} %><% o["i"] = i %><% i["x"] = "deep" %><%= o["i"]["x"] %>`,
	`<%= for (v) in [1, 2] { %><% let h = {} %><%= len(h) %><% h["n"] = v %><%= h["n"] %>,<% } %>`,
	// every operator, incl. the regular-expression match with literal and computed patterns
	`<%= "abc" ~= "^ab" %>|<%= "abc" ~= "b" + "c" %>|<%= "x1" ~= "[0-9]" %>|<%= if ("hello" ~= "l+") { %>m<% } %>`,
	`<%= 7 - 2 * 3 %>|<%= (1 + 2) * 3 %>|<%= 7 / 2 %>|<%= 1.5 + 2.5 %>|<%= "a" + 1 %>|<%= 2 >= 2 %>|<%= 1 != 2 %>|<%= !true || false %>|<%= nil == nil %>`,
	`<% let f = fn(p) { return p ~= "^t" } %><%= f("tea") %><%= f("sea") %>`,
	// per-execution data (gid is different in every execution of the concurrency scenarios)
	`<%= if (gid) { %><%= gid ~= gid %>|<%= "zzz" ~= gid %>|<%= gid %>|<%= {k: gid}["k"] %>|<%= [gid][0] %><% } else { %>no gid<% } %>`,
	// a helper that writes into its (auto-supplied or literal) options map
	`<%= opt() %>|<%= opt({a: 1}) %>|<%= for (v) in [1, 2, 3] { %><%= opt() %><% } %>|<% let f = fn() { return opt() } %><%= f() %><%= f() %>`,
	// a template that includes its own text as a partial (one Template value executing re-entrantly when the cache is on)
	`<%= if (n) { %><%= n %>[<%= if (n == "a") { %><%= partial("self", {n: "b"}) %><% } %>]<%= n %><% } else { %>(<%= partial("self", {n: "a"}) %>)<% } %>`,
	`<% let m = "m" %><%= if (n) { %><%= n %><%= m %><% } else { %><%= partial("self", {n: "1"}) %>/<%= partial("self", {n: "2"}) %>/<%= m %><% } %>`,
	// if chains with three to seven else-if branches and an else (the else-if list of the parsed tree has spare capacity)
	`<%= if (false) { %>a<% } else if (false) { %>b<% } else if (false) { %>c<% } else if (gid) { %>d<% } else { %>e<% } %>|<%= if (false) { %>a<% } else if (false) { %>b<% } else if (false) { %>c<% } else if (false) { %>d<% } else { %>e<% } %>`,
	`<%= if (false) { %>1<% } else if (false) { %>2<% } else if (false) { %>3<% } else if (false) { %>4<% } else if (false) { %>5<% } else if (false) { %>6<% } else { %>z<% } %><%= if (zz) { %>1<% } else if (zz) { %>2<% } else if (zz) { %>3<% } else if (zz) { %>4<% } else if (zz) { %>5<% } else if (zz) { %>6<% } else if (zz) { %>7<% } else if (zz) { %>8<% } else { %>y<% } %>`,
	// a time value printed with the TIME_FORMAT of its own execution: some executions bind one, others do not
	`<%= if (gid ~= "[13579]q") { %><% let TIME_FORMAT = "2006-01-02" %><% } %><%= tm %>|<%= for (i) in [1, 2, 3] { %><%= tm %>,<% } %>`,
	`<% let TIME_FORMAT = "Jan 2" %><%= tm %>/<%= for (i) in [1, 2] { %><%= tm %><% } %>`,
	`<%= tm %>`,
	// assignment without let to a name that only an outer context binds
	`<% n0 = n0 + 1 %><%= n0 %>|<%= for (i) in [1, 2] { %><% n0 = n0 + i %><%= n0 %>,<% } %>|<%= n0 %>`,
	`<% let f = fn() { n0 = n0 + 5  return n0 } %><%= f() %><%= f() %>|<%= n0 %>`,
	// array + x computed from an array of the (shared) context that has spare capacity: a new array every time
	`<% let ys = sx + gid %><%= ys %>|<%= sx %>|<%= for (v) in [1, 2, 3] { %><%= sx + v %>;<% } %>|<% let a = sx + 1 %><% let b = sx + 2 %><%= a %><%= b %>`,
	// a promoted field of a value whose struct type differs from execution to execution
	`<%= if (px) { %><%= px.Name %>|<%= px.Title %>|<%= for (i) in [1, 2] { %><%= px.Name %><% } %><% } else { %>no px<% } %>`,
	// a template function is a value: nothing reachable from it lets the template rewrite its own parsed program
	`<% let f = fn(x) { return "A"; return "B" } %><%= f(1) %><% f.Block.Statements[0] = f.Block.Statements[1] %>|<% f.Parameters[0] = f.Parameters[0] %>`,
	`<%= 1 / 0 %>`,
	`<%= 1 +`,
	`<% if (true) { %>open`,
	`<h1>T</h1><%= "tail" %><% let = %>`,
	`<%= nosuchfunc(1) %>`,
	`<%= [1, 2][5] %>`,
	`line1
<% let a = 1 %>
<%= undefinedthing %>`,
}

// collectCorpus runs generator configurations and keeps every stride-th specified case.
func collectCorpus(c *Ctx, runs []struct{ Module, Cfg string }, perRun int) ([]corpusItem, error) {
	var items []corpusItem
	for _, r := range runs {
		var mu sync.Mutex
		var all []*semCase
		_, err := c.mustTLC("corpus:"+r.Module, TLCOpts{Module: r.Module, Cfg: r.Cfg, Workers: 8, Seed: c.Seed, Timeout: 20 * time.Minute}, true, func(raw json.RawMessage) {
			var sc semCase
			if json.Unmarshal(raw, &sc) != nil || sc.Expect.K == "unspec" {
				return
			}
			mu.Lock()
			all = append(all, &sc)
			mu.Unlock()
		})
		if err != nil {
			return nil, err
		}
		// deterministic order (TLC's workers print in any order): sort by source text
		sortCases(all)
		stride := len(all)/perRun + 1
		off := int(c.Seed) % stride
		if off < 0 {
			off = 0
		}
		for i := off; i < len(all); i += stride {
			sc := all[i]
			for _, src := range sc.sources() {
				perm := false
				for _, p := range sc.Expect.Pieces {
					if p.K == "perm" {
						perm = true
					}
				}
				items = append(items, corpusItem{Src: src, Case: sc, Perm: perm, Label: sc.Gen + ":" + sc.Shape})
				break
			}
		}
	}
	for i, s := range handCorpus {
		items = append(items, corpusItem{Src: s, Case: &semCase{Gen: "hand", Data: absMap{}}, Label: "hand:" + string(rune('a'+i))})
	}
	// two DIFFERENT Go types that print the same type name and hold the same field names at other positions, each
	// rendered several times, the other one in between
	twin := `<%= row.Name %>/<%= row.ID %>|<%= for (r) in rows { %><%= r.ID %>:<%= r.Name %>;<% } %>`
	for i := 0; i < 2; i++ {
		items = append(items,
			corpusItem{Src: twin, Case: &semCase{Gen: "hand", Data: absMap{}}, Label: "hand:twinA", Want: "ann/7|7:ann;8:bo;", Ctx: func(ctx *plush.Context) {
				type Row struct {
					Name string
					ID   string
				}
				ctx.Set("row", Row{"ann", "7"})
				ctx.Set("rows", []Row{{"ann", "7"}, {"bo", "8"}})
			}},
			corpusItem{Src: twin, Case: &semCase{Gen: "hand", Data: absMap{}}, Label: "hand:twinB", Want: "cy/3|3:cy;4:di;", Ctx: func(ctx *plush.Context) {
				type Row struct {
					ID   string
					Pad  int
					Name string
				}
				ctx.Set("row", Row{"3", 0, "cy"})
				ctx.Set("rows", []Row{{"3", 0, "cy"}, {"4", 0, "di"}})
			}})
	}
	return items, nil
}

func sortCases(cs []*semCase) {
	key := func(sc *semCase) string {
		for _, s := range sc.sources() {
			return s + "\x00" + sc.Shape
		}
		return sc.Shape
	}
	// insertion into a map then sort keys would lose duplicates; use sort.Slice
	sortSlice(cs, func(i, j int) bool { return key(cs[i]) < key(cs[j]) })
}
