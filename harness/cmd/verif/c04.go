package main

import (
	"bytes"
	"encoding/json"
	"errors"
	"fmt"
	"github.com/gobuffalo/plush/v5/helpers/hctx"
	"html/template"
	"io"
	"math"
	"net/url"
	"os"
	"os/exec"
	"runtime/debug"
	"strings"
	"time"

	"github.com/gobuffalo/plush/v5"
)

// C04 — evaluation is total: runtime type / arity / index faults are errors, never panics.
//
// GenKinds.tla enumerates the kind matrices (operator x kinds, container x index [x assigned
// value], receiver x member, iterable kind, callee x argument list, built-in helper x argument
// kinds, sinks); IndexGuards.tla (Layer B) checks that the guards of the index / update / call
// paths imply the preconditions of every reflect operation they lead to. Every cell is rendered by
// the real code with a Go value of each kind; the oracle is: output or error, no panic, no hang.

type kindCase struct {
	Form  string     `json:"form"`
	Src   []string   `json:"src"`
	Kinds [][]string `json:"kinds"`
}

type kStruct struct {
	Name   string
	secret int
	Kid    *kStruct
	NilKid *kStruct
	Kids   []kStruct
	M      map[string]string
}

func (k kStruct) Touch()        {}
func (k kStruct) Hello() string { return "hello " + k.Name }
func (k *kStruct) Shout() string {
	if k == nil {
		return "HEY nobody"
	}
	return "HEY " + k.Name
}
func (k kStruct) Greet(s string) string  { return "hi " + s }
func (k kStruct) String2() template.HTML { return "<b>" }

type kInner struct{ Inner string }

// kEmb promotes the fields of a nil embedded pointer
type kEmb struct {
	*kInner
	Name string
	Fn   func() string
}

// value-receiver implementations reached through a nil pointer
type kHTMLer struct{ s string }

func (k kHTMLer) HTML() template.HTML { return template.HTML(k.s) }

type kIfaceable struct{ v int }

func (k kIfaceable) Interface() interface{} { return k.v }

type kPathable struct{ p string }

func (k kPathable) ToPath() string { return k.p }

// a method promoted from a nil embedded pointer / a nil embedded interface
type kInnerM struct{}

func (kInnerM) Hello() string { return "inner hello" }

type kOuterPtr struct {
	*kInnerM
	Name string
}

type kOuterIface struct {
	fmt.Stringer
	Name string
}

// a defined type over plush.HelperContext
type kMyHC plush.HelperContext

// error types with value receivers that are neither pointers nor interfaces
type kValErr struct{ Msg string }

func (e kValErr) Error() string { return e.Msg }

type kStrErr string

func (e kStrErr) Error() string { return string(e) }

type kEmbHC struct{ plush.HelperContext }

// plain data that promotes String() / HTML() from an embedded member that is nil
type kEmbTime struct{ *time.Time }
type kEmbStringer struct{ fmt.Stringer }
type kEmbHTMLer struct{ plush.HTMLer }
type kEmbDur struct {
	*time.Duration
	Name string
}

type kBigHC interface {
	hctx.HelperContext
	Extra()
}

func twinBig() interface{} {
	type Twin struct {
		A, B, C int
		Name    string
	}
	return Twin{1, 2, 3, "big"}
}

func twinSmall() interface{} {
	type Twin struct{ Name string }
	return Twin{"small"}
}

// kShared: a slice and a function that shortens it (one pair per case)
type kShared struct{ xs *[]string }

// kHolder is comparable as a type, but a value holding a slice cannot be hashed
type kHolder struct{ V interface{} }

type kStringer struct{ s string }

func (k kStringer) String() string { return k.s }

func kindValue(kind string) (interface{}, bool) {
	mk := func() kStruct {
		return kStruct{Name: "n", Kid: &kStruct{Name: "kid"}, Kids: []kStruct{{Name: "k0"}, {Name: "k1"}}, M: map[string]string{"k": "v"}}
	}
	switch kind {
	case "unknown", "userfn_src":
		return nil, false
	case "nil":
		return nil, true
	case "bool":
		return true, true
	case "int":
		return 1, true
	case "int_neg":
		return -1, true
	case "int8":
		return int8(3), true
	case "int64":
		return int64(4), true
	case "uint":
		return uint(5), true
	case "uint8":
		return uint8(6), true
	case "float64":
		return 2.5, true
	case "float32":
		return float32(1.5), true
	case "str":
		return "k", true
	case "empty_str":
		return "", true
	case "html":
		return template.HTML("<i>"), true
	case "htmler":
		return htmler{"<u>"}, true
	case "stringer":
		return kStringer{"strg"}, true
	case "time":
		return time.Date(2020, 1, 2, 3, 4, 5, 0, time.UTC), true
	case "slice_any":
		return []interface{}{1, "two", nil}, true
	case "slice_str":
		return []string{"a", "b"}, true
	case "slice_int":
		return []int{7, 8}, true
	case "slice_struct":
		return []kStruct{mk(), mk()}, true
	case "empty_slice":
		return []int{}, true
	case "nil_slice":
		return []string(nil), true
	case "array_int":
		return [2]int{1, 2}, true
	case "ptr_slice":
		return &[]string{"p", "q"}, true
	case "map_str_any":
		return map[string]interface{}{"k": 1, "j": nil}, true
	case "map_str_str":
		return map[string]string{"k": "v"}, true
	case "map_int_str":
		return map[int]string{1: "one"}, true
	case "map_any_any":
		return map[interface{}]interface{}{"k": 1, 2: "two"}, true
	case "map_str_struct":
		return map[string]kStruct{"k": mk()}, true
	case "nil_map":
		return map[string]int(nil), true
	case "struct":
		return mk(), true
	case "ptr_struct":
		s := mk()
		return &s, true
	case "nilptr_struct":
		return (*kStruct)(nil), true
	case "func0":
		return func() string { return "f0" }, true
	case "func_void":
		return func() {}, true
	case "func_void_variadic":
		return func(xs ...interface{}) {}, true
	case "func_str":
		return func(s string) string { return "f(" + s + ")" }, true
	case "func_err":
		return func() (string, error) { return "", errors.New("boom") }, true
	case "func_variadic":
		return func(xs ...string) string { return strings.Join(xs, ",") }, true
	case "func_help":
		return func(help plush.HelperContext) (template.HTML, error) {
			if !help.HasBlock() {
				return "noblock", nil
			}
			s, err := help.Block()
			return template.HTML(s), err
		}, true
	case "iter":
		return &listIter{xs: []interface{}{1, 2}}, true
	case "ptr_map":
		m := map[string]int{"k": 1}
		return &m, true
	case "nilptr_map":
		return (*map[string]int)(nil), true
	case "ptr_array":
		a := [2]int{1, 2}
		return &a, true
	case "ptr_str":
		s := "ps"
		return &s, true
	case "ptr_int":
		i := 7
		return &i, true
	case "nil_func":
		return (func() string)(nil), true
	case "func_returns_nilfunc":
		return func() func() string { return nil }, true
	case "nilptr_time":
		return (*time.Time)(nil), true
	case "ptr_time":
		t := time.Date(2020, 1, 2, 3, 4, 5, 0, time.UTC)
		return &t, true
	case "struct_embedded_nil":
		return kEmb{Name: "emb"}, true
	case "slice_stringer":
		return []fmt.Stringer{}, true
	case "slice_ptr_struct":
		s := mk()
		return []*kStruct{&s, nil}, true
	case "nilptr_htmler":
		return (*kHTMLer)(nil), true
	case "nilptr_interfaceable":
		return (*kIfaceable)(nil), true
	case "nilptr_pathable":
		return (*kPathable)(nil), true
	case "slice_nilptr_pathable":
		return []*kPathable{{"/a"}, nil}, true
	case "struct_promotes_nil_ptr":
		return kOuterPtr{Name: "o"}, true
	case "struct_promotes_nil_iface":
		return kOuterIface{Name: "o"}, true
	case "struct_embeds_nil_time":
		return kEmbTime{}, true
	case "struct_embeds_nil_stringer":
		return kEmbStringer{}, true
	case "struct_embeds_nil_htmler":
		return kEmbHTMLer{}, true
	case "ptr_struct_embeds_nil_duration":
		return &kEmbDur{Name: "d"}, true
	case "func_valerr_zero":
		return func() (string, kValErr) { return "v", kValErr{} }, true
	case "func_valerr_set":
		return func() (string, kValErr) { return "", kValErr{Msg: "bad"} }, true
	case "func_strerr":
		return func() (string, kStrErr) { return "", kStrErr("bad") }, true
	case "func_array3":
		return func(a [3]int) string { return fmt.Sprint(a) }, true
	case "func_myhc":
		return func(x kMyHC) string { return "myhc" }, true
	case "nil_feeder":
		return (func(string) (string, error))(nil), true
	case "func_rerender":
		return func(help plush.HelperContext) (string, error) {
			return plush.Render(`<%= for (v) in [1, 2] { %><%= v %><% } %><% let q = 1 %><%= if (q) { %>q<% } %>`, help)
		}, true
	case "func_ptrhc":
		return func(h *plush.HelperContext) string { return "ptrhc" }, true
	case "func_embhc":
		return func(h kEmbHC) string { return "embhc" }, true
	case "func_bigifacehc":
		return func(h kBigHC) string { return "bighc" }, true
	case "slice_stringer1":
		return []fmt.Stringer{kStringer{"s"}}, true
	case "map_str_error":
		return map[string]error{"k": errors.New("e")}, true
	case "map_stringer_int":
		return map[fmt.Stringer]int{kStringer{"s"}: 1}, true
	case "twin_big":
		return twinBig(), true
	case "twin_small":
		return twinSmall(), true
	case "ptr_slice_shared", "func_shrink_shared":
		return nil, false // built per case, see c04Run
	case "float_nan":
		return math.NaN(), true
	case "map_float_nan":
		return map[float64]string{math.NaN(): "nan", 1: "one"}, true
	case "struct_iface_slice":
		return kHolder{V: []int{1}}, true
	case "nilptr_stringer":
		return (*url.URL)(nil), true
	case "ptr_stringer":
		return &url.URL{Scheme: "http", Host: "h"}, true
	case "str_mb":
		return "…é", true
	case "int3":
		return 3, true
	}
	panic("harness: no Go value for kind " + kind)
}

func init() { register("C04", checkC04) }

func checkC04(c *Ctx) error {
	c.ruleText = "GenKinds.tla: the matrices of C04, each cell a template over free variables a, b, c instantiated with every tuple of 41 value kinds (10 for the third variable): 13 binary operators x kind x kind, !, chains; 8 index-read forms; index assignment container x index x value, assignment to literals' hashes and arrays, append; 13 member / iteration forms (field, missing and unexported field, value / pointer method, method with argument, nested field through nil pointer, index then field, field called, loops); 8 call forms (0-3 arguments, block, user function with too few / too many arguments, chained call); 40 built-in helper forms (len, raw, htmlEscape, jsEscape, toJSON, truncate with option kinds, range / between / until, groupBy, contentFor / contentOf, partial, inspect, debug, env, inflections) and 9 sink forms: about 175k cells exhaustively; plus 33 expression forms composed to depth two (3 267 composed forms as output tag / condition / loop iterable) with kinds drawn by seeded simulation (15k quick / 400k thorough cells). Oracle on the real code: Render returns output or an error; no panic, no hang. distinct_nontrivial = distinct (form, kinds) cells."
	c.Assume("one representative Go value per kind name (harness registry); values themselves are decided by C06, C07, C11")
	run := func(raw json.RawMessage) { c04Run(c, raw) }
	if c.ReplayPath != "" {
		return replayFile(c, run)
	}
	if err := c04Model(c); err != nil {
		return err
	}
	pool := newPool(12, run)
	var err error
	for _, fam := range []string{"ops", "index", "update", "member", "call", "builtin", "misc"} {
		if _, err = c.mustTLC("GenKinds/"+fam, TLCOpts{Module: "GenKinds", Cfg: "GenKinds." + fam + ".cfg", Workers: 8, Seed: c.Seed, Timeout: 30 * time.Minute}, true, pool.feed); err != nil {
			break
		}
	}
	// beyond the matrices: expression forms composed to depth two (outer(a := (inner(a, c)), b)) as
	// output tag, condition and loop iterable, kinds drawn by seeded simulation
	if err == nil {
		n := 1500
		if c.Thorough() {
			n = 40000
		}
		_, err = c.mustTLC("GenKinds/nested", TLCOpts{Module: "GenKinds", Cfg: "GenKinds.nested.cfg", Workers: 1, Simulate: n, Depth: 4, Seed: c.Seed, Timeout: 30 * time.Minute}, false, pool.feed)
	}
	// ... and random well-formed PROGRAMS (GenProgs.tla: leftmost derivations of plush's grammar of bounded size, statements
	// and expressions, leaves from the kind pool), drawn by seeded simulation
	if err == nil {
		n := 120
		if c.Thorough() {
			n = 4000
		}
		_, err = c.mustTLC("GenProgs/sim", TLCOpts{Module: "GenProgs", Cfg: "GenProgs.sim.cfg", Workers: 1, Simulate: n, Depth: 70, Seed: c.Seed, Timeout: 40 * time.Minute}, false, pool.feed)
	}
	pool.close()
	if err == nil {
		c04Entry(c)
		c.exhaustive = true
	}
	return err
}

// c04Entry: the ways an application executes a template, with NO data of its own (nil maps): executing returns output or
// an error there too.
func c04Entries() map[string]func(string) (string, error) {
	h := map[string]interface{}{"one": func() int { return 1 }}
	return map[string]func(string) (string, error){
		"Render(NewContextWith(nil))": func(s string) (string, error) { return plush.Render(s, plush.NewContextWith(nil)) },
		"Render(NewContextWithOuter(nil, nil))": func(s string) (string, error) {
			return plush.Render(s, plush.NewContextWithOuter(nil, nil))
		},
		"Render(NewContextWithOuter(nil, parent))": func(s string) (string, error) {
			return plush.Render(s, plush.NewContextWithOuter(nil, plush.NewContext()))
		},
		"BuffaloRenderer(nil, nil)":     func(s string) (string, error) { return plush.BuffaloRenderer(s, nil, nil) },
		"BuffaloRenderer(nil, helpers)": func(s string) (string, error) { return plush.BuffaloRenderer(s, nil, h) },
		"BuffaloRenderer(data, nil)": func(s string) (string, error) {
			return plush.BuffaloRenderer(s, map[string]interface{}{}, nil)
		},
		"RunScript(NewContextWith(nil))": func(s string) (string, error) { return "", plush.RunScript("let y = 2", plush.NewContextWith(nil)) },
	}
}

func c04Entry(c *Ctx) {
	srcs := []string{`<%= 1 %>`, `a<% let x = 1 %><%= x %>`, `<% contentFor("c") { %>b<% } %><%= contentOf("c") %>`, `plain`, `<%= nope %>`}
	for name := range c04Entries() {
		for _, src := range srcs {
			c04EntryRun(c, name, src)
		}
	}
}

func c04EntryRun(c *Ctx, name, src string) {
	f := c04Entries()[name]
	if f == nil {
		c.Fail("harness:entry", "unknown entry point "+name, name)
		return
	}
	c.Eval("entry:" + name + ":" + src)
	c.Rule("entry")
	o := guarded(5*time.Second, func() (string, error) { return f(src) })
	if o.Panic != "" || o.Hang {
		c.Fail("panic@entry:"+name, fmt.Sprintf("%s of %q panicked: %s", name, src, trunc(o.Panic, 140)),
			map[string]interface{}{"gen": "c04Entry", "entry": name, "source_text": src, "observed": o})
	}
}

// c04Isolated renders a template in a process of its own (a fault the Go runtime does not let a process
// survive -- stack exhaustion -- would otherwise take the whole check down).
func c04Isolated(c *Ctx, kc *kindCase, src string) {
	c.Eval(kc.Form)
	c.Rule("isolated")
	cmd := exec.Command(os.Args[0], "worker", "render1")
	cmd.Stdin = strings.NewReader(src)
	var so, se bytes.Buffer
	cmd.Stdout, cmd.Stderr = &so, &se
	done := make(chan error, 1)
	if err := cmd.Start(); err != nil {
		c.Drift("isolated: could not start the worker")
		return
	}
	go func() { done <- cmd.Wait() }()
	var werr error
	select {
	case werr = <-done:
	case <-time.After(120 * time.Second):
		cmd.Process.Kill()
		c.Fail("hang:"+kc.Form, fmt.Sprintf("%s did not return within 120s (own process)", src), map[string]interface{}{"gen": "GenKinds", "form": kc.Form, "src": kc.Src, "kinds": kc.Kinds, "source_text": src})
		return
	}
	cas := map[string]interface{}{"gen": "GenKinds", "form": kc.Form, "src": kc.Src, "kinds": kc.Kinds, "source_text": src, "stderr": trunc(se.String(), 600), "stdout": trunc(so.String(), 300)}
	c.Sample(map[string]interface{}{"template": src, "own_process": true, "result": trunc(so.String(), 200), "exit_error": fmt.Sprint(werr)})
	switch {
	case werr == nil && strings.HasPrefix(so.String(), "RETURNED"):
	case strings.Contains(se.String(), "stack overflow") || strings.Contains(se.String(), "goroutine stack exceeds"):
		c.Fail("fatal:stack-overflow:"+kc.Form, fmt.Sprintf("%s: the rendering process died of stack exhaustion (unbounded recursion)", src), cas)
	case strings.HasPrefix(so.String(), "PANIC"):
		c.Fail("panic:"+kc.Form, fmt.Sprintf("%s panicked: %s", src, trunc(so.String(), 200)), cas)
	default:
		c.Fail("fatal:"+kc.Form, fmt.Sprintf("%s: the rendering process ended abnormally: %v %s", src, werr, trunc(se.String(), 200)), cas)
	}
}

func init() {
	workers["render1"] = func(args []string) int {
		b, _ := io.ReadAll(os.Stdin)
		debug.SetMaxStack(64 << 20) // fail fast
		func() {
			defer func() {
				if r := recover(); r != nil {
					fmt.Printf("PANIC %v\n", r)
				}
			}()
			out, err := plush.Render(string(b), plush.NewContext())
			fmt.Printf("RETURNED %q %v\n", trunc(out, 200), err)
		}()
		return 0
	}
}

func c04Run(c *Ctx, raw json.RawMessage) {
	var ent struct {
		Gen   string `json:"gen"`
		Entry string `json:"entry"`
		Src   string `json:"source_text"`
	}
	if json.Unmarshal(raw, &ent) == nil && ent.Gen == "c04Entry" {
		c04EntryRun(c, ent.Entry, ent.Src)
		return
	}
	var kc kindCase
	if err := json.Unmarshal(raw, &kc); err != nil {
		c.Fail("harness:json", err.Error(), string(raw))
		return
	}
	src := decodeChars(kc.Src)
	if strings.HasPrefix(kc.Form, "iso:") {
		c04Isolated(c, &kc, src)
		return
	}
	ctx := plush.NewContext()
	ctx.Set("partialFeeder", func(name string) (string, error) {
		if name == "p" {
			return "[<%= x %>]", nil
		}
		return "", fmt.Errorf("no partial %q", name)
	})
	names := []string{}
	for _, kv := range kc.Kinds {
		names = append(names, kv[1])
		if kv[1] == "userfn_src" {
			src = "<% let " + kv[0] + " = fn(x) { return x } %>" + src
			continue
		}
		if v, ok := kindValue(kv[1]); ok {
			ctx.Set(kv[0], v)
		}
	}
	// a slice and the function that shortens it belong together: one pair per case
	shared := &[]string{"p", "q", "r"}
	for _, kv := range kc.Kinds {
		switch kv[1] {
		case "ptr_slice_shared":
			ctx.Set(kv[0], shared)
		case "func_shrink_shared":
			ctx.Set(kv[0], func() string {
				if len(*shared) > 0 {
					*shared = (*shared)[:len(*shared)-1]
				}
				return ""
			})
		}
	}
	shape := kc.Form + "(" + strings.Join(names, ",") + ")"
	c.Eval(shape)
	c.Rule(strings.SplitN(kc.Form, ":", 2)[0])
	o := guarded(5*time.Second, func() (string, error) { return plush.Render(src, ctx) })
	if o.Panic != "" || o.Hang || (len(names) == 2 && strings.HasPrefix(kc.Form, "idx") && names[0] == "map_int_str") {
		c.Sample(map[string]interface{}{"template": src, "kinds": kc.Kinds, "observed": o})
	}
	cas := map[string]interface{}{"gen": "GenKinds", "form": kc.Form, "src": kc.Src, "kinds": kc.Kinds, "source_text": src, "observed": o}
	switch {
	case o.Hang:
		c.Fail("hang:"+kc.Form, fmt.Sprintf("%s with %v did not return", src, kc.Kinds), cas)
	case o.Panic != "" && strings.HasPrefix(o.Site, "usercode:"):
		c.Drift("panic raised by a function of the data itself (" + o.Site + ")")
	case o.Panic != "":
		c.Fail("panic@"+o.Site+":"+kc.Form, fmt.Sprintf("%s with %v panicked: %s (in %s)", src, kc.Kinds, trunc(o.Panic, 140), o.Site), cas)
	case o.Recovered && c04BuiltinOnly(kc.Form, names):
		// "no combination ... makes a BUILT-IN HELPER panic": the engine recovers a panicking call and reports it as an
		// error, which keeps Render total -- but where the only code called is a built-in helper, the helper did panic
		c.Fail("builtin-helper-panicked:"+kc.Form, fmt.Sprintf("%s with %v: a built-in helper panicked (recovered by the engine): %s", src, kc.Kinds, trunc(o.Err, 160)), cas)
	}
}

// c04BuiltinOnly: the form calls built-in helpers only, and no value of the cell brings code of its own (functions,
// iterators, feeders, types with methods the helper may call)
func c04BuiltinOnly(form string, kinds []string) bool {
	if !(strings.HasPrefix(form, "b0:") || strings.HasPrefix(form, "b1:") || strings.HasPrefix(form, "b2:") || form == "truncopts" || form == "groupiter") {
		return false
	}
	for _, k := range kinds {
		if strings.Contains(k, "func") || strings.Contains(k, "iter") || strings.Contains(k, "feeder") || strings.Contains(k, "stringer") ||
			strings.Contains(k, "htmler") || strings.Contains(k, "interfaceable") || strings.Contains(k, "pathable") || strings.Contains(k, "time") || strings.Contains(k, "error") {
			return false
		}
	}
	return true
}

type guardCase struct {
	Op        string `json:"op"`
	C, X, V   string
	Predicted string `json:"predicted"`
}

// c04Model runs TLC on IndexGuards.tla (NoPanic: the guards imply the reflect preconditions) and
// replays every cell of the transcription on the real code: besides "no panic" the predicted class
// (ok / error) is compared, which binds the Layer-B machine to the code (a difference is drift of
// the model, not a violation of C04).
func c04Model(c *Ctx) error {
	run := func(raw json.RawMessage) {
		var g guardCase
		if json.Unmarshal(raw, &g) != nil {
			return
		}
		var src string
		switch g.Op {
		case "access":
			src = "<%= c[x] %>"
		case "update":
			src = "<% c[x] = v %>ok"
		case "plus":
			src = "<%= c + x %>"
		case "len":
			src = "<%= len(c) %>"
		}
		ctx := plush.NewContext()
		set := func(name, kind string) {
			if kind == "big" {
				ctx.Set(name, 99)
				return
			}
			if v, ok := kindValue(kind); ok {
				ctx.Set(name, v)
			}
		}
		set("c", g.C)
		set("x", g.X)
		set("v", g.V)
		c.Eval("guards:" + g.Op + "(" + g.C + "," + g.X + "," + g.V + ")")
		c.Rule("guards:" + g.Op)
		o := guarded(5*time.Second, func() (string, error) { return plush.Render(src, ctx) })
		cas := map[string]interface{}{"gen": "IndexGuards", "op": g.Op, "c": g.C, "x": g.X, "v": g.V, "predicted": g.Predicted, "observed": o}
		real := "ok"
		switch {
		case o.Panic != "" || o.Hang:
			real = "panic"
			c.Fail("panic@"+o.Site+":guards:"+g.Op, fmt.Sprintf("%s with c=%s x=%s v=%s panicked: %s", src, g.C, g.X, g.V, trunc(o.Panic, 140)), cas)
		case o.IsErr:
			real = "err"
		}
		// reading a variable bound to nil is an "unknown identifier" error before the operation is reached
		nilOperand := g.X == "nil" || (g.Op == "update" && g.V == "nil") || g.C == "nil"
		if real != "panic" && real != g.Predicted && !nilOperand {
			c.Drift(fmt.Sprintf("IndexGuards predicts %s, code gives %s: %s(%s,%s,%s)", g.Predicted, real, g.Op, g.C, g.X, g.V))
		}
	}
	pool := newPool(8, run)
	_, err := c.mustTLC("IndexGuards", TLCOpts{Module: "IndexGuards", Cfg: "IndexGuards.cfg", Workers: 4, Seed: c.Seed, Timeout: 10 * time.Minute}, true, pool.feed)
	pool.close()
	if err != nil {
		return err
	}
	r, err := RunTLC(TLCOpts{Module: "IndexGuards", Cfg: "IndexGuards.asbuilt.cfg", Workers: 4, Seed: c.Seed, Timeout: 10 * time.Minute, NoCases: true}, nil)
	if err != nil {
		return err
	}
	c.extra["model_sensitivity"] = fmt.Sprintf("IndexGuards.tla with Guarded=FALSE (checks of the pinned commit): TLC reports %q", r.Violated)
	if r.Violated == "" {
		return fmt.Errorf("IndexGuards.tla no longer distinguishes the unguarded paths")
	}
	return nil
}
