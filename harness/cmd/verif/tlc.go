package main

import (
	"bufio"
	"context"
	"encoding/json"
	"fmt"
	"io"
	"os"
	"os/exec"
	"path/filepath"
	"regexp"
	"strconv"
	"strings"
	"time"
)

// TLCOpts describes one TLC run on a module of /verif/spec.
type TLCOpts struct {
	Module   string            // module name (file Module.tla)
	Cfg      string            // cfg file name inside spec/ (default Module.cfg)
	CfgText  string            // if set, written as the cfg instead
	Workers  int               // default 8
	Simulate int               // >0: -simulate num=N (single worker so that it is reproducible per seed)
	Depth    int               // -depth for simulation
	Seed     int64             // -seed
	Timeout  time.Duration     // outer timeout
	Xss      string            // java stack (default 256m)
	Xmx      string            // java heap (default 6g)
	Continue bool              // -continue
	DFS      bool              // depth-first state queue (trace validation with unlogged variables)
	Files    map[string][]byte // extra files written next to the spec (traces, generated modules)
	Env      []string
	NoCases  bool
}

type TLCResult struct {
	Generated, Distinct int64
	Cases               int64
	Violated            string // invariant / property / postcondition TLC reports as violated
	Errors              []string
	errCtx              int
	Tail                []string
	Wall                time.Duration
	Finished            bool
	PrintLines          []string // non-CASE lines printed by PrintT (unquoted)
}

var reStats = regexp.MustCompile(`^(\d+) states generated, (\d+) distinct states found`)
var reSimStats = regexp.MustCompile(`^The number of states generated: (\d+)`)
var reInv = regexp.MustCompile(`^Error: (Invariant|Action property|Temporal properties|Temporal property|Postcondition) ?(\S*)`)

// RunTLC runs TLC in a scratch copy of /verif/spec and streams every `"CASE {json}"` line to onCase.
func RunTLC(o TLCOpts, onCase func(json.RawMessage)) (*TLCResult, error) {
	if o.Workers == 0 {
		o.Workers = 8
	}
	if o.Timeout == 0 {
		o.Timeout = 10 * time.Minute
	}
	if o.Xss == "" {
		o.Xss = "256m"
	}
	tmp, err := os.MkdirTemp("", "verif-tlc-")
	if err != nil {
		return nil, err
	}
	defer os.RemoveAll(tmp)
	specDir := filepath.Join(verifRoot, "spec")
	ents, err := os.ReadDir(specDir)
	if err != nil {
		return nil, err
	}
	for _, e := range ents {
		if e.IsDir() {
			continue
		}
		b, err := os.ReadFile(filepath.Join(specDir, e.Name()))
		if err != nil {
			return nil, err
		}
		if err := os.WriteFile(filepath.Join(tmp, e.Name()), b, 0o644); err != nil {
			return nil, err
		}
	}
	for n, b := range o.Files {
		if err := os.WriteFile(filepath.Join(tmp, n), b, 0o644); err != nil {
			return nil, err
		}
	}
	cfg := o.Cfg
	if cfg == "" {
		cfg = o.Module + ".cfg"
	}
	if o.CfgText != "" {
		cfg = o.Module + ".gen.cfg"
		os.WriteFile(filepath.Join(tmp, cfg), []byte(o.CfgText), 0o644)
	}
	if o.Xmx == "" {
		o.Xmx = defaultXmx // a small heap is markedly faster here than the wrapper's 25% of RAM (page faulting under ParallelGC)
	}
	gcThreads := 4
	if o.Simulate > 0 || o.Workers < 4 {
		gcThreads = 2
	}
	// many parallel GC threads cost minutes of system time on this machine for allocation-heavy specs
	// (java.io.tmpdir: TLC creates a scratch directory of its own per run and leaves it behind)
	args := []string{"-XX:+UseParallelGC", fmt.Sprintf("-XX:ParallelGCThreads=%d", gcThreads), "-Xmx" + o.Xmx, "-Xss" + o.Xss, "-Djava.io.tmpdir=" + tmp}
	if o.DFS {
		args = append(args, "-Dtlc2.tool.queue.IStateQueue=StateDeque")
	}
	args = append(args, "-cp", "/opt/veriftools/tla/tla2tools.jar:/opt/veriftools/tla/CommunityModules-deps.jar", "tlc2.TLC",
		"-metadir", filepath.Join(tmp, "states"), "-config", cfg, "-seed", strconv.FormatInt(o.Seed, 10))
	if o.Simulate > 0 {
		args = append(args, "-workers", "1", "-simulate", "num="+strconv.Itoa(o.Simulate))
		if o.Depth > 0 {
			args = append(args, "-depth", strconv.Itoa(o.Depth))
		}
	} else {
		args = append(args, "-workers", strconv.Itoa(o.Workers))
	}
	if o.Continue {
		args = append(args, "-continue")
	}
	args = append(args, o.Module+".tla")
	ctx, cancel := context.WithTimeout(context.Background(), o.Timeout)
	defer cancel()
	cmd := exec.CommandContext(ctx, "java", args...)
	cmd.Dir = tmp
	cmd.Env = append(os.Environ(), o.Env...)
	stdout, err := cmd.StdoutPipe()
	if err != nil {
		return nil, err
	}
	cmd.Stderr = cmd.Stdout
	start := time.Now()
	if err := cmd.Start(); err != nil {
		return nil, err
	}
	res := &TLCResult{}
	rd := bufio.NewReaderSize(stdout, 1<<20)
	for {
		line, err := rd.ReadString('\n')
		if len(line) > 0 {
			line = strings.TrimRight(line, "\r\n")
			handleTLCLine(line, res, onCase, o.NoCases)
		}
		if err != nil {
			if err != io.EOF {
				res.Errors = append(res.Errors, "read: "+err.Error())
			}
			break
		}
	}
	werr := cmd.Wait()
	res.Wall = time.Since(start)
	if ctx.Err() != nil {
		return res, fmt.Errorf("tlc %s: timeout after %s", o.Module, o.Timeout)
	}
	if !res.Finished && res.Violated == "" {
		return res, fmt.Errorf("tlc %s did not finish (%v): %s", o.Module, werr, strings.Join(append(res.Errors, res.Tail...), " | "))
	}
	return res, nil
}

// defaultXmx: java heap of a TLC run that does not name one ("6g" quick, "14g" thorough: see runCheck)
var defaultXmx = "6g"

func handleTLCLine(line string, res *TLCResult, onCase func(json.RawMessage), noCases bool) {
	if strings.HasPrefix(line, `"CASE `) {
		res.Cases++
		if noCases || onCase == nil {
			return
		}
		u, err := strconv.Unquote(line)
		if err != nil {
			res.Errors = append(res.Errors, "unquote: "+err.Error()+": "+trunc(line, 200))
			return
		}
		onCase(json.RawMessage(u[5:]))
		return
	}
	if strings.HasPrefix(line, `"`) {
		if u, err := strconv.Unquote(line); err == nil {
			if len(res.PrintLines) < 10000 {
				res.PrintLines = append(res.PrintLines, u)
			}
			return
		}
	}
	if m := reStats.FindStringSubmatch(line); m != nil {
		res.Generated, _ = strconv.ParseInt(m[1], 10, 64)
		res.Distinct, _ = strconv.ParseInt(m[2], 10, 64)
	}
	if m := reSimStats.FindStringSubmatch(line); m != nil {
		res.Generated, _ = strconv.ParseInt(m[1], 10, 64)
		res.Distinct = res.Generated
		res.Finished = true
	}
	if strings.HasPrefix(line, "Finished in") || strings.HasPrefix(line, "Model checking completed") {
		res.Finished = true
	}
	if m := reInv.FindStringSubmatch(line); m != nil {
		if res.Violated == "" {
			res.Violated = strings.TrimSpace(m[1] + " " + m[2])
		}
	} else if strings.HasPrefix(line, "Error:") {
		res.Errors = append(res.Errors, trunc(line, 400))
		res.errCtx = 3
	} else if res.errCtx > 0 && strings.TrimSpace(line) != "" {
		// (the reason of an evaluation error stands on the lines after "Error: Evaluating ... failed.")
		res.errCtx--
		res.Errors = append(res.Errors, "  "+trunc(line, 300))
	}
	if len(res.Tail) >= 40 {
		res.Tail = res.Tail[1:]
	}
	res.Tail = append(res.Tail, trunc(line, 300))
}

func trunc(s string, n int) string {
	if len(s) > n {
		return s[:n] + "…"
	}
	return s
}

// noteTLC records a TLC run's counts in the evidence.
func (c *Ctx) noteTLC(name string, r *TLCResult, exhaustive bool) {
	c.mu.Lock()
	defer c.mu.Unlock()
	c.states += r.Distinct
	c.transitions += r.Generated
	c.tlcRuns = append(c.tlcRuns, map[string]interface{}{
		"model": name, "states_generated": r.Generated, "distinct_states": r.Distinct,
		"cases_emitted": r.Cases, "wall_s": r.Wall.Seconds(), "exhaustive": exhaustive,
	})
}

// mustTLC runs TLC and turns model-level problems into tooling errors (exit 2): the
// specifications' own theorems must hold on the unchanged specs.
func (c *Ctx) mustTLC(name string, o TLCOpts, exhaustive bool, onCase func(json.RawMessage)) (*TLCResult, error) {
	r, err := RunTLC(o, onCase)
	if r != nil {
		c.noteTLC(name, r, exhaustive)
	}
	if err != nil {
		return r, err
	}
	if r.Violated != "" {
		return r, fmt.Errorf("model %s: %s violated in the specification itself:\n%s", name, r.Violated, strings.Join(r.Tail, "\n"))
	}
	if len(r.Errors) > 0 {
		return r, fmt.Errorf("model %s: TLC errors: %s", name, strings.Join(r.Errors, " | "))
	}
	return r, nil
}
