package main

import (
	"bufio"
	"bytes"
	"encoding/json"
	"fmt"
	"os"
	"os/exec"
	"path/filepath"
	"strings"
	"sync"
	"time"

	"github.com/gobuffalo/plush/v5"
)

// Direction 2 for contexts: events recorded by the `verif` hooks of /repo are partitioned by
// context tree (root), renumbered densely per tree, concatenated with "reset" separators and
// validated by TLC against ContextTrace.tla (which reuses Context.tla's core actions).

type ctxEvent = map[string]interface{}

// recorder collects events from the in-process tracer.
type recorder struct {
	mu  sync.Mutex
	evs []ctxEvent
}

func (r *recorder) install() {
	plush.VerifSetTracer(func(e plush.VerifEvent) {
		r.mu.Lock()
		r.evs = append(r.evs, ctxEvent(e))
		r.mu.Unlock()
	})
}

func (r *recorder) uninstall() { plush.VerifSetTracer(nil) }

func num(v interface{}) int {
	switch t := v.(type) {
	case float64:
		return int(t)
	case int:
		return t
	case json.Number:
		n, _ := t.Int64()
		return int(n)
	}
	return 0
}

// partitionCtxEvents splits context events by tree and renumbers ids. Events of trees larger
// than maxTree contexts are dropped (counted) to keep TLC's states small.
func partitionCtxEvents(evs []ctxEvent, maxTree int) (out []ctxEvent, trees, dropped int) {
	root := map[int]int{}
	perTree := map[int][]ctxEvent{}
	order := []int{}
	size := map[int]int{}
	flush := func() {
		for _, r := range order {
			if size[r] > maxTree {
				dropped++
				continue
			}
			trees++
			renum := map[int]int{}
			out = append(out, ctxEvent{"op": "reset"})
			for _, e := range perTree[r] {
				ne := ctxEvent{}
				for k, v := range e {
					ne[k] = v
				}
				switch e["op"] {
				case "new", "adopt":
					renum[num(e["id"])] = len(renum) + 1
					ne["id"] = renum[num(e["id"])]
					ne["o"] = renum[num(e["o"])]
				case "newdone":
					ne["id"] = renum[num(e["id"])]
				default:
					ne["c"] = renum[num(e["c"])]
				}
				out = append(out, ne)
			}
		}
		root, perTree, order, size = map[int]int{}, map[int][]ctxEvent{}, nil, map[int]int{}
	}
	for _, e := range evs {
		switch e["op"] {
		case "reset":
			flush()
		case "new", "adopt":
			id, o := num(e["id"]), num(e["o"])
			r := id
			if o != 0 {
				r = root[o]
			} else {
				order = append(order, id)
			}
			root[id] = r
			size[r]++
			perTree[r] = append(perTree[r], e)
		case "newdone":
			r := root[num(e["id"])]
			perTree[r] = append(perTree[r], e)
		case "set", "value":
			r := root[num(e["c"])]
			perTree[r] = append(perTree[r], e)
		}
	}
	flush()
	return
}

// validateCtxTrace runs TLC on ContextTrace.tla for the given events; returns accepted, the
// number of lines, and the index of the first line that could not be matched.
func validateCtxTrace(c *Ctx, name string, evs []ctxEvent) (accepted bool, lines int, rejectedAt int, err error) {
	if len(evs) == 0 {
		return true, 0, 0, nil
	}
	var buf bytes.Buffer
	enc := json.NewEncoder(&buf)
	for _, e := range evs {
		enc.Encode(e)
	}
	r, err := RunTLC(TLCOpts{Module: "ContextTrace", Cfg: "ContextTrace.cfg", Workers: 1, Seed: c.Seed,
		Timeout: 20 * time.Minute, Files: map[string][]byte{"trace.ndjson": buf.Bytes()}, NoCases: true}, nil)
	if r != nil {
		c.noteTLC("ContextTrace/"+name, r, false)
	}
	if err != nil {
		return false, len(evs), 0, err
	}
	if len(r.Errors) > 0 && r.Violated == "" {
		return false, len(evs), 0, fmt.Errorf("ContextTrace: %s", strings.Join(r.Errors, " | "))
	}
	if r.Violated == "" {
		return true, len(evs), 0, nil
	}
	at := 0
	for _, p := range r.PrintLines {
		fmt.Sscanf(p, "<<\"REJECTED_AT\", %d", &at)
	}
	for _, p := range r.Tail {
		if strings.Contains(p, "REJECTED_AT") {
			fmt.Sscanf(p[strings.Index(p, "REJECTED_AT")+13:], "%d", &at)
		}
	}
	return false, len(evs), at, nil
}

// validateTrace runs TLC on a trace specification; returns accepted and the first unmatched line.
func validateTrace(c *Ctx, module, cfg, file, name string, evs []ctxEvent) (bool, int, error) {
	if len(evs) == 0 {
		return true, 0, nil
	}
	var buf bytes.Buffer
	enc := json.NewEncoder(&buf)
	for _, e := range evs {
		enc.Encode(e)
	}
	r, err := RunTLC(TLCOpts{Module: module, Cfg: cfg, Workers: 1, Seed: c.Seed, Timeout: 20 * time.Minute,
		Files: map[string][]byte{file: buf.Bytes()}, NoCases: true}, nil)
	if r != nil {
		c.noteTLC(module+"/"+name, r, false)
	}
	if err != nil {
		return false, 0, err
	}
	if len(r.Errors) > 0 && r.Violated == "" {
		return false, 0, fmt.Errorf("%s: %s", module, strings.Join(r.Errors, " | "))
	}
	if r.Violated == "" {
		return true, 0, nil
	}
	at := 0
	for _, p := range append(r.PrintLines, r.Tail...) {
		if i := strings.Index(p, "REJECTED_AT"); i >= 0 {
			fmt.Sscanf(strings.TrimLeft(p[i+11:], "\", "), "%d", &at)
		}
	}
	return false, at, nil
}

// recordRepoSuite runs the repository's own root-package tests, unedited, with the hooks on
// and VERIF_TRACE_FILE set, and returns the recorded events.
func recordRepoSuite() ([]ctxEvent, error) {
	tmp, err := os.MkdirTemp("", "verif-trace-")
	if err != nil {
		return nil, err
	}
	defer os.RemoveAll(tmp)
	tf := filepath.Join(tmp, "trace.ndjson")
	cmd := exec.Command("go", "test", "-tags", "verif", "-vet=off", "-count=1", "-skip", "Concurrency", ".")
	cmd.Dir = envOr("VERIF_REPO", "/repo")
	cmd.Env = append(os.Environ(), "VERIF_TRACE_FILE="+tf, "GOFLAGS=-mod=mod", "GOPROXY=off", "GOSUMDB=off", "GOTOOLCHAIN=local")
	outb, err := cmd.CombinedOutput()
	if err != nil {
		// failing repository tests are not this check's business, but no trace means no evidence
		if _, serr := os.Stat(tf); serr != nil {
			return nil, fmt.Errorf("recording the repository suite failed: %v: %s", err, trunc(string(outb), 600))
		}
	}
	return readEvents(tf)
}

func readEvents(path string) ([]ctxEvent, error) {
	f, err := os.Open(path)
	if err != nil {
		return nil, err
	}
	defer f.Close()
	var evs []ctxEvent
	sc := bufio.NewScanner(f)
	sc.Buffer(make([]byte, 1<<20), 1<<24)
	for sc.Scan() {
		var e ctxEvent
		if err := json.Unmarshal(sc.Bytes(), &e); err != nil {
			return nil, fmt.Errorf("trace line: %v", err)
		}
		evs = append(evs, e)
	}
	return evs, sc.Err()
}

// checkCtxTrace validates events and turns a rejection into a verdict for property prop.
func checkCtxTrace(c *Ctx, name string, raw []ctxEvent, maxTree int) error {
	evs, trees, dropped := partitionCtxEvents(raw, maxTree)
	ok, lines, at, err := validateCtxTrace(c, name, evs)
	if err != nil {
		return err
	}
	c.mu.Lock()
	c.extra["trace_"+name] = map[string]interface{}{"events": lines, "context_trees": trees, "trees_dropped_as_too_large": dropped, "accepted": ok}
	c.mu.Unlock()
	if ok {
		c.AddTraces(int64(trees))
		return nil
	}
	// longest matched prefix is at-1 lines (diameter counts the initial state); show the rejected line
	var rej interface{}
	ctxLines := []ctxEvent{}
	if at >= 1 && at <= len(evs) {
		rej = evs[at-1]
		lo := at - 8
		if lo < 0 {
			lo = 0
		}
		ctxLines = evs[lo:at]
	}
	op := ""
	if m, ok := rej.(ctxEvent); ok {
		op, _ = m["op"].(string)
	}
	c.Fail("trace-rejected:"+name+":"+op, fmt.Sprintf("trace %s: event %d of %d is not a step of Context.tla: %v", name, at, lines, rej),
		map[string]interface{}{"trace": name, "rejected_event": rej, "preceding": ctxLines})
	return nil
}

func c10Trace(c *Ctx) error {
	raw, err := recordRepoSuite()
	if err != nil {
		return err
	}
	if err := checkCtxTrace(c, "repo_suite", raw, 400); err != nil {
		return err
	}
	// negative control: a corrupted reply must be rejected (the binding is real)
	evs, _, _ := partitionCtxEvents(raw, 400)
	for i, e := range evs {
		if e["op"] == "value" && e["r"] != "nil" && i > len(evs)/2 {
			e["r"] = "int:424242"
			break
		}
	}
	ok, _, _, err := validateCtxTrace(c, "negative_control", evs)
	if err != nil {
		return err
	}
	c.extra["trace_negative_control_rejected"] = !ok
	if ok {
		return fmt.Errorf("trace validation accepted a corrupted trace: binding broken")
	}
	return nil
}
