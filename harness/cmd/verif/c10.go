package main

import (
	"context"
	"encoding/json"
	"fmt"
	"reflect"
	"sync"
	"time"

	"github.com/gobuffalo/plush/v5"
)

// C10 — Context behaves as a chain of scopes for every history of New/Set/Value/Has.
//
// Direction 1: TLC enumerates every history of Context.tla (exhaustive small scope + seeded
// random walks); each state is emitted with the DECLARATIVE observation table (DValue, computed
// from the history alone); the history is replayed on real plush.Context values and the full
// Value/Has table is compared after the last operation (every prefix is itself a state).
// Direction 2: see c10trace.go (context operations recorded from the evaluator and the
// repository's tests, validated against ContextTrace.tla).

// tlaMap decodes a TLA+ function with string domain; TLC prints the empty function as [].
type tlaMap map[string]string

func (m *tlaMap) UnmarshalJSON(b []byte) error {
	*m = tlaMap{}
	if len(b) > 0 && b[0] == '[' {
		return nil
	}
	return json.Unmarshal(b, (*map[string]string)(m))
}

type c10Event struct {
	Op string `json:"op"`
	D  tlaMap `json:"d"`
	W  tlaMap `json:"w"`
	C  int    `json:"c"`
	K  string `json:"k"`
	V  string `json:"v"`
}

type c10Case struct {
	Hist  []c10Event          `json:"hist"`
	Table []map[string]string `json:"table"`
}

func c10Val(s string) interface{} {
	switch s {
	case "v1":
		return 1
	case "v2":
		return 2
	}
	return nil
}

var c10Keys = []string{"a", "b", "len"}

// c10Observe names what Value returned in the model's vocabulary.
func c10Observe(v interface{}) string {
	switch t := v.(type) {
	case nil:
		return "nil"
	case int:
		if t == 1 {
			return "v1"
		}
		if t == 2 {
			return "v2"
		}
	}
	if reflect.ValueOf(v).Kind() == reflect.Func {
		if b, ok := plush.Helpers.All()["len"]; ok && reflect.ValueOf(b).Pointer() == reflect.ValueOf(v).Pointer() {
			return "BUILTIN"
		}
		return "OTHERFUNC"
	}
	return fmt.Sprintf("?%T:%v", v, v)
}

// c10Replay replays the history twice: with the constructors applications use (NewContextWith, New), and with the
// exported constructor both are made of (NewContextWithOuter with a nil / the parent as outer context).
func c10Replay(cs *c10Case) (sig, msg string) {
	if sig, msg = c10ReplayV(cs, false); sig != "" {
		return sig, msg
	}
	if sig, msg = c10ReplayV(cs, true); sig != "" {
		return "withouter:" + sig, "(contexts made by NewContextWithOuter) " + msg
	}
	return "", ""
}

// c10NilData: roots built without data (a nil map) are trees of their own like any other: what is Set on one is seen by no
// other tree. (Sequential, after the parallel replays: a root that aliased process-wide state would make them race.)
func c10NilData(c *Ctx) {
	c.Eval("nildata")
	c.Rule("nildata")
	r1 := plush.NewContextWith(nil)
	r1.Set("a", 1)
	r1.Set("len", "user")
	ch := r1.New().(*plush.Context)
	ch.Set("b", 2)
	r2 := plush.NewContext()
	r3 := plush.NewContextWith(nil)
	r4 := plush.NewContextWithOuter(nil, nil)
	got := fmt.Sprintf("r1:%v,%v ch:%v,%v", r1.Value("a"), r1.Value("len"), ch.Value("a"), ch.Value("b"))
	for _, r := range []*plush.Context{r2, r3, r4, r2.New().(*plush.Context)} {
		got += fmt.Sprintf(" other:%v,%v,%s", r.Value("a"), r.Value("b"), c10Observe(r.Value("len")))
	}
	want := "r1:1,user ch:1,2 other:<nil>,<nil>,BUILTIN other:<nil>,<nil>,BUILTIN other:<nil>,<nil>,BUILTIN other:<nil>,<nil>,BUILTIN"
	if got != want {
		c.Fail("nildata", fmt.Sprintf("roots without data: observed %s, the chain semantics gives %s", got, want), map[string]interface{}{"gen": "c10NilData"})
	}
}

// c10Deep: the chain semantics does not depend on how long the chain is (template recursion makes chains of hundreds of scopes)
func c10Deep(c *Ctx) {
	for _, depth := range []int{10, 255, 256, 257, 1000} {
		c.Eval(fmt.Sprintf("deepchain:%d", depth))
		c.Rule("deepchain")
		root := plush.NewContext()
		root.Set("a", 1)
		root.Set("len", "user")
		cur := root
		for i := 0; i < depth; i++ {
			cur = cur.New().(*plush.Context)
		}
		root.Set("b", 2) // after the chain exists
		got := fmt.Sprintf("a=%v b=%v len=%v has=%v/%v", cur.Value("a"), cur.Value("b"), cur.Value("len"), cur.Has("a"), cur.Has("zz"))
		if want := "a=1 b=2 len=user has=true/false"; got != want {
			c.Fail("deepchain", fmt.Sprintf("a context %d scopes below the root reads %s, the chain semantics gives %s", depth, got, want),
				map[string]interface{}{"gen": "c10Deep", "depth": depth})
		}
	}
}

func c10ReplayV(cs *c10Case, withOuter bool) (sig, msg string) {
	defer func() {
		if r := recover(); r != nil {
			sig, msg = "panic", fmt.Sprintf("panic: %v", r)
		}
	}()
	var ctxs []*plush.Context
	for _, e := range cs.Hist {
		switch e.Op {
		case "root":
			d := map[string]interface{}{}
			for k, v := range e.D {
				if v != "ABSENT" {
					d[k] = c10Val(v)
				}
			}
			if len(e.W) > 0 {
				// a root built around a context.Context that carries values
				var gc context.Context = context.Background()
				for k, v := range e.W {
					gc = context.WithValue(gc, k, c10Val(v))
				}
				ctxs = append(ctxs, plush.NewContextWithContext(gc))
			} else if withOuter {
				ctxs = append(ctxs, plush.NewContextWithOuter(d, nil))
			} else {
				ctxs = append(ctxs, plush.NewContextWith(d))
			}
		case "new":
			if withOuter {
				ctxs = append(ctxs, plush.NewContextWithOuter(map[string]interface{}{}, ctxs[e.C-1]))
			} else {
				ctxs = append(ctxs, ctxs[e.C-1].New().(*plush.Context))
			}
		case "set":
			ctxs[e.C-1].Set(e.K, c10Val(e.V))
		}
		// observers run between the operations too: reading must not change anything
		for _, cx := range ctxs {
			for _, k := range c10Keys {
				cx.Value(k)
				cx.Has(k)
			}
		}
	}
	if len(ctxs) != len(cs.Table) {
		return "harness", "table size mismatch"
	}
	for i, row := range cs.Table {
		for _, k := range c10Keys {
			got := c10Observe(ctxs[i].Value(k))
			if got != row[k] {
				return c10Sig(cs, i, k, row[k], got), fmt.Sprintf("ctx %d Value(%q) = %s, chain semantics of the history gives %s", i+1, k, got, row[k])
			}
			if has := ctxs[i].Has(k); has != (row[k] != "nil") {
				return "has:" + k, fmt.Sprintf("ctx %d Has(%q) = %v but Value is %s", i+1, k, has, row[k])
			}
		}
	}
	return "", ""
}

// c10Sig classifies a mismatch: which kind of key, expected vs observed class, and whether the
// deciding binding was a nil (the shape of the helper-injection defect).
func c10Sig(cs *c10Case, ctx int, k, want, got string) string {
	cls := func(s string) string {
		switch s {
		case "nil", "BUILTIN":
			return s
		case "v1", "v2":
			return "user"
		}
		return "other"
	}
	kind := "plain"
	if k == "len" {
		kind = "helper"
	}
	return fmt.Sprintf("value:%s:want=%s:got=%s", kind, cls(want), cls(got))
}

func c10Shape(cs *c10Case) string {
	s := ""
	for _, e := range cs.Hist {
		switch e.Op {
		case "root":
			s += "R"
			if e.D["len"] != "ABSENT" {
				s += "h"
			}
		case "new":
			s += fmt.Sprintf("N%d", e.C)
		case "set":
			t := "s"
			if e.K == "len" {
				t = "S"
			}
			if e.V == "nil" {
				t += "0"
			}
			s += fmt.Sprintf("%s%d", t, e.C)
		}
	}
	return s
}

func init() { register("C10", checkC10) }

func checkC10(c *Ctx) error {
	c.ruleText = "every state of Context.tla (= one history of New/Set over a context tree, built by TLC) is replayed on real plush.Context values; Value/Has of every (context,key) is compared with the declarative chain semantics computed in the model from the history alone. distinct_nontrivial counts distinct history shapes (operation kinds, target contexts, helper-vs-plain key, nil-vs-value) with at least one child context."
	c.Assume("TLC explores the bounded history space completely (exhaustive part) / by seeded random walks (simulation part)")
	c.Assume("values are the ints 1, 2 and nil; keys a, b and the built-in helper name len")

	if c.ReplayPath != "" {
		return replayFile(c, func(raw json.RawMessage) { c10Run(c, raw) })
	}

	var wg sync.WaitGroup
	ch := make(chan json.RawMessage, 4096)
	for i := 0; i < 8; i++ {
		wg.Add(1)
		go func() {
			defer wg.Done()
			for raw := range ch {
				c10Run(c, raw)
			}
		}()
	}
	feed := func(raw json.RawMessage) { ch <- raw }

	cfg := "ContextMC.quick.cfg"
	if c.Thorough() {
		cfg = "ContextMC.thorough.cfg"
	}
	_, err := c.mustTLC("Context/"+cfg, TLCOpts{Module: "ContextMC", Cfg: cfg, Workers: 8, Seed: c.Seed, Timeout: 20 * time.Minute}, true, feed)
	if err != nil {
		close(ch)
		wg.Wait()
		return err
	}
	c.exhaustive = true
	c10Deep(c)
	// seeded random walks far beyond the exhaustive bound
	nsim, depth := 40, 20
	if c.Thorough() {
		nsim, depth = 700, 41
	}
	_, err = c.mustTLC("Context/sim", TLCOpts{Module: "ContextMC", Cfg: "ContextMC.sim.cfg", Simulate: nsim, Depth: depth, Seed: c.Seed, Timeout: 20 * time.Minute}, false, feed)
	close(ch)
	wg.Wait()
	if err != nil {
		return err
	}
	c10NilData(c)
	// the as-built constructors (InjectByHas) must be distinguishable by the model: Agree fails there.
	r, err := RunTLC(TLCOpts{Module: "ContextMC", Cfg: "ContextMC.asbuilt.cfg", Workers: 4, Seed: c.Seed, Timeout: 5 * time.Minute, NoCases: true}, nil)
	if err != nil {
		return err
	}
	c.extra["model_sensitivity"] = fmt.Sprintf("Context.tla with InjectByHas=TRUE (constructors as at the pinned commit): TLC reports %q", r.Violated)
	if r.Violated == "" {
		return fmt.Errorf("Context.tla no longer distinguishes injection-by-Has from injection-by-presence")
	}
	return c10Trace(c)
}

func c10Run(c *Ctx, raw json.RawMessage) {
	var cs c10Case
	if err := json.Unmarshal(raw, &cs); err != nil {
		c.Fail("harness:json", err.Error(), string(raw))
		return
	}
	shape := ""
	if len(cs.Table) > 1 {
		shape = c10Shape(&cs)
	}
	c.Eval(shape)
	for _, e := range cs.Hist {
		c.Rule(e.Op)
	}
	sig, msg := c10Replay(&cs)
	if len(cs.Hist) >= 3 {
		c.Sample(map[string]interface{}{"history": cs.Hist, "expected_table": cs.Table, "observed": okOr(sig, msg)})
	}
	if sig != "" {
		c.Fail(sig, msg, cs)
	}
}

func okOr(sig, msg string) string {
	if sig == "" {
		return "agrees"
	}
	return sig + ": " + msg
}
