package main

import (
	"encoding/json"
	"fmt"
	"strings"
	"time"

	"github.com/gobuffalo/plush/v5"
)

// semSpec describes a property check that is "TLC generator over the reference semantics +
// replay into real plush": which generator configurations to run and how a case counts.
type semSpec struct {
	ID       string
	Module   string
	Quick    []semRun
	Thorough []semRun
	Rule     string
	Assume   []string
	CheckLog bool
	// Shape returns the non-trivial shape of a case ("" = trivial). Default: sc.Shape.
	Shape func(sc *semCase) string
	// Sig refines a failure signature (default: verdict signature + ":" + case shape).
	Sig func(sc *semCase, mode string, v semVerdict) string
	// Own decides whether a mismatch belongs to this property (otherwise it is drift, decided by
	// the property that owns it). Default: everything except failures on unspecified cases.
	Own func(sc *semCase, v semVerdict) bool
	// TraceCtx > 0: afterwards, up to TraceCtx of the cases are rendered again, sequentially, with the
	// verif tracer installed, and the evaluator's context operations are validated by TLC against
	// ContextTrace.tla (direction 2).
	TraceCtx int
	// Extra is run on every case after the standard comparison (metamorphic relations etc.).
	Extra func(c *Ctx, sc *semCase, obs map[string]observation)
	// PerRun is run after each execution of a source (independent oracles on the real observation).
	PerRun func(c *Ctx, sc *semCase, src string, v semVerdict)
	// Via: every case is also rendered through a helper that renders the source with its HelperContext.
	Via bool
	// Post runs after all cases (model sensitivity runs etc.).
	Post func(c *Ctx) error
	// Pre runs further machines before the generator; their cases (other "gen" values) go to Side.
	Pre  func(c *Ctx, feed func(json.RawMessage)) error
	Side map[string]func(c *Ctx, raw json.RawMessage)
}

type semRun struct {
	Module     string // default: the spec's module
	Cfg        string
	Simulate   int // 0 = exhaustive BFS
	Depth      int
	Workers    int
	Exhaustive bool
	// CacheOn: the cases of this run are rendered with plush.CacheEnabled (a process-wide switch: the
	// run has a worker pool of its own, and every case carries "cache":true for its replay)
	CacheOn bool
	// Xmx: java heap of this run where the default (6g) is too small
	Xmx string
}

func registerSem(s semSpec) {
	register(s.ID, func(c *Ctx) error { return runSemSpec(c, &s) })
}

func runSemSpec(c *Ctx, s *semSpec) error {
	c.ruleText = s.Rule
	for _, a := range s.Assume {
		c.Assume(a)
	}
	run := func(raw json.RawMessage) { semRunCase(c, s, raw) }
	if c.ReplayPath != "" {
		defer func() { plush.CacheEnabled = false }()
		return replayFile(c, func(raw json.RawMessage) {
			var probe struct {
				Cache bool `json:"cache"`
			}
			_ = json.Unmarshal(raw, &probe)
			plush.CacheEnabled = probe.Cache
			run(raw)
		})
	}
	runs := s.Quick
	if c.Thorough() {
		runs = s.Thorough
	}
	pool := newPool(12, run)
	var err error
	allExh := true
	if s.Pre != nil {
		if err = s.Pre(c, pool.feed); err != nil {
			runs = nil
		}
	}
	for _, r := range runs {
		w := r.Workers
		if w == 0 {
			w = 12
		}
		exh := r.Simulate == 0
		if !exh {
			allExh = false
		}
		mod := s.Module
		if r.Module != "" {
			mod = r.Module
		}
		feed := pool.feed
		if r.CacheOn {
			pool.close() // nothing is in flight while the switch changes
			plush.CacheEnabled = true
			// one worker: equal texts are ONE parsed template now, and what these cases decide is the sequential meaning
			// (executions of one template at the same time are C14's subject)
			pool = newPool(1, run)
			p := pool
			feed = func(raw json.RawMessage) {
				if n := len(raw); n > 1 && raw[n-1] == '}' {
					raw = append(append(json.RawMessage{}, raw[:n-1]...), []byte(`,"cache":true}`)...)
				}
				p.feed(raw)
			}
		}
		name := mod + "/" + r.Cfg
		if r.CacheOn {
			name += "+cache"
		}
		_, err = c.mustTLC(name, TLCOpts{Module: mod, Cfg: r.Cfg, Workers: w, Simulate: r.Simulate, Depth: r.Depth,
			Seed: c.Seed, Timeout: 45 * time.Minute, Xmx: r.Xmx}, exh, feed)
		if r.CacheOn {
			pool.close()
			plush.CacheEnabled = false
			pool = newPool(12, run)
		}
		if err != nil {
			break
		}
	}
	pool.close()
	c.exhaustive = allExh || len(runs) > 0 && runs[0].Simulate == 0
	if err == nil && s.TraceCtx > 0 {
		err = semTraceCtx(c, s)
	}
	if err == nil && s.Post != nil {
		err = s.Post(c)
	}
	return err
}

// evalCtlSensitivity: EvalCtl.tla with each deviation switch on must violate its theorems.
func evalCtlSensitivity(devs ...string) func(c *Ctx) error {
	return func(c *Ctx) error {
		sens := map[string]string{}
		for _, d := range devs {
			r, err := RunTLC(TLCOpts{Module: "EvalCtl", Cfg: "EvalCtl.dev_" + d + ".cfg", Workers: 4, Seed: c.Seed, Timeout: 10 * time.Minute, NoCases: true}, nil)
			if err != nil {
				return err
			}
			if r.Violated == "" {
				return fmt.Errorf("EvalCtl.tla with deviation %s no longer violates its theorems", d)
			}
			sens[d] = r.Violated
		}
		c.extra["model_sensitivity_evalctl"] = sens
		return nil
	}
}

// semTraceCtx renders the kept cases one by one with the tracer on and validates the recorded
// context constructions / writes / reads against Context.tla's actions.
func semTraceCtx(c *Ctx, s *semSpec) error {
	c.mu.Lock()
	kept := c.kept
	c.kept = nil
	c.mu.Unlock()
	rec := &recorder{}
	rec.install()
	for _, k := range kept {
		plush.VerifReset()
		env := newRunEnv()
		for n, v := range k.Parts {
			env.parts[n] = decodeChars(v)
		}
		ctx := env.contextW(k.Data, k.Wrapped)
		for _, src := range k.sources() {
			renderObserved(src, ctx)
		}
	}
	rec.uninstall()
	return checkCtxTrace(c, "generated_programs", rec.evs, 400)
}

func semRunCase(c *Ctx, s *semSpec, raw json.RawMessage) {
	if s.Side != nil {
		var probe struct {
			Gen string `json:"gen"`
		}
		if json.Unmarshal(raw, &probe) == nil && s.Side[probe.Gen] != nil {
			s.Side[probe.Gen](c, raw)
			return
		}
	}
	var sc semCase
	if err := json.Unmarshal(raw, &sc); err != nil {
		c.Fail("harness:json", err.Error(), string(raw))
		return
	}
	shape := sc.Shape
	if s.Shape != nil {
		shape = s.Shape(&sc)
	}
	if sc.Expect.K == "unspec" {
		shape = ""
	}
	if s.TraceCtx > 0 && shape != "" {
		c.mu.Lock()
		if len(c.kept) < s.TraceCtx {
			c.kept = append(c.kept, &sc)
		}
		c.mu.Unlock()
	}
	obs := map[string]observation{}
	for mode, src := range sc.sources() {
		c.Eval(shape)
		c.Rule("expect:" + sc.Expect.K)
		v := runSem(&sc, src, s.CheckLog)
		obs[mode] = v.Obs
		if s.PerRun != nil {
			s.PerRun(c, &sc, src, v)
		}
		if shape != "" {
			c.Sample(map[string]interface{}{"source": src, "data": sc.Data, "expected": sc.Expect, "observed": v.Obs, "verdict": okOr(v.Sig, v.Msg)})
		}
		if v.Sig == "" {
			continue
		}
		own := sc.Expect.K != "unspec"
		if s.Own != nil {
			own = s.Own(&sc, v)
		}
		if !own {
			c.Drift(v.Sig)
			continue
		}
		sig := v.Sig + ":" + sc.Shape
		if s.Sig != nil {
			sig = s.Sig(&sc, mode, v)
		}
		c.Fail(sig, fmt.Sprintf("%s  [%s]: %s", src, mode, v.Msg),
			map[string]interface{}{"gen": sc.Gen, "src": srcToks(&sc, mode), "data": sc.Data, "parts": sc.PartsR, "expect": sc.Expect,
				"shape": sc.Shape, "source_text": src, "cache": sc.Cache, "observed": v.Obs})
	}
	if s.Via && sc.Expect.K != "unspec" {
		for mode, src := range sc.sources() {
			v := runSemVia(&sc, src, s.CheckLog, true)
			if v.Sig != "" && !strings.HasPrefix(v.Sig, "panic") && v.Sig != "hang" {
				c.Fail("via-helper:"+v.Sig+":"+sc.Shape, fmt.Sprintf("%s  [%s, rendered by a helper with its HelperContext]: %s", src, mode, v.Msg),
					map[string]interface{}{"gen": sc.Gen, "src": srcToks(&sc, mode), "data": sc.Data, "parts": sc.PartsR, "expect": sc.Expect, "shape": sc.Shape, "source_text": src, "via_helper": true, "observed": v.Obs})
			} else if v.Sig != "" {
				c.Drift("via-helper:" + v.Sig)
			}
		}
	}
	if s.Extra != nil {
		s.Extra(c, &sc, obs)
	}
}

func srcToks(sc *semCase, mode string) []string {
	if mode == "src" {
		return sc.Src
	}
	return sc.Srcs[mode]
}

func init() {
	registerSem(semSpec{
		ID: "C08", Module: "GenLoops", CheckLog: false, Via: true,
		Quick:    []semRun{{Cfg: "GenLoops.quick.cfg", Workers: 8}, {Module: "EvalCtl", Cfg: "EvalCtl.loops.cfg", Workers: 8}},
		Thorough: []semRun{{Cfg: "GenLoops.thorough.cfg", Workers: 12}, {Module: "EvalCtl", Cfg: "EvalCtl.loops5.cfg", Workers: 12}},
		Post:     evalCtlSensitivity("breakdrops"),
		Rule:     "GenLoops.tla: 28 iterables (array literals of length 0..3, []interface{}, []int, [2]int, []string, range/between/until, a custom Iterator, Go maps and hash literals, five ways of being nil, six non-iterable kinds) x every loop body of up to MaxLen statements over 12 building blocks (emit value/key/text, if+break and if+continue with and without text before them, else branch, nested loop before/after, nested loop with its own break, function literal, return); expected output from the reference semantics, map loops as a set of admissible orders; for control-free bodies the model also emits the UNROLLED program and TLC checks loop = unrolled (UnrollTheorem); both are rendered by real plush. distinct_nontrivial = distinct (iterable, body) shapes with a specified outcome.",
		Assume:   []string{"return inside a loop body contributes its value and ends the iteration (pinned by the repository's Test_Render_For_Array_Return)", "break inside a loop over a map is order dependent and only checked for totality"},
	})
	registerSem(semSpec{
		ID: "C16", Module: "GenFuncs", CheckLog: true,
		Quick:    []semRun{{Cfg: "GenFuncs.quick.cfg", Workers: 8}, {Module: "EvalCtl", Cfg: "EvalCtl.calls.cfg", Workers: 8}},
		Thorough: []semRun{{Cfg: "GenFuncs.thorough.cfg", Workers: 12}, {Module: "EvalCtl", Cfg: "EvalCtl.calls5.cfg", Workers: 12}},
		Post:     evalCtlSensitivity("flattenone", "retendsblock"),
		Rule:     "GenFuncs.tla: functions of 0..MaxParams parameters whose bodies are if/return decision chains (conditions: parameter truthy / falsy / equal to another parameter; results: a parameter or a literal; a probe after every link and after the final return) x every argument tuple over a pool that includes caller variables named like the callee's parameters x six uses of the result (emit, condition, ==, let, argument of a Go helper, call through a parameter of a higher-order function). TLC checks ChainTheorem (value of the call = declarative first-match reading of the chain; probes after the first return reached never run; scope depth restored). Real plush must render the model's output and record the model's probe sequence. distinct_nontrivial = distinct (use, arity, chain length) shapes with specified outcome.",
	})
	registerSem(semSpec{
		ID: "C09", Module: "GenScopes", CheckLog: false, TraceCtx: 400, Via: true,
		Quick:    []semRun{{Cfg: "GenScopes.quick.cfg", Workers: 8}},
		Thorough: []semRun{{Cfg: "GenScopes.thorough.cfg", Workers: 12, Xmx: "14g"}}, // (790k nestings: 6g ends in back-to-back full collections)
		Rule:     "GenScopes.tla: every nesting up to MaxDepth of {for, user-function call, partial, contentFor/contentOf with data, block helper with own context} x {the construct itself binds the outer name x, a let in its body binds x}; every level binds a fresh name y_i and probes x and an outer-only name t inside, and x and y_i after the level ends. TLC checks ScopeTheorem (stack depth restored, top scope's x and t unchanged, no y_i leaked) and ProbeTheorem (probe text = declarative expectation) on the reference semantics; real plush must render the same probe output. Direction 2: the context constructions/writes the real evaluator performs while rendering these programs are recorded by the verif hooks and validated by TLC against ContextTrace.tla. distinct_nontrivial = distinct nesting shapes.",
	})
	registerSem(semSpec{
		ID: "C01", Module: "GenRoutes", CheckLog: false,
		Pre:      writeMachine,
		Side:     map[string]func(*Ctx, json.RawMessage){"WriteOf": sideWriteOf},
		Quick:    []semRun{{Cfg: "GenRoutes.quick.cfg", Workers: 8}},
		Thorough: []semRun{{Cfg: "GenRoutes.thorough.cfg", Workers: 12}},
		Rule:     "GenRoutes.tla: 5 payloads (specials, entity text, multi-byte, seeded PLAIN/MB classes) x 15 places the payload starts (string literal, back-quoted literal, context string, template.HTML, HTMLer, raw() of literal / variable, struct field (string / HTML), map element, []string / []interface{} element, helper result, whole []string / []interface{}) x sequences of <= MaxSteps of 10 plumbing steps (let, \"\" + x, x + \"\", array wrap + index, array wrap emitted whole, hash wrap + index, identity user function, emitting user function, Go identity helper, parentheses) x 14 sinks (top level, loop variable, if / else body, function body, function call in a loop, block helper with caller's / own context, contentFor+contentOf, contentOf data, contentOf default block, partial data, nested partial, layout yield). TLC checks TaintTheorem on the reference semantics (data never contributes a raw < > ' \"; trusted HTML appears verbatim exactly once). Real-code oracle: where the payload was data each of < > & ' \" must appear as an HTML entity (any spelling), where it was trusted HTML the bytes must appear verbatim exactly once, all surrounding literal text byte for byte. distinct_nontrivial = distinct (start, steps, sink) routes with a specified outcome.",
		Assume:   []string{"the printed form of string + trusted HTML is not specified (only that the string's characters stay escaped); a fmt.Stringer and a block helper that returns `string` are outside the property's quantifier"},
		// independent of the model (also for routes whose exact output is unspecified): a payload that
		// started as a Go string must never reach the output with its special characters raw
		PerRun: func(c *Ctx, sc *semCase, src string, v semVerdict) {
			if sc.Trusted == nil || *sc.Trusted || v.Obs.IsErr || v.Obs.Panic != "" || v.Obs.Hang {
				return
			}
			pl := decodeChars(sc.Payload)
			if !strings.ContainsAny(pl, "<>'\"") {
				return
			}
			if strings.Contains(v.Obs.Out, pl) {
				c.Fail("data-emitted-raw:"+sc.Shape, fmt.Sprintf("%s: the string payload %q reaches the output unescaped: %q", src, pl, trunc(v.Obs.Out, 100)),
					map[string]interface{}{"gen": sc.Gen, "src": sc.Src, "data": sc.Data, "parts": sc.PartsR, "expect": sc.Expect, "shape": sc.Shape, "trusted": false, "payload": sc.Payload, "source_text": src, "observed": v.Obs})
			}
		},
	})
	registerSem(semSpec{
		ID: "C17", Module: "GenCompose", CheckLog: false,
		Quick:    []semRun{{Cfg: "GenCompose.quick.cfg", Workers: 8}, {Cfg: "GenCompose.quick2.cfg", Workers: 8}, {Cfg: "GenCompose.quick.cfg", Workers: 8, CacheOn: true}},
		Thorough: []semRun{{Cfg: "GenCompose.thorough.cfg", Workers: 12}, {Cfg: "GenCompose.quick2.cfg", Workers: 12, CacheOn: true}},
		Rule:     "GenCompose.tla: bodies of up to MaxItems items (literal text with markup and quotes, the passed data, a caller's variable, loop, condition, trusted HTML, a nested partial, a let that rebinds the data name) x 17 composition mechanisms (partial plain / .js / .html / without data, one and two levels of layout, layout under javascript, nested partial, contentFor+contentOf once / twice with different data / redefined, contentOf default block for an undefined name, undefined name without default (error), defined name with an unused default, block helper with caller's / own context, block helper returning string) x content type {unset, html, javascript}. TLC checks InlineTheorem (composed = inline where no layout / JS escaping / re-escaping is involved) and FrameTheorem on the reference semantics. Real plush must render the model's output (JS escaping per character as template.JSEscapeString) for the composed AND the inlined source. distinct_nontrivial = distinct (mechanism, content type, body) shapes.",
	})
	registerSem(semSpec{
		ID: "C18", Module: "GenLayout", CheckLog: false,
		Quick:    []semRun{{Cfg: "GenLayout.single.cfg", Workers: 8}, {Cfg: "GenLayout.random.cfg", Simulate: 300, Depth: 200}},
		Thorough: []semRun{{Cfg: "GenLayout.single.cfg", Workers: 12}, {Cfg: "GenLayout.random.cfg", Simulate: 6000, Depth: 200}},
		Rule:     "GenLayout.tla: 11 programs covering let / assignment / arithmetic, if chains, loops with break and continue, functions, hashes / arrays / indexes, block helpers, nested loops, logic and strings, contentFor / contentOf / partial, printed canonically as token lists; a layout chooses for every separator inside a tag one of {space, tab, newline, CR LF, two spaces, # line comment, nothing next to a tag delimiter}, for every boundary of two adjacent code tags one of {keep, merge with newline / semicolon / space} (which also puts statements directly after an opening or closing brace), and for every tag end whether a comment tag follows. Exhaustive: every layout differing from the canonical one in exactly one position (1.5k); seeded random layouts differing everywhere. TLC checks SameTokens (a layout changes nothing but separators, tag boundaries and comments). Real plush must render the canonical and the laid-out source to the model's output. InsideLex.tla: the in-tag scanner as a machine; TLC checks LayoutInsensitive (token words x separators scan like the single-space layout); every string over 28 characters up to length 3 / 4 is scanned by the real lexer and compared with the machine (drift = the machine no longer describes lexer.go), and every (laid out, canonical) word pair must scan to the same tokens in the real lexer. distinct_nontrivial = distinct (program, layout) pairs + distinct laid-out token words.",
		Shape:    func(sc *semCase) string { return decodeChars(sc.Srcs["layout"]) },
		Pre:      lexMachine,
		Side:     map[string]func(*Ctx, json.RawMessage){"InsideLex": sideLex, "InsideLexW": sideLex},
	})
	registerSem(semSpec{
		ID: "C05", Module: "GenFaults", CheckLog: true,
		Quick:    []semRun{{Cfg: "GenFaults.quick.cfg", Workers: 8}},
		Thorough: []semRun{{Cfg: "GenFaults.thorough.cfg", Workers: 12}},
		Rule:     "GenFaults.tla: a fault (failing Go helper returning a sentinel error, division by zero, call of an unknown function, index out of range) placed at every position = 19 statement contexts (emit, silent tag, let, assignment, if/else body, loop body incl. only the second iteration, function body and return value, block helper with caller's and own context, contentFor block, contentOf default block, partial, nested partial, layout, partial data) applied to a stack of <= MaxNest of 35 expression contexts (both operands of all 13 operators incl. short-circuited ones, !, array/hash element, index and indexed, argument of Go helper / probe / user function, if and else-if condition, loop iterable). TLC checks NoSilentFailure on the reference semantics. Real-code oracle, independent of the model: whenever the instrumented failing helper was actually invoked, Render must return a non-nil error with errors.Is(err, sentinel) and the empty string; additionally the model's outcome (error or exact output) and probe sequence must match. distinct_nontrivial = distinct (fault, statement context, expression contexts) shapes in which the fault was really reached.",
		Shape:    func(sc *semCase) string { return "" }, // counted in PerRun: only when the fault was reached
		PerRun: func(c *Ctx, sc *semCase, src string, v semVerdict) {
			reached := false
			for _, cl := range v.Calls {
				if cl.F == "fail" {
					reached = true
				}
			}
			if sc.Expect.K == "err" || reached {
				c.mu.Lock()
				c.shapes[shapeKey(sc.Shape)] = struct{}{}
				c.mu.Unlock()
				c.Sample(map[string]interface{}{"source": src, "fault_reached": reached, "expected": sc.Expect.K, "observed": v.Obs})
			}
			if !reached || v.Obs.Panic != "" || v.Obs.Hang {
				return
			}
			o := v.Obs
			switch {
			case !o.IsErr:
				c.Fail("invoked-but-no-error:"+sc.Shape, fmt.Sprintf("%s: the failing helper was invoked but Render succeeded with %q", src, trunc(o.Out, 80)), map[string]interface{}{"source_text": src, "src": sc.Src, "data": sc.Data, "parts": sc.PartsR, "expect": sc.Expect, "observed": o})
			case !o.Wraps:
				c.Fail("invoked-not-wrapped:"+sc.Shape, fmt.Sprintf("%s: error does not wrap the helper's error: %s", src, o.Err), map[string]interface{}{"source_text": src, "src": sc.Src, "data": sc.Data, "parts": sc.PartsR, "expect": sc.Expect, "observed": o})
			case o.Out != "":
				c.Fail("invoked-partial-output:"+sc.Shape, fmt.Sprintf("%s: error returned together with output %q", src, trunc(o.Out, 80)), map[string]interface{}{"source_text": src, "src": sc.Src, "data": sc.Data, "parts": sc.PartsR, "expect": sc.Expect, "observed": o})
			}
		},
	})
	registerSem(semSpec{
		ID: "C07", Module: "GenIf", CheckLog: true,
		Quick:    []semRun{{Cfg: "GenIf.quick.cfg", Workers: 4}},
		Thorough: []semRun{{Cfg: "GenIf.thorough.cfg", Workers: 8}},
		Rule:     "GenIf.tla enumerates (a) every value kind of the pool x {if, else-if, !, !!, && true, || false} and (b) every if/else-if/else chain of up to MaxN probe conditions with every truth assignment, with/without else, at top level and nested in a loop, a function, a helper block and as a silent tag in a loop; the model-level theorems KindTheorem / ChainTheorem (exactly the first truthy branch, evaluated conditions = prefix, six contexts agree) are TLC invariants; every case is rendered by real plush and output + recorded probe sequence are compared. distinct_nontrivial = distinct (family, kind or placement, context) shapes.",
		Assume:   []string{"opaque Go kinds (pointers, structs, nil slices/maps, other numeric widths, time, func) are materialised by the harness from their kind names"},
	})
}
