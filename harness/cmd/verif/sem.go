package main

import (
	"context"
	"encoding/json"
	"errors"
	"fmt"
	"html"
	"html/template"
	"math"
	"reflect"
	"runtime"
	"runtime/debug"
	"strings"
	"sync"
	"sync/atomic"
	"time"

	"github.com/gobuffalo/plush/v5"
)

// ------------------------------------------------------------------ character names

var charNames = map[string]string{
	"LT": "<", "GT": ">", "AMP": "&", "APOS": "'", "QUOT": `"`, "BSL": `\`, "PCT": "%", "EQ": "=", "HASH": "#",
	"BQ": "`", "NL": "\n", "CR": "\r", "TAB": "\t", "LBR": "{", "RBR": "}", "SP": " ",
	"EACUTE": "é", "CJK": "日", "COMB": "\u0301", "E4": "😀", "BAD": "\xff", "NUL": "\x00", "NBSP": " ",
}

// seedChars instantiates the character classes PLAIN (non-special ASCII) and MB (a multi-byte rune)
// from the run's seed, so that different seeds exercise different concrete bytes.
func seedChars(seed int64) {
	plain := []string{"z", "~", "!", "*", "+", "-", ".", "/", ":", ";", "=", "?", "@", "[", "]", "^", "_", "|", "(", ")", ",", "$", "7", " q", "\x7f", "\x01"}
	mb := []string{"ü", "ß", "Ω", "ж", "中", "한", "😀", "\u00a0", "ñ", "‰", "\u2028", "е́"}
	if seed < 0 {
		seed = -seed
	}
	charNames["PLAIN"] = plain[int(seed)%len(plain)]
	charNames["MB"] = mb[int(seed/7)%len(mb)]
}

func decodeChars(ss []string) string {
	var b strings.Builder
	for _, s := range ss {
		if v, ok := charNames[s]; ok {
			b.WriteString(v)
		} else {
			b.WriteString(s)
		}
	}
	return b.String()
}

// ------------------------------------------------------------------ abstract values -> Go values

type absVal struct {
	T    string            `json:"t"`
	N    int               `json:"n"`
	B    bool              `json:"b"`
	S    []string          `json:"s"`
	Num  int64             `json:"num"`
	Exp  uint              `json:"exp"`
	Xs   []absVal          `json:"xs"`
	M    map[string]absVal `json:"-"`
	MRaw json.RawMessage   `json:"m"`
	Name string            `json:"name"`
	Kind string            `json:"kind"`
	Go   string            `json:"go"`
	FRaw json.RawMessage   `json:"f"`
	Ps   []string          `json:"ps"`
}

// absMap decodes a TLA+ function with string domain; TLC prints the empty function as [].
type absMap map[string]absVal

func (m *absMap) UnmarshalJSON(b []byte) error {
	*m = absMap{}
	if len(b) > 0 && b[0] == '[' {
		return nil
	}
	return json.Unmarshal(b, (*map[string]absVal)(m))
}

type htmler struct{ s string }

func (h htmler) HTML() template.HTML { return template.HTML(h.s) }

// htmlerStringer is trusted HTML through HTML() and also prints as something else through String().
type htmlerStringer struct{ s string }

func (h htmlerStringer) HTML() template.HTML { return template.HTML(h.s) }
func (h htmlerStringer) String() string      { return "stringer{" + h.s + "}" }

type listIter struct {
	xs  []interface{}
	pos int
}

func (l *listIter) Next() interface{} {
	if l.pos >= len(l.xs) {
		return nil
	}
	l.pos++
	return l.xs[l.pos-1]
}

func (a *absVal) maps() map[string]absVal {
	if a.M != nil {
		return a.M
	}
	a.M = map[string]absVal{}
	if len(a.MRaw) > 0 && a.MRaw[0] == '{' {
		json.Unmarshal(a.MRaw, &a.M)
	}
	return a.M
}

// materialize builds the Go value an abstract value stands for. gofn values are resolved by env.
func materialize(a absVal, env *runEnv) interface{} {
	switch a.T {
	case "nil":
		return nil
	case "int":
		return a.N
	case "bool":
		return a.B
	case "str":
		return decodeChars(a.S)
	case "html":
		if a.Go == "htmler" {
			return htmler{decodeChars(a.S)}
		}
		if a.Go == "htmlerstringer" {
			return htmlerStringer{decodeChars(a.S)}
		}
		return template.HTML(decodeChars(a.S))
	case "imap": // a Go map with int keys holding the key 1
		return map[int]interface{}{1: materialize(a.maps()["one"], env)}
	case "time":
		return time.Date(2024, 3, 5, 10, 30, 0, 0, time.UTC)
	case "rec":
		var f map[string]absVal
		if len(a.FRaw) > 0 && a.FRaw[0] == '{' {
			json.Unmarshal(a.FRaw, &f)
		}
		r := vRec{env: env}
		for k, v := range f {
			gv := materialize(v, env)
			switch k {
			case "Name":
				r.Name, _ = gv.(string)
			case "Html":
				r.Html, _ = gv.(template.HTML)
			case "Any":
				r.Any = gv
			default:
				panic("harness: vRec has no field " + k)
			}
		}
		return r
	case "htmler":
		return htmler{decodeChars(a.S)}
	case "flt":
		return float64(a.Num) / float64(uint64(1)<<a.Exp)
	case "arr":
		switch a.Go {
		case "prefixself":
			// [x, [x]] built as ONE Go slice whose second element is its own one-element prefix (same storage, shorter)
			all := []interface{}{materialize(a.Xs[0], env), nil}
			all[1] = all[:1]
			return all
		case "strs":
			xs := make([]string, 0, len(a.Xs))
			for _, x := range a.Xs {
				xs = append(xs, decodeChars(x.S))
			}
			return xs
		case "htmls":
			xs := make([]template.HTML, 0, len(a.Xs))
			for _, x := range a.Xs {
				xs = append(xs, template.HTML(decodeChars(x.S)))
			}
			return xs
		case "ints":
			xs := make([]int, 0, len(a.Xs))
			for _, x := range a.Xs {
				xs = append(xs, x.N)
			}
			return xs
		case "array":
			var arr [2]int
			for i, x := range a.Xs {
				if i < 2 {
					arr[i] = x.N
				}
			}
			return arr
		}
		xs := make([]interface{}, 0, len(a.Xs))
		for _, x := range a.Xs {
			xs = append(xs, materialize(x, env))
		}
		return xs
	case "strs":
		xs := make([]string, 0, len(a.Xs))
		for _, x := range a.Xs {
			xs = append(xs, decodeChars(x.S))
		}
		return xs
	case "map":
		if a.Go == "nanmap" {
			m := map[float64]string{}
			for _, v := range a.maps() {
				m[math.NaN()] = decodeChars(v.S)
			}
			return m
		}
		if a.Go == "htmlmap" {
			m := map[string]template.HTML{}
			for k, v := range a.maps() {
				m[k] = template.HTML(decodeChars(v.S))
			}
			return m
		}
		m := map[string]interface{}{}
		for k, v := range a.maps() {
			m[k] = materialize(v, env)
		}
		return m
	case "iter":
		xs := make([]interface{}, 0, len(a.Xs))
		for _, x := range a.Xs {
			xs = append(xs, materialize(x, env))
		}
		return &listIter{xs: xs}
	case "opq":
		if a.Kind == "defined_str" {
			return vRole(decodeChars(a.S)) // a defined string type holding the payload
		}
		v, ok := opaqueKinds[a.Kind]
		if !ok {
			panic("harness: no Go value for opaque kind " + a.Kind)
		}
		return v()
	case "gofn":
		if env != nil {
			if f, ok := env.helpers[a.Name]; ok {
				return f
			}
		}
		return nil // a plush built-in: already in every context
	}
	panic("harness: no Go value for abstract kind " + a.T)
}

// opaqueKinds: Go values for the kind names of PlushValues.OpaqueKinds.
type vStruct struct {
	Name string
	N    int
}

// vRec is the Go struct behind the model's "rec" values.
type vRec struct {
	Name string
	Html template.HTML
	Any  interface{}
	env  *runEnv
}

// Fail is a (value, error) method that fails: it records its call like the failing helper does.
func (r vRec) Fail() (vRec, error) {
	if r.env != nil {
		r.env.mu.Lock()
		r.env.calls = append(r.env.calls, probeCall{"fail", 1, nil})
		r.env.mu.Unlock()
	}
	return vRec{Name: "n"}, errSentinel
}

// vHolder: a value with an Interface() method (write prints what it returns)
type vHolder struct{ v interface{} }

func (h vHolder) Interface() interface{} { return h.v }

// vErr: a concrete error type that wraps the sentinel
type vErr struct{}

func (*vErr) Error() string { return "verif: concrete failure" }
func (*vErr) Unwrap() error { return errSentinel }

// vRole: a defined type over string (no methods)
type vRole string

var opaqueKinds = map[string]func() interface{}{
	"nilptr_struct":       func() interface{} { return (*vStruct)(nil) },
	"nilptr_int":          func() interface{} { return (*int)(nil) },
	"ptr_struct":          func() interface{} { return &vStruct{Name: "s"} },
	"ptr_int":             func() interface{} { return new(int) },
	"struct":              func() interface{} { return vStruct{} },
	"nil_slice":           func() interface{} { return []string(nil) },
	"empty_slice":         func() interface{} { return []int{} },
	"nil_map":             func() interface{} { return map[string]int(nil) },
	"empty_map":           func() interface{} { return map[string]string{} },
	"int8_zero":           func() interface{} { return int8(0) },
	"uint_zero":           func() interface{} { return uint(0) },
	"float32_zero":        func() interface{} { return float32(0) },
	"int64_one":           func() interface{} { return int64(1) },
	"time":                func() interface{} { return time.Time{} },
	"func":                func() interface{} { return func() {} },
	"empty_array":         func() interface{} { return [0]int{} },
	"slice_str":           func() interface{} { return []string{"a"} },
	"holder_nil":          func() interface{} { return vHolder{nil} },
	"holder_false":        func() interface{} { return vHolder{false} },
	"holder_empty_string": func() interface{} { return &vHolder{""} },
	"ptr_false":           func() interface{} { return new(bool) },
	"ptr_empty_string":    func() interface{} { return new(string) },
	"ptr_empty_html":      func() interface{} { return new(template.HTML) },
}

// ------------------------------------------------------------------ recording helpers

var errSentinel = errors.New("verif: sentinel failure")

type probeCall struct {
	F  string      `json:"f"`
	ID int         `json:"id"`
	V  interface{} `json:"v"`
}

type runEnv struct {
	mu      sync.Mutex
	calls   []probeCall
	helpers map[string]interface{}
	parts   map[string]string
	self    string // the text of the template being rendered: partial("self") includes it again
}

func newRunEnv() *runEnv {
	e := &runEnv{parts: map[string]string{}}
	e.helpers = map[string]interface{}{
		"p": func(id int, v interface{}) interface{} {
			e.mu.Lock()
			e.calls = append(e.calls, probeCall{"p", id, v})
			e.mu.Unlock()
			return v
		},
		"fail": func(id int) (string, error) {
			e.mu.Lock()
			e.calls = append(e.calls, probeCall{"fail", id, nil})
			e.mu.Unlock()
			return "", errSentinel
		},
		"failc": func(id int) (string, *vErr) {
			e.mu.Lock()
			e.calls = append(e.calls, probeCall{"fail", id, nil})
			e.mu.Unlock()
			return "", &vErr{}
		},
		"faili": func(id int) (string, interface{}) {
			e.mu.Lock()
			e.calls = append(e.calls, probeCall{"fail", id, nil})
			e.mu.Unlock()
			return "", errSentinel
		},
		// a (value, error) helper: a usable struct together with the sentinel error
		"failrec": func(id int) (vRec, error) {
			e.mu.Lock()
			e.calls = append(e.calls, probeCall{"fail", id, nil})
			e.mu.Unlock()
			return vRec{Name: "n"}, errSentinel
		},
		// a helper whose parameter is trusted HTML
		"boldh": func(h template.HTML) template.HTML { return "<b>" + h + "</b>" },
		// a Go-variadic helper
		"vcount": func(xs ...interface{}) int { return len(xs) },
		"id":     func(v interface{}) interface{} { return v },
		// a helper that fills defaults into its options (as tag / form helpers do): the map it receives
		// when called without options must be its own
		"opt": func(opts map[string]interface{}) int {
			opts[fmt.Sprintf("k%d", len(opts))] = true
			return len(opts)
		},
		"blk": func(help plush.HelperContext) (template.HTML, error) {
			s, err := help.Block()
			return template.HTML(s), err
		},
		"blks": func(help plush.HelperContext) (string, error) {
			return help.Block()
		},
		"blkown": func(data map[string]interface{}, help plush.HelperContext) (template.HTML, error) {
			c := help.New()
			for k, v := range data {
				c.Set(k, v)
			}
			s, err := help.BlockWith(c)
			return template.HTML(s), err
		},
		// ... and that swallows a failure of its block (a placeholder is rendered instead)
		"blktry": func(data map[string]interface{}, help plush.HelperContext) (template.HTML, error) {
			c := help.New()
			for k, v := range data {
				c.Set(k, v)
			}
			s, err := help.BlockWith(c)
			if err != nil {
				return "E", nil
			}
			return template.HTML(s), nil
		},
	}
	return e
}

func (e *runEnv) context(data map[string]absVal) *plush.Context {
	return e.contextW(data, nil)
}

// contextW: the names in wrapped are not Set on the plush context; the root is built around a
// context.Context that carries them (plush.NewContextWithContext).
func (e *runEnv) contextW(data map[string]absVal, wrapped []string) *plush.Context {
	var ctx *plush.Context
	inWrapped := map[string]bool{}
	if len(wrapped) > 0 {
		var gc context.Context = context.Background()
		for _, k := range wrapped {
			if v, ok := data[k]; ok {
				gc = context.WithValue(gc, k, materialize(v, e))
				inWrapped[k] = true
			}
		}
		ctx = plush.NewContextWithContext(gc)
	} else {
		ctx = plush.NewContext()
	}
	for k, f := range e.helpers {
		ctx.Set(k, f)
	}
	for k, v := range data {
		if v.T == "gofn" || inWrapped[k] {
			continue
		}
		ctx.Set(k, materialize(v, e))
	}
	// a time.Time under the name tm (2024-03-05 10:30:00 UTC) unless the case binds tm itself
	if _, ok := data["tm"]; !ok {
		ctx.Set("tm", time.Date(2024, 3, 5, 10, 30, 0, 0, time.UTC))
	}
	// ... and a counter n0 = 1 (templates assign to it without let: the write must stay in the assigning scope)
	if _, ok := data["n0"]; !ok {
		ctx.Set("n0", 1)
	}
	// ... and an array with spare capacity (what append-in-place would write into)
	if _, ok := data["sx"]; !ok {
		sx := make([]interface{}, 2, 8)
		sx[0], sx[1] = "p", "q"
		ctx.Set("sx", sx)
	}
	// getx(): the value bound to x, handed to the template as a helper's result (no variable read)
	if x, ok := data["x"]; ok && x.T != "gofn" {
		gx := materialize(x, e)
		ctx.Set("getx", func() interface{} { return gx })
	}
	ctx.Set("partialFeeder", func(name string) (string, error) {
		if s, ok := e.parts[name]; ok {
			return s, nil
		}
		if name == "self" && e.self != "" {
			return e.self, nil
		}
		return "", fmt.Errorf("no partial %q", name)
	})
	return ctx
}

// ------------------------------------------------------------------ running the real code

type observation struct {
	Out   string `json:"out"`
	Err   string `json:"err,omitempty"`
	IsErr bool   `json:"is_err"`
	Wraps bool   `json:"wraps_sentinel"`
	Panic string `json:"panic,omitempty"`
	Site  string `json:"panic_site,omitempty"`
	Hang  bool   `json:"hang,omitempty"`
	// the error is a panic that plush recovered (a runtime.Error, or reflect's own panic message) and reported
	Recovered bool `json:"recovered_panic,omitempty"`
}

var hangCount, slowCount int32
var hangMu sync.Mutex

// guarded runs f with recover and a watchdog.
func guarded(timeout time.Duration, f func() (string, error)) observation {
	ch := make(chan observation, 1)
	go func() {
		var o observation
		defer func() {
			if r := recover(); r != nil {
				o.Panic = fmt.Sprint(r)
				o.Site = panicSite(o.Panic + "\n" + string(debug.Stack()))
			}
			ch <- o
		}()
		out, err := f()
		o.Out = out
		if err != nil {
			o.IsErr = true
			o.Err = err.Error()
			o.Wraps = errors.Is(err, errSentinel)
			var re runtime.Error
			o.Recovered = errors.As(err, &re) || strings.Contains(o.Err, "function: reflect")
		}
	}()
	select {
	case o := <-ch:
		return o
	case <-time.After(timeout):
	}
	// Not back within the watchdog.  On a loaded machine that is not yet a hang: keep waiting for the
	// same call, twenty times longer (at least a minute); only a call that is still running then is
	// reported as one.  A call that does come back is an ordinary (slow) observation.
	ext := 20 * timeout
	if ext < time.Minute {
		ext = time.Minute
	}
	deadline := time.After(ext)
	tick := time.NewTicker(500 * time.Millisecond)
	defer tick.Stop()
	for {
		select {
		case o := <-ch:
			hangMu.Lock()
			slowCount++
			hangMu.Unlock()
			return o
		case <-tick.C:
			// a call that loops AND allocates would take the machine down before the deadline
			var ms runtime.MemStats
			runtime.ReadMemStats(&ms)
			if ms.HeapAlloc > 6<<30 {
				atomic.StoreInt32(&runaway, 1)
				hangMu.Lock()
				hangCount++
				hangMu.Unlock()
				return observation{Hang: true}
			}
		case <-deadline:
			hangMu.Lock()
			hangCount++
			hangMu.Unlock()
			return observation{Hang: true}
		}
	}
}

// panicSite returns the innermost plush function on the panicking stack.  A panic raised by code that is
// neither plush's nor the Go runtime's / reflect's own (a method or function of the DATA, e.g. a String method
// that does not expect a nil receiver) is reported as "usercode:<function>": the engine called what it was asked
// to call, the way Go would.
func panicSite(stack string) string {
	lines := strings.Split(stack, "\n")
	seenPanic := false
	first := true
	for li, l := range lines {
		if strings.HasPrefix(l, "panic(") {
			seenPanic = true
			continue
		}
		if !seenPanic || strings.HasPrefix(l, "\t") || l == "" {
			continue
		}
		isPlush := strings.HasPrefix(l, "github.com/gobuffalo/plush/v5") && !strings.Contains(l, "verif")
		// (the autogenerated wrapper of a value method reached through a nil pointer is not the data's code:
		// whoever calls such a method must check the pointer)
		// (only the harness's own data types count as the data's code: a panic inside a library function that plush
		// called with a value it should have checked -- a nil *regexp.Regexp, say -- is plush's)
		// (... and a method the compiler generated -- the wrapper that promotes a method from an embedded member -- is
		// nobody's code: a struct embedding a nil pointer is plain data)
		autogen := li+1 < len(lines) && strings.Contains(lines[li+1], "<autogenerated>")
		if first && !isPlush && !autogen && !strings.Contains(stack, "called using nil *") && strings.HasPrefix(l, "main.") && !strings.HasPrefix(l, "main.guarded") {
			if i := strings.LastIndex(l, "("); i > 0 {
				l = l[:i]
			}
			return "usercode:" + l
		}
		if !strings.HasPrefix(l, "runtime.") {
			first = false
		}
		if isPlush {
			if i := strings.LastIndex(l, "("); i > 0 {
				l = l[:i]
			}
			return strings.TrimPrefix(l, "github.com/gobuffalo/plush/v5")
		}
	}
	return "?"
}

func renderObserved(src string, ctx *plush.Context) observation {
	return guarded(5*time.Second, func() (string, error) { return plush.Render(src, ctx) })
}

// ------------------------------------------------------------------ expectations

type piece struct {
	K    string    `json:"k"` // raw | esc | perm
	S    []string  `json:"s"`
	Alts [][]piece `json:"alts"`
}

type expectation struct {
	K      string     `json:"k"` // out | err | unspec
	Pieces []piece    `json:"pieces"`
	W      bool       `json:"w"`
	Log    []probeExp `json:"log"`
}

type probeExp struct {
	F  string `json:"f"`
	ID int    `json:"id"`
	V  absVal `json:"v"`
}

// matchPieces checks that out is exactly the expected pieces: raw text byte for byte, escaped
// text with each of < > & ' " as some HTML entity (any spelling) and every other character either
// literally or as an entity.
func matchPieces(out string, ps []piece) (bool, string) {
	rest, ok, why := matchFrom(out, ps)
	if !ok {
		return false, why
	}
	if rest != "" {
		return false, fmt.Sprintf("unexpected trailing output %q", trunc(rest, 60))
	}
	return true, ""
}

func matchFrom(out string, ps []piece) (string, bool, string) {
	for i, p := range ps {
		switch p.K {
		case "raw":
			want := decodeChars(p.S)
			if !strings.HasPrefix(out, want) {
				return out, false, fmt.Sprintf("trusted/literal text %q expected verbatim at %q", trunc(want, 60), trunc(out, 60))
			}
			out = out[len(want):]
		case "esc":
			for _, c := range p.S {
				ch := decodeChars([]string{c})
				r, ok, why := matchEscChar(out, ch)
				if !ok {
					return out, false, why
				}
				out = r
			}
		case "perm":
			r, ok, why := matchPerm(out, p.Alts, ps[i+1:])
			return r, ok, why
		}
	}
	return out, true, ""
}

func matchEscChar(out, ch string) (string, bool, string) {
	special := strings.ContainsAny(ch, `<>&'"`)
	if !special && strings.HasPrefix(out, ch) {
		return out[len(ch):], true, ""
	}
	if strings.HasPrefix(out, "&") {
		if j := strings.IndexByte(out, ';'); j > 0 && j <= 10 {
			if html.UnescapeString(out[:j+1]) == ch {
				return out[j+1:], true, ""
			}
		}
	}
	if special && strings.HasPrefix(out, ch) {
		return out, false, fmt.Sprintf("string data character %q appears unescaped at %q", ch, trunc(out, 60))
	}
	return out, false, fmt.Sprintf("expected (escaped) %q at %q", ch, trunc(out, 60))
}

// matchPerm tries every order of the alternatives followed by the remaining pieces.
func matchPerm(out string, alts [][]piece, rest []piece) (string, bool, string) {
	if len(alts) == 0 {
		return matchFrom(out, rest)
	}
	why := ""
	for i := range alts {
		r, ok, w := matchFrom(out, alts[i])
		if !ok {
			why = w
			continue
		}
		others := append(append([][]piece{}, alts[:i]...), alts[i+1:]...)
		if r2, ok2, w2 := matchPerm(r, others, rest); ok2 {
			return r2, true, ""
		} else {
			why = w2
		}
	}
	return out, false, "no visiting order of the map explains the output: " + why
}

func expectedText(ps []piece) string {
	var b strings.Builder
	for _, p := range ps {
		switch p.K {
		case "raw":
			b.WriteString(decodeChars(p.S))
		case "esc":
			b.WriteString(template.HTMLEscapeString(decodeChars(p.S)))
		case "perm":
			b.WriteString("{")
			for i, a := range p.Alts {
				if i > 0 {
					b.WriteString("|")
				}
				b.WriteString(expectedText(a))
			}
			b.WriteString("}")
		}
	}
	return b.String()
}

// matchLog compares recorded probe calls with the model's log.
func matchLog(env *runEnv, want []probeExp) (bool, string) {
	env.mu.Lock()
	got := append([]probeCall{}, env.calls...)
	env.mu.Unlock()
	if len(got) != len(want) {
		return false, fmt.Sprintf("helper calls: got %d %v, want %d %v", len(got), callIDs(got), len(want), expIDs(want))
	}
	for i := range want {
		if got[i].F != want[i].F || got[i].ID != want[i].ID {
			return false, fmt.Sprintf("helper call %d: got %s(%d), want %s(%d)", i, got[i].F, got[i].ID, want[i].F, want[i].ID)
		}
		if want[i].F == "p" {
			w := materialize(want[i].V, nil)
			if !looseEqual(got[i].V, w) {
				return false, fmt.Sprintf("helper call %d: p(%d) received %#v, want %#v", i, got[i].ID, got[i].V, w)
			}
		}
	}
	return true, ""
}

func looseEqual(a, b interface{}) bool {
	if reflect.DeepEqual(a, b) {
		return true
	}
	return fmt.Sprintf("%#v", a) == fmt.Sprintf("%#v", b)
}

func callIDs(cs []probeCall) []int {
	ids := []int{}
	for _, c := range cs {
		ids = append(ids, c.ID)
	}
	return ids
}

func expIDs(cs []probeExp) []int {
	ids := []int{}
	for _, c := range cs {
		ids = append(ids, c.ID)
	}
	return ids
}

// ------------------------------------------------------------------ a generic semantic case

type semCase struct {
	Gen    string              `json:"gen"`
	Src    []string            `json:"src"`
	Srcs   map[string][]string `json:"srcs"`
	Data   absMap              `json:"data"`
	Parts  map[string][]string `json:"-"`
	PartsR json.RawMessage     `json:"parts"`
	Expect expectation         `json:"expect"`
	Shape  string              `json:"shape"`
	NOps   int                 `json:"nops"`
	Cache  bool                `json:"cache"` // rendered with plush.CacheEnabled (semRun.CacheOn)
	// GenRoutes: whether the payload started as trusted HTML, and the payload
	// names of Data that reach the template through the context.Context the root is built around
	Wrapped []string `json:"wrapped"`
	Trusted *bool    `json:"trusted"`
	Payload []string `json:"payload"`
}

func (sc *semCase) sources() map[string]string {
	m := map[string]string{}
	if len(sc.Src) > 0 {
		m["src"] = decodeChars(sc.Src)
	}
	for k, v := range sc.Srcs {
		m[k] = decodeChars(v)
	}
	return m
}

// semOutcome classifies one execution against the expectation.
//
//	"" agrees; otherwise a failure signature and message.
type semVerdict struct {
	Sig, Msg string
	Obs      observation
	Calls    []probeCall
}

func runSem(sc *semCase, src string, checkLog bool) semVerdict {
	return runSemVia(sc, src, checkLog, false)
}

// runSemVia: with via set, the source is not rendered directly but by a Go helper that renders it with the
// HelperContext it was given (plush.Render(src, help)), called from the one-tag template <%= viahelp() %>: the
// evaluator then works on a context that is not a *plush.Context.  The result must be the same.
func runSemVia(sc *semCase, src string, checkLog bool, via bool) semVerdict {
	env := newRunEnv()
	if len(sc.PartsR) > 0 && sc.PartsR[0] == '{' {
		json.Unmarshal(sc.PartsR, &sc.Parts)
	}
	for k, v := range sc.Parts {
		env.parts[k] = decodeChars(v)
	}
	ctx := env.contextW(sc.Data, sc.Wrapped)
	if via {
		inner := src
		ctx.Set("viahelp", func(help plush.HelperContext) (template.HTML, error) {
			out, err := plush.Render(inner, help)
			return template.HTML(out), err
		})
		src = "<%= viahelp() %>"
	}
	o := renderObserved(src, ctx)
	v := semVerdict{Obs: o}
	switch {
	case o.Hang:
		v.Sig, v.Msg = "hang", "Render did not return"
	case o.Panic != "":
		v.Sig, v.Msg = "panic@"+o.Site, "panic: "+o.Panic
	case sc.Expect.K == "unspec":
		// nothing specified beyond totality
	case sc.Expect.K == "err":
		if !o.IsErr {
			v.Sig, v.Msg = "model-err:real-out", fmt.Sprintf("expected an error, rendered %q", trunc(o.Out, 80))
		} else if o.Out != "" {
			v.Sig, v.Msg = "err-with-output", "error returned together with output"
		} else if sc.Expect.W && !o.Wraps {
			v.Sig, v.Msg = "err-not-wrapped", "error does not wrap the helper's error: "+o.Err
		}
	case sc.Expect.K == "out":
		if o.IsErr {
			v.Sig, v.Msg = "model-out:real-err", fmt.Sprintf("expected %q, got error %s", trunc(expectedText(sc.Expect.Pieces), 80), trunc(o.Err, 120))
		} else if ok, why := matchPieces(o.Out, sc.Expect.Pieces); !ok {
			v.Sig, v.Msg = "value-differs", fmt.Sprintf("expected %q, rendered %q: %s", trunc(expectedText(sc.Expect.Pieces), 80), trunc(o.Out, 80), why)
		}
	}
	env.mu.Lock()
	v.Calls = append([]probeCall{}, env.calls...)
	env.mu.Unlock()
	if v.Sig == "" && checkLog && sc.Expect.K != "unspec" {
		if ok, why := matchLog(env, sc.Expect.Log); !ok {
			v.Sig, v.Msg = "probes-differ", why
		}
	}
	return v
}

// tlcPool feeds TLC case lines to n workers.
type tlcPool struct {
	ch chan json.RawMessage
	wg sync.WaitGroup
}

func newPool(n int, run func(json.RawMessage)) *tlcPool {
	p := &tlcPool{ch: make(chan json.RawMessage, 8192)}
	for i := 0; i < n; i++ {
		p.wg.Add(1)
		go func() {
			defer p.wg.Done()
			for raw := range p.ch {
				run(raw)
			}
		}()
	}
	return p
}

func (p *tlcPool) feed(raw json.RawMessage) { p.ch <- raw }
func (p *tlcPool) close()                   { close(p.ch); p.wg.Wait() }
