package main

import (
	"encoding/json"
	"fmt"
	"os"
	"sort"
)

// replayFile re-runs the case stored in a replay file written by Ctx.finish.
func replayFile(c *Ctx, run func(json.RawMessage)) error {
	b, err := os.ReadFile(c.ReplayPath)
	if err != nil {
		return err
	}
	var v struct {
		Case json.RawMessage `json:"case"`
	}
	if err := json.Unmarshal(b, &v); err != nil {
		return err
	}
	if len(v.Case) == 0 {
		return fmt.Errorf("no case in %s", c.ReplayPath)
	}
	run(v.Case)
	return nil
}

var workers = map[string]func(args []string) int{}

func runWorker(args []string) int {
	if len(args) < 1 {
		return 2
	}
	f, ok := workers[args[0]]
	if !ok {
		fmt.Fprintf(os.Stderr, "unknown worker %s\n", args[0])
		return 2
	}
	return f(args[1:])
}

func sortSlice[T any](xs []T, less func(i, j int) bool) { sort.Slice(xs, less) }
