package main

import (
	"bufio"
	"bytes"
	"encoding/json"
	"fmt"
	"os"
	"os/exec"
	"regexp"
	"runtime"
	"sort"
	"strings"
	"sync"
	"sync/atomic"
	"time"

	"github.com/gobuffalo/plush/v5"
)

// C14 — shared templates, the cache and contexts are safe under concurrent use.
//
// Concurrency.tla decides the lock discipline of the design: every operation is expanded into
// lock / unlock / begin-access / end-access micro-steps and TLC explores all interleavings
// (NoRace, InsertOnce, no deadlock, Finishes). The same operation mixes are then run on the real
// code by a second build of this driver with the Go race detector (-race): every mix from TLC as
// real goroutines on one shared parent context, own child contexts, the cache and one shared
// template; plus corpus templates executed from 2..32 goroutines with results compared with the
// sequential results. A race report or a differing result is a violation.

type c14Scenario struct {
	ID    int               `json:"id"`
	Kind  string            `json:"kind"` // "ops" | "exec"
	Ops   [][]string        `json:"ops,omitempty"`
	Src   string            `json:"src,omitempty"`
	Data  absMap            `json:"data,omitempty"`
	Parts map[string]string `json:"parts,omitempty"`
	G     int               `json:"g,omitempty"`    // goroutines
	Topo  string            `json:"topo,omitempty"` // "child" | "root"
	Cache bool              `json:"cache"`
	Iters int               `json:"iters"`
}

type c14Result struct {
	ID       int    `json:"id"`
	Mismatch string `json:"mismatch,omitempty"`
	Panic    string `json:"panic,omitempty"`
	Stuck    string `json:"stuck,omitempty"`
}

func init() {
	register("C14", checkC14)
	workers["c14"] = c14Worker
}

type c14Ops struct {
	Ops json.RawMessage `json:"ops"`
}

func checkC14(c *Ctx) error {
	c.ruleText = "Concurrency.tla: every assignment of operations {Set / Value / New on a shared context, Set / Value on an own child context, cached Parse, Exec of a shared template with an own child context, cached Render} to 2 goroutines x 1 operation (quick) and additionally 3 goroutines x 1 and 2 goroutines x 2 operations (thorough), all interleavings of their lock / access micro-steps: TLC checks NoRace, InsertOnce, deadlock freedom and Finishes (liveness); the as-built variant (unlocked map reads) and a split-lock Parse are shown to violate them (sensitivity). Real code: every distinct mix is run as real goroutines (two real goroutines per model goroutine, 1500 rounds) in a -race build of the driver, plus corpus templates (all constructs) executed from 2, 8 and 32 goroutines with own child contexts of one shared parent and with own root contexts, cache off and on; a race report, a panic or a result different from the sequential result is a violation. distinct_nontrivial = distinct scenarios run under the race detector."
	c.Assume("data-race freedom of the implementation is observed by the Go race detector on the schedules that actually occur; the TLA+ model decides the lock discipline of the design for ALL interleavings")
	var mu sync.Mutex
	seen := map[string]bool{}
	var scenarios []c14Scenario
	add := func(raw json.RawMessage) {
		var o struct {
			Ops [][]string `json:"ops"`
		}
		if json.Unmarshal(raw, &o) != nil {
			return
		}
		// goroutines are interchangeable: canonical order
		keys := []string{}
		for _, p := range o.Ops {
			keys = append(keys, strings.Join(p, "+"))
		}
		sort.Strings(keys)
		k := strings.Join(keys, " | ")
		mu.Lock()
		if !seen[k] {
			seen[k] = true
			ops := [][]string{}
			for _, s := range keys {
				ops = append(ops, strings.Split(s, "+"))
			}
			scenarios = append(scenarios, c14Scenario{Kind: "ops", Ops: ops, Iters: 1500, Cache: true})
		}
		mu.Unlock()
	}
	cfgs := []string{"Concurrency.quick.cfg"}
	if c.Thorough() {
		cfgs = append(cfgs, "Concurrency.three.cfg", "Concurrency.two.cfg")
	}
	for _, cfg := range cfgs {
		if _, err := c.mustTLC("Concurrency/"+cfg, TLCOpts{Module: "Concurrency", Cfg: cfg, Workers: 14, Seed: c.Seed, Timeout: 40 * time.Minute}, true, add); err != nil {
			return err
		}
	}
	c.exhaustive = true
	for _, dev := range []string{"asbuilt", "parsesplit"} {
		r, err := RunTLC(TLCOpts{Module: "Concurrency", Cfg: "Concurrency." + dev + ".cfg", Workers: 4, Seed: c.Seed, Timeout: 10 * time.Minute, NoCases: true}, nil)
		if err != nil {
			return err
		}
		c.extra["model_sensitivity_"+dev] = r.Violated
		if r.Violated == "" {
			return fmt.Errorf("Concurrency.tla (%s) no longer violates its invariants", dev)
		}
	}
	sort.Slice(scenarios, func(i, j int) bool { return fmt.Sprint(scenarios[i].Ops) < fmt.Sprint(scenarios[j].Ops) })
	if c.Thorough() && len(scenarios) > 600 {
		// all 1-operation mixes plus a seeded sample of the 2-operation ones
		keep := []c14Scenario{}
		for i, s := range scenarios {
			if len(s.Ops[0]) == 1 || (i+int(c.Seed))%4 == 0 {
				keep = append(keep, s)
			}
		}
		scenarios = keep
	}
	// corpus templates executed concurrently
	gens := []struct{ Module, Cfg string }{{"GenLoops", "GenLoops.quick.cfg"}, {"GenScopes", "GenScopes.quick.cfg"}, {"GenFaults", "GenFaults.quick.cfg"}}
	per := 6
	if c.Thorough() {
		gens = append(gens, struct{ Module, Cfg string }{"GenFuncs", "GenFuncs.quick.cfg"}, struct{ Module, Cfg string }{"GenText", "GenText.quick.cfg"}, struct{ Module, Cfg string }{"GenRoutes", "GenRoutes.quick.cfg"})
		per = 40
	}
	corpus, err := collectCorpus(c, gens, per)
	if err != nil {
		return err
	}
	gs := []int{2, 8, 32}
	for i, it := range corpus {
		if it.Perm {
			continue
		}
		parts := map[string]string{}
		if len(it.Case.PartsR) > 0 && it.Case.PartsR[0] == '{' {
			var pm map[string][]string
			json.Unmarshal(it.Case.PartsR, &pm)
			for k, v := range pm {
				parts[k] = decodeChars(v)
			}
		}
		topo := []string{"child", "root"}[i%2]
		scenarios = append(scenarios, c14Scenario{Kind: "exec", Src: it.Src, Data: it.Case.Data, Parts: parts, G: gs[i%3], Topo: topo, Cache: i%4 < 2, Iters: 12})
	}
	// page-then-layout on one context, concurrently with unrelated executions
	for _, g := range []int{2, 8} {
		for _, topo := range []string{"root", "child"} {
			scenarios = append(scenarios, c14Scenario{Kind: "pagelayout", G: g, Topo: topo, Iters: 60,
				Src: `<% contentFor("c") { %>[<%= gid %>|<%= for (v) in [1, 2] { %><%= v %><%= gid %><% } %>]<% } %>page:<%= gid %>`,
				Parts: map[string]string{
					"__layout": `<html><%= contentOf("c") %>|<%= gid %>|<%= contentOf("c", {gid: "d"}) %></html>`,
					"__plain":  `<%= gid %>:<%= for (i) in [1, 2, 3] { %><%= gid %><% let z = gid %><%= if (z == gid) { %>=<% } %><% } %>`,
				}})
		}
	}
	// a shared parent context that an EARLIER render has written to (a template function, a contentFor block): executions on
	// child contexts use what it defined, each with its own data
	// (the defining render has itself written nested arrays and resolved a path after an index before it stores the block)
	const prelude = `<%= if (true) { %><%= if (true) { %><%= [1, [2]] %><% } %><% } %><% let first = sx[0] %><% let t0 = rows[0].Tags %><% let deepfn = fn(n) { if (n == 0) { return "ok" } return deepfn(n - 1) } %><% contentFor("shared") { %>[<%= label %>:<%= rows[0].Tags[0] %>:<%= for (v) in [1, 2] { %><%= label %><%= if (true) { %><%= [label, [label]] %><% } %><% } %>]<% } %>`
	for _, g := range []int{2, 8} {
		scenarios = append(scenarios,
			c14Scenario{Kind: "sharedfn", G: g, Topo: "child", Iters: 4, Src: `<%= deepfn(180) %>|<%= gid %>|<%= deepfn(2) %>`, Parts: map[string]string{"__prelude": prelude}},
			c14Scenario{Kind: "sharedblock", G: g, Topo: "child", Iters: 40, Src: `<%= contentOf("shared", {label: gid}) %>|<%= gid %>`, Parts: map[string]string{"__prelude": prelude}})
	}
	// ONE array (bound in a shared parent) printed by all executions at overlapping times: an element's String method keeps
	// each execution inside the write for a while
	for _, g := range []int{2, 8} {
		scenarios = append(scenarios, c14Scenario{Kind: "sharedarray", G: g, Topo: "child", Iters: 4, Src: `<%= items %>|<%= for (v) in items { %><%= v %><% } %>`})
	}
	// one parsed template whose output is longer in every execution than in any before it (whatever an execution records
	// about "the largest output so far" is recorded all the time)
	for _, g := range []int{2, 8} {
		scenarios = append(scenarios, c14Scenario{Kind: "growing", G: g, Topo: "root", Iters: 40, Src: `[<%= pad %>]<%= for (v) in [1, 2] { %><%= pad %><% } %>`})
	}
	// BuffaloRenderer without data, all renderings handing over ONE helpers map (an application's): the map is only read
	for _, g := range []int{2, 8} {
		scenarios = append(scenarios, c14Scenario{Kind: "buffalo", G: g, Topo: "root", Iters: 30, Src: `<% let who = me() %><%= who %>|<%= if (leftover) { %>L<% } %><% let leftover = 1 %>`})
	}
	for i := range scenarios {
		scenarios[i].ID = i
	}
	return c14RunRace(c, scenarios)
}

var reRaceFunc = regexp.MustCompile(`^\s+(github\.com/gobuffalo/plush/v5[^\s(]*\([^)]*\)\.?[A-Za-z0-9_.]*|github\.com/gobuffalo/plush/v5[^\s]*)\(\)`)

// c14RunRace builds the driver with -race and runs all scenarios in it; race reports on stderr are
// attributed to scenarios by the markers the worker prints.
func c14RunRace(c *Ctx, scenarios []c14Scenario) error {
	bin := verifRoot + "/bin/verif-race"
	build := exec.Command("go", "build", "-race", "-tags", "verif", "-o", bin, "./cmd/verif")
	build.Dir = verifRoot + "/harness"
	build.Env = append(os.Environ(), "GOFLAGS=-mod=mod", "GOPROXY=off", "GOSUMDB=off", "GOTOOLCHAIN=local", "CGO_ENABLED=1")
	if out, err := build.CombinedOutput(); err != nil {
		return fmt.Errorf("building the race-detector driver: %v: %s", err, trunc(string(out), 800))
	}
	var stdout, stderr bytes.Buffer
	crashed := false
	stuck := 0
	deadline := time.After(60 * time.Minute)
	for remaining := scenarios; len(remaining) > 0; {
		in, _ := json.Marshal(remaining)
		cmd := exec.Command(bin, "worker", "c14")
		cmd.Stdin = bytes.NewReader(in)
		cmd.Env = append(os.Environ(), "GORACE=halt_on_error=0 exitcode=0")
		var so, se bytes.Buffer
		cmd.Stdout, cmd.Stderr = &so, &se
		done := make(chan error, 1)
		go func() { done <- cmd.Run() }()
		var err error
		select {
		case err = <-done:
		case <-deadline:
			cmd.Process.Kill()
			return fmt.Errorf("race worker timed out")
		}
		stdout.Write(so.Bytes())
		stderr.Write(se.Bytes())
		if err == nil {
			break
		}
		// a scenario that never finished (deadlock): the worker reported it and left; go on after it
		if i := strings.LastIndex(se.String(), "@@SCENARIO "); i >= 0 && strings.Contains(se.String()[i:], " STUCK") {
			var id int
			fmt.Sscanf(se.String()[i:], "@@SCENARIO %d STUCK", &id)
			next := len(remaining)
			for j, s := range remaining {
				if s.ID == id {
					next = j + 1
				}
			}
			remaining = remaining[next:]
			if stuck++; stuck >= 3 {
				// enough for a verdict; every further one costs the full limit
				crashed = true
				break
			}
			continue
		}
		// the Go runtime aborts the process on an unsynchronised concurrent map access it notices
		// itself: that is a verdict, not a tooling failure
		if !strings.Contains(se.String(), "fatal error: concurrent map") && !strings.Contains(se.String(), "WARNING: DATA RACE") {
			return fmt.Errorf("race worker: %v: %s", err, trunc(se.String(), 800))
		}
		crashed = true
		break
	}
	// results
	results := map[int]c14Result{}
	sc := bufio.NewScanner(&stdout)
	sc.Buffer(make([]byte, 1<<20), 1<<24)
	for sc.Scan() {
		var r c14Result
		if json.Unmarshal(sc.Bytes(), &r) == nil {
			results[r.ID] = r
		}
	}
	if len(results) != len(scenarios) && !crashed {
		return fmt.Errorf("race worker reported %d of %d scenarios: %s", len(results), len(scenarios), trunc(stderr.String(), 600))
	}
	if crashed {
		// attribute the abort to the scenario that was running
		last := -1
		for _, line := range strings.Split(stderr.String(), "\n") {
			if strings.HasPrefix(line, "@@SCENARIO ") && strings.HasSuffix(line, "BEGIN") {
				fmt.Sscanf(line, "@@SCENARIO %d", &last)
			}
		}
		if i := strings.Index(stderr.String(), "fatal error: concurrent map"); i >= 0 && last >= 0 && last < len(scenarios) {
			c.Fail("race:runtime-abort:concurrent-map", fmt.Sprintf("the Go runtime aborted with a concurrent map access while running %s", c14Desc(scenarios[last])),
				map[string]interface{}{"scenario": scenarios[last], "stderr": trunc(stderr.String()[i:], 1500)})
		}
		scenarios = scenarios[:len(results)]
	}
	// race reports per scenario
	races := map[int][]string{}
	cur := -1
	var report []string
	flush := func() {
		if len(report) > 0 && cur >= 0 {
			races[cur] = append(races[cur], strings.Join(report, "\n"))
		}
		report = nil
	}
	for _, line := range strings.Split(stderr.String(), "\n") {
		switch {
		case strings.HasPrefix(line, "@@SCENARIO "):
			flush()
			fmt.Sscanf(line, "@@SCENARIO %d", &cur)
		case strings.HasPrefix(line, "WARNING: DATA RACE"):
			flush()
			report = []string{line}
		case strings.HasPrefix(line, "=================="):
			if len(report) > 1 {
				flush()
			}
		case report != nil:
			report = append(report, line)
		}
	}
	flush()
	for _, s := range scenarios {
		shape := fmt.Sprintf("%s:%v:%d:%s:%v:%s", s.Kind, s.Ops, s.G, s.Topo, s.Cache, trunc(s.Src, 60))
		c.Eval(shape)
		c.Rule("scenario:" + s.Kind)
		r := results[s.ID]
		if s.Kind == "ops" && len(s.Ops) >= 2 {
			c.Sample(map[string]interface{}{"goroutines": s.Ops, "rounds": s.Iters, "race_reports": len(races[s.ID]), "mismatch": r.Mismatch})
		} else if s.ID%7 == 0 {
			c.Sample(map[string]interface{}{"template": s.Src, "goroutines": s.G, "context": s.Topo, "cache": s.Cache, "race_reports": len(races[s.ID]), "mismatch": r.Mismatch})
		}
		cas := map[string]interface{}{"scenario": s, "result": r}
		if rs := races[s.ID]; len(rs) > 0 {
			cas["race_report"] = trunc(rs[0], 3000)
			rsig := "race:" + raceSig(rs[0])
			if s.Kind == "sharedblock" || s.Kind == "sharedfn" {
				rsig = "race:" + s.Kind + ":" + raceSig(rs[0])
			}
			c.Fail(rsig, fmt.Sprintf("data race while running %s: %s", c14Desc(s), raceSig(rs[0])), cas)
		}
		if r.Stuck != "" {
			c.Fail("stuck:"+s.Kind, fmt.Sprintf("%s: did not finish within %s (goroutines blocked)", c14Desc(s), c14ScenarioLimit), map[string]interface{}{"scenario": s, "stacks": trunc(r.Stuck, 4000)})
			continue
		}
		if r.Panic != "" {
			c.Fail("concurrent-panic:"+s.Kind, fmt.Sprintf("%s: panic %s", c14Desc(s), r.Panic), cas)
		}
		if r.Mismatch != "" {
			c.Fail("concurrent-result-differs:"+s.Kind, fmt.Sprintf("%s: %s", c14Desc(s), r.Mismatch), cas)
		}
	}
	return nil
}

func c14Desc(s c14Scenario) string {
	if s.Kind == "ops" {
		return fmt.Sprintf("goroutines %v", s.Ops)
	}
	return fmt.Sprintf("%d goroutines (%s contexts, cache %v) executing %q", s.G, s.Topo, s.Cache, trunc(s.Src, 80))
}

// raceSig: the first plush function on each side of a race report.
func raceSig(report string) string {
	var fns []string
	section := false
	for _, l := range strings.Split(report, "\n") {
		t := strings.TrimSpace(l)
		if strings.HasSuffix(t, ":") && (strings.Contains(t, " by goroutine") || strings.Contains(t, "by main goroutine")) {
			section = len(fns) < 2
			continue
		}
		if section && strings.HasPrefix(t, "github.com/gobuffalo/plush/v5") {
			f := strings.TrimPrefix(t, "github.com/gobuffalo/plush/v5")
			if i := strings.LastIndex(f, "("); i > 0 {
				f = f[:i]
			}
			fns = append(fns, f)
			section = false
		}
	}
	return strings.Join(fns, " <-> ")
}

// ------------------------------------------------------------------ worker (runs in the -race build)

func c14Worker(args []string) int {
	var scenarios []c14Scenario
	if err := json.NewDecoder(os.Stdin).Decode(&scenarios); err != nil {
		fmt.Fprintln(os.Stderr, "worker: ", err)
		return 2
	}
	out := json.NewEncoder(os.Stdout)
	for _, s := range scenarios {
		fmt.Fprintf(os.Stderr, "@@SCENARIO %d BEGIN\n", s.ID)
		var r c14Result
		done := make(chan c14Result, 1)
		go func(s c14Scenario) {
			if s.Kind == "ops" {
				done <- c14RunOps(s)
			} else {
				done <- c14RunExec(s)
			}
		}(s)
		select {
		case r = <-done:
		case <-time.After(c14ScenarioLimit):
			// blocked goroutines cannot be recovered: report, dump the stacks and leave; the driver
			// starts another worker for the scenarios after this one
			buf := make([]byte, 1<<16)
			buf = buf[:runtime.Stack(buf, true)]
			out.Encode(c14Result{ID: s.ID, Stuck: string(buf)})
			fmt.Fprintf(os.Stderr, "@@SCENARIO %d STUCK\n", s.ID)
			return 3
		}
		r.ID = s.ID
		time.Sleep(2 * time.Millisecond)
		fmt.Fprintf(os.Stderr, "@@SCENARIO %d END\n", s.ID)
		out.Encode(r)
	}
	return 0
}

// a scenario takes a few seconds under the race detector
const c14ScenarioLimit = 60 * time.Second

const c14Tmpl = `<% let n = x %><%= for (i, v) in [1, 2] { %><%= v %><%= x %><% } %>|<%= n %>|<%= if (zz) { %>a<% } else { %>b<% } %>`
const c14Want = `1X2X|X|b`

func c14RunOps(s c14Scenario) (res c14Result) {
	plush.CacheEnabled = s.Cache
	defer func() { plush.CacheEnabled = false }()
	parent := plush.NewContext()
	parent.Set("x", "X")
	parent.Set("k", 0)
	text := fmt.Sprintf("%s<%%# ops %d %%>", c14Tmpl, s.ID)
	shared, err := plush.NewTemplate(text)
	if err != nil {
		res.Mismatch = "template: " + err.Error()
		return
	}
	// contexts fresh from New(), never written to: round i of every goroutine works on fresh[i] (the first Set on a
	// context may meet the reads and New of the others)
	fresh := make([]*plush.Context, s.Iters)
	for i := range fresh {
		fresh[i] = parent.New().(*plush.Context)
	}
	var wg sync.WaitGroup
	var mu sync.Mutex
	start := make(chan struct{})
	// every model goroutine is run by two real goroutines: more overlap for the detector
	real := append(append([][]string{}, s.Ops...), s.Ops...)
	for g, ops := range real {
		wg.Add(1)
		go func(g int, ops []string) {
			defer wg.Done()
			defer func() {
				if r := recover(); r != nil {
					mu.Lock()
					res.Panic = fmt.Sprint(r)
					mu.Unlock()
				}
			}()
			own := parent.New().(*plush.Context)
			<-start
			for i := 0; i < s.Iters; i++ {
				for _, op := range ops {
					var out string
					var err error
					check := false
					switch op {
					case "set_shared":
						parent.Set("k", i)
						fresh[i].Set("k", i)
					case "value_shared":
						parent.Value("k")
						parent.Has("k")
						// names the context does not bind itself: the lookup goes past its own map
						parent.Has("nosuch")
						parent.Value("nosuch")
						fresh[i].Value("k")
						fresh[i].Has("k")
					case "new_shared":
						parent.New()
						fresh[i].New()
					case "set_own":
						own.Set("k", i)
					case "value_own":
						own.Value("k")
						own.Value("x")
						own.Has("nosuch")
					case "parse":
						_, err = plush.Parse(text)
						check = err != nil
					case "exec_own":
						out, err = shared.Exec(own)
						check = true
					case "render_cached":
						out, err = plush.Render(text, own)
						check = true
					}
					if check && (err != nil || (out != c14Want && op != "parse")) {
						mu.Lock()
						res.Mismatch = fmt.Sprintf("goroutine %d %s: got %q, %v; alone it gives %q", g, op, out, err, c14Want)
						mu.Unlock()
					}
				}
			}
		}(g, ops)
	}
	close(start)
	wg.Wait()
	return
}

// rows[0].Tags[0]: a path that goes on after an index, over data of the execution's own
type c14Row struct{ Tags []string }

type c14BaseA struct{ Name string }
type c14PageA struct {
	c14BaseA
	Title string
}
type c14BaseB struct {
	Pad  int
	Name string
}
type c14PageB struct {
	Title string
	Extra int
	c14BaseB
}

// c14RunBuffalo: G goroutines render through BuffaloRenderer(src, nil, helpers) with one helpers map.
func c14RunBuffalo(s c14Scenario) (res c14Result) {
	helpers := map[string]interface{}{"me": func() string { return "M" }, "other": func() string { return "O" }}
	var wg sync.WaitGroup
	var mu sync.Mutex
	for g := 0; g < s.G; g++ {
		wg.Add(1)
		go func(g int) {
			defer wg.Done()
			defer func() {
				if r := recover(); r != nil {
					mu.Lock()
					res.Panic = fmt.Sprint(r)
					mu.Unlock()
				}
			}()
			for i := 0; i < s.Iters; i++ {
				out, err := plush.BuffaloRenderer(s.Src, nil, helpers)
				if out != "M|" || err != nil {
					mu.Lock()
					res.Mismatch = fmt.Sprintf("goroutine %d rendering %d got (%q, %v), alone it gives (\"M|\", nil)", g, i, out, err)
					mu.Unlock()
					return
				}
			}
		}(g)
	}
	wg.Wait()
	if len(helpers) != 2 && res.Mismatch == "" {
		res.Mismatch = fmt.Sprintf("the caller's helpers map had 2 entries and has %d after the renderings", len(helpers))
	}
	return
}

// c14Slow: printing it takes a while
type c14Slow struct{}

func (c14Slow) String() string { time.Sleep(15 * time.Millisecond); return "-" }

// c14RunSharedArray: G goroutines, each on a child of one parent context that binds the array.
func c14RunSharedArray(s c14Scenario) (res c14Result) {
	parent := plush.NewContext()
	parent.Set("items", []interface{}{"a", c14Slow{}, []interface{}{"b", c14Slow{}}})
	const want = "a-b-|a-b-"
	var wg sync.WaitGroup
	var mu sync.Mutex
	start := make(chan struct{})
	for g := 0; g < s.G; g++ {
		wg.Add(1)
		go func(g int) {
			defer wg.Done()
			defer func() {
				if r := recover(); r != nil {
					mu.Lock()
					res.Panic = fmt.Sprint(r)
					mu.Unlock()
				}
			}()
			<-start
			for i := 0; i < s.Iters; i++ {
				out, err := plush.Render(s.Src, parent.New())
				if out != want || err != nil {
					mu.Lock()
					res.Mismatch = fmt.Sprintf("goroutine %d execution %d got (%q, %v), alone it gives (%q, nil)", g, i, out, err, want)
					mu.Unlock()
					return
				}
			}
		}(g)
	}
	close(start)
	wg.Wait()
	return
}

// c14RunGrowing: G goroutines execute ONE parsed template; the data of every execution is longer than that of all before.
func c14RunGrowing(s c14Scenario) (res c14Result) {
	t, err := plush.NewTemplate(s.Src)
	if err != nil {
		res.Mismatch = "template: " + err.Error()
		return
	}
	var n int64
	var wg sync.WaitGroup
	var mu sync.Mutex
	start := make(chan struct{})
	for g := 0; g < s.G; g++ {
		wg.Add(1)
		go func(g int) {
			defer wg.Done()
			defer func() {
				if r := recover(); r != nil {
					mu.Lock()
					res.Panic = fmt.Sprint(r)
					mu.Unlock()
				}
			}()
			<-start
			for i := 0; i < s.Iters; i++ {
				pad := strings.Repeat("x", int(atomic.AddInt64(&n, 1))+len(s.Src))
				ctx := plush.NewContext()
				ctx.Set("pad", pad)
				out, err := t.Exec(ctx)
				if want := "[" + pad + "]" + pad + pad; out != want || err != nil {
					mu.Lock()
					res.Mismatch = fmt.Sprintf("goroutine %d execution %d got (%q, %v), alone it gives %d characters", g, i, trunc(out, 60), err, len(want))
					mu.Unlock()
					return
				}
			}
		}(g)
	}
	close(start)
	wg.Wait()
	return
}

func c14RunExec(s c14Scenario) (res c14Result) {
	if s.Kind == "growing" {
		return c14RunGrowing(s)
	}
	if s.Kind == "buffalo" {
		return c14RunBuffalo(s)
	}
	if s.Kind == "sharedarray" {
		return c14RunSharedArray(s)
	}
	plush.CacheEnabled = s.Cache
	defer func() { plush.CacheEnabled = false }()
	item := corpusItem{Src: s.Src, Case: &semCase{Data: s.Data}}
	mkctx := func(parent *plush.Context) (*plush.Context, *runEnv) {
		env := newRunEnv()
		env.self = s.Src
		for k, v := range s.Parts {
			env.parts[k] = v
		}
		if parent == nil {
			return env.context(s.Data), env
		}
		ctx := parent.New().(*plush.Context)
		for k, f := range env.helpers {
			ctx.Set(k, f)
		}
		// stateful test data (iterators) belongs to one execution: give every child its own
		for k, v := range s.Data {
			if v.T == "iter" {
				ctx.Set(k, materialize(v, env))
			}
		}
		ctx.Set("partialFeeder", func(name string) (string, error) {
			if p, ok := env.parts[name]; ok {
				return p, nil
			}
			if name == "self" && env.self != "" {
				return env.self, nil
			}
			return "", fmt.Errorf("no partial %q", name)
		})
		return ctx, env
	}
	var parent *plush.Context
	if s.Topo == "child" {
		parent, _ = mkctx(nil)
		parent.Set("rows", []c14Row{{Tags: []string{"seed"}}})
		if pre := s.Parts["__prelude"]; pre != "" {
			if _, err := plush.Render(pre, parent); err != nil {
				res.Mismatch = "the prelude does not render: " + err.Error()
				return
			}
		}
	}
	_ = item
	type outcome struct{ Out, Err, Calls string }
	// "pagelayout": the way an application renders a page and then its layout on ONE context (a block stored
	// by contentFor in the first execution is rendered by contentOf in the second), next to unrelated executions
	var pageT, layoutT, plainT *plush.Template
	if s.Kind == "pagelayout" {
		pageT, _ = plush.NewTemplate(s.Src)
		layoutT, _ = plush.NewTemplate(s.Parts["__layout"])
		plainT, _ = plush.NewTemplate(s.Parts["__plain"])
		if pageT == nil || layoutT == nil || plainT == nil {
			res.Mismatch = "pagelayout templates do not parse"
			return
		}
	}
	run := func(t *plush.Template, gid string) outcome {
		ctx, env := mkctx(parent)
		ctx.Set("gid", gid) // data that differs from execution to execution
		ctx.Set("rows", []c14Row{{Tags: []string{"t" + gid}}})
		// ... also in TYPE: px is a struct of one of two types that promote Name from embedded structs at different positions
		if sum := len(gid) + int(gid[len(gid)-1]); sum%2 == 0 {
			ctx.Set("px", c14PageA{c14BaseA: c14BaseA{Name: "A:" + gid}, Title: "ta"})
		} else {
			ctx.Set("px", c14PageB{Title: "tb", c14BaseB: c14BaseB{Name: "B:" + gid}})
		}
		// ... and so does the time format: every other execution binds its own TIME_FORMAT in its context
		var gi, xi, qi int
		if n, _ := fmt.Sscanf(gid, "g%dx%dq%d", &gi, &xi, &qi); n == 3 && (gi+xi)%2 == 1 {
			ctx.Set("TIME_FORMAT", "2006-01-02 15h")
		}
		var out string
		var err error
		if s.Kind == "pagelayout" {
			if strings.HasPrefix(gid, "g0") || strings.HasPrefix(gid, "g2") || strings.HasPrefix(gid, "g4") || strings.HasPrefix(gid, "g6") {
				var o2 string
				out, err = pageT.Exec(ctx)
				if err == nil {
					runtime.Gosched()
					o2, err = layoutT.Exec(ctx)
					out += "\x00" + o2
				}
			} else {
				out, err = plainT.Exec(ctx)
			}
		} else if t != nil {
			out, err = t.Exec(ctx)
		} else {
			out, err = plush.Render(s.Src, ctx)
		}
		e := ""
		if err != nil {
			e = err.Error()
		}
		env.mu.Lock()
		calls := fmt.Sprint(env.calls)
		env.mu.Unlock()
		return outcome{out, e, calls}
	}
	var shared *plush.Template
	if !s.Cache {
		t, err := plush.NewTemplate(s.Src)
		if err != nil {
			return
		}
		shared = t
	}
	got := make([][]outcome, s.G)
	var wg sync.WaitGroup
	var mu sync.Mutex
	start := make(chan struct{})
	for g := 0; g < s.G; g++ {
		wg.Add(1)
		go func(g int) {
			defer wg.Done()
			defer func() {
				if r := recover(); r != nil {
					mu.Lock()
					res.Panic = fmt.Sprint(r)
					mu.Unlock()
				}
			}()
			<-start
			for i := 0; i < s.Iters; i++ {
				got[g] = append(got[g], run(shared, fmt.Sprintf("g%dx%dq%d", g, i, s.ID)))
			}
		}(g)
	}
	close(start)
	wg.Wait()
	// the same executions alone, afterwards
	for g := range got {
		for i, o := range got[g] {
			if want := run(shared, fmt.Sprintf("g%dx%dq%d", g, i, s.ID)); o != want {
				res.Mismatch = fmt.Sprintf("goroutine %d execution %d got %+v, alone it gives %+v", g, i, o, want)
				return
			}
		}
	}
	return
}
